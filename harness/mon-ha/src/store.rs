//! In-memory emulation of one Redis node: the key space (strings with TTL, streams),
//! the command subset the leader-lease adapter and its scripts use, the script cache
//! and the Lua <-> RESP conversion rules of Redis' scripting engine.
//!
//! Anything the emulation does not model exactly is recorded in `Db::gaps`; the
//! monitor turns a non-empty gap list into an *inconclusive* run.

use crate::{
    lua::{
        self,
        Bytes,
        Chunk,
        Host,
        Interp,
        LuaError,
        Table,
        Value,
        bytes,
    },
    sha1::sha1_hex,
};
use std::{
    cell::RefCell,
    collections::HashMap,
    rc::Rc,
    sync::Arc,
};

#[derive(Debug, Clone, PartialEq)]
pub enum Reply {
    Status(String),
    /// error text without the leading '-'
    Error(String),
    Int(i64),
    Bulk(Bytes),
    /// null bulk string
    Nil,
    Array(Vec<Reply>),
    NilArray,
}

impl Reply {
    pub fn bulk(s: &[u8]) -> Reply {
        Reply::Bulk(bytes(s))
    }

    pub fn ok() -> Reply {
        Reply::Status("OK".into())
    }

    pub fn err(s: impl Into<String>) -> Reply {
        Reply::Error(s.into())
    }

    pub fn encode(&self, out: &mut Vec<u8>) {
        match self {
            Reply::Status(s) => {
                out.push(b'+');
                out.extend_from_slice(s.as_bytes());
                out.extend_from_slice(b"\r\n");
            }
            Reply::Error(s) => {
                out.push(b'-');
                // error lines cannot contain newlines
                out.extend(s.bytes().map(|c| if c == b'\r' || c == b'\n' { b' ' } else { c }));
                out.extend_from_slice(b"\r\n");
            }
            Reply::Int(i) => {
                out.extend_from_slice(format!(":{i}\r\n").as_bytes());
            }
            Reply::Bulk(b) => {
                out.extend_from_slice(format!("${}\r\n", b.len()).as_bytes());
                out.extend_from_slice(b);
                out.extend_from_slice(b"\r\n");
            }
            Reply::Nil => out.extend_from_slice(b"$-1\r\n"),
            Reply::NilArray => out.extend_from_slice(b"*-1\r\n"),
            Reply::Array(v) => {
                out.extend_from_slice(format!("*{}\r\n", v.len()).as_bytes());
                for r in v {
                    r.encode(out);
                }
            }
        }
    }
}

pub type StreamId = (u64, u64);

#[derive(Debug, Clone)]
pub struct StreamEntry {
    pub id: StreamId,
    /// flat field/value list
    pub fields: Vec<Bytes>,
}

#[derive(Debug, Clone, Default)]
pub struct Stream {
    pub entries: Vec<StreamEntry>,
    pub last_id: StreamId,
}

#[derive(Debug, Clone)]
pub enum Obj {
    Str(Bytes),
    Stream(Stream),
}

#[derive(Debug, Clone)]
pub struct Entry {
    pub obj: Obj,
    /// absolute unix ms; the key is gone once `now > expire_at`
    pub expire_at: Option<u64>,
}

pub struct CachedScript {
    pub sha: String,
    pub text: Bytes,
    pub chunk: Result<Chunk, LuaError>,
}

/// Execution context of one top-level command.
#[derive(Clone, Copy, Debug)]
pub struct Ctx {
    /// unix time in microseconds, frozen for the duration of a script (as in Redis)
    pub now_us: u64,
    pub in_script: bool,
}

impl Ctx {
    pub fn now_ms(&self) -> u64 {
        self.now_us / 1000
    }
}

/// Side effects worth reporting to the harness observers.
#[derive(Debug, Clone)]
pub enum Effect {
    Xadd {
        key: Vec<u8>,
        id: StreamId,
        fields: Vec<Bytes>,
    },
}

#[derive(Default)]
pub struct Db {
    pub keys: HashMap<Vec<u8>, Entry>,
    pub scripts: HashMap<String, Arc<CachedScript>>,
    /// constructs/commands seen that the emulation does not model faithfully
    pub gaps: Vec<String>,
    /// effects of the command currently executing (cleared by the caller)
    pub effects: Vec<Effect>,
    /// optional server-side script substitution (oracle self-test and triage only):
    /// maps the SHA-1 of an incoming script text to a replacement text
    pub script_patches: HashMap<String, Bytes>,
}

const WRONGTYPE: &str = "WRONGTYPE Operation against a key holding the wrong kind of value";
const NOT_INT: &str = "ERR value is not an integer or out of range";
const SYNTAX: &str = "ERR syntax error";

fn wrong_args(cmd: &str) -> Reply {
    Reply::err(format!(
        "ERR wrong number of arguments for '{}' command",
        cmd.to_ascii_lowercase()
    ))
}

/// Redis' `string2ll`: strict decimal, no leading '+', spaces or zeros.
pub fn parse_ll(s: &[u8]) -> Option<i64> {
    if s.is_empty() || s.len() > 20 {
        return None;
    }
    if s == b"0" {
        return Some(0);
    }
    let (neg, digits) = match s.strip_prefix(b"-") {
        Some(d) => (true, d),
        None => (false, s),
    };
    if digits.is_empty() || digits[0] == b'0' || !digits.iter().all(|c| c.is_ascii_digit()) {
        return None;
    }
    let mut v: i128 = 0;
    for d in digits {
        v = v * 10 + (d - b'0') as i128;
    }
    if neg {
        v = -v;
    }
    i64::try_from(v).ok()
}

fn eq_ic(a: &[u8], b: &str) -> bool {
    a.eq_ignore_ascii_case(b.as_bytes())
}

pub fn fmt_id(id: StreamId) -> String {
    format!("{}-{}", id.0, id.1)
}

/// parse a range bound; `lower` selects the default sequence part
fn parse_range_id(s: &[u8], lower: bool) -> Result<(StreamId, bool), ()> {
    let (s, excl) = match s.strip_prefix(b"(") {
        Some(rest) => (rest, true),
        None => (s, false),
    };
    if s == b"-" {
        return Ok(((0, 0), excl));
    }
    if s == b"+" {
        return Ok(((u64::MAX, u64::MAX), excl));
    }
    let txt = std::str::from_utf8(s).map_err(|_| ())?;
    match txt.split_once('-') {
        Some((a, b)) => {
            let ms = a.parse::<u64>().map_err(|_| ())?;
            let seq = b.parse::<u64>().map_err(|_| ())?;
            Ok(((ms, seq), excl))
        }
        None => {
            let ms = txt.parse::<u64>().map_err(|_| ())?;
            Ok(((ms, if lower { 0 } else { u64::MAX }), excl))
        }
    }
}

impl Db {
    pub fn new() -> Db {
        Db::default()
    }

    pub fn gap(&mut self, what: impl Into<String>) {
        if self.gaps.len() < 64 {
            self.gaps.push(what.into());
        }
    }

    /// data loss: everything including the script cache is gone (process restart
    /// without persistence)
    pub fn wipe(&mut self) {
        self.keys.clear();
        self.scripts.clear();
    }

    fn live(&mut self, key: &[u8], now_ms: u64) -> Option<&mut Entry> {
        let expired = match self.keys.get(key) {
            Some(e) => e.expire_at.is_some_and(|t| now_ms > t),
            None => return None,
        };
        if expired {
            self.keys.remove(key);
            return None;
        }
        self.keys.get_mut(key)
    }

    /// read-only peek for observers (does not lazily expire)
    pub fn peek_string(&self, key: &[u8], now_ms: u64) -> Option<Bytes> {
        match self.keys.get(key) {
            Some(Entry {
                obj: Obj::Str(s),
                expire_at,
            }) if !expire_at.is_some_and(|t| now_ms > t) => Some(s.clone()),
            _ => None,
        }
    }

    pub fn peek_stream(&self, key: &[u8]) -> Option<&Stream> {
        match self.keys.get(key) {
            Some(Entry {
                obj: Obj::Stream(s), ..
            }) => Some(s),
            _ => None,
        }
    }

    pub fn exec(&mut self, args: &[Bytes], ctx: Ctx) -> Reply {
        if args.is_empty() {
            return Reply::err("ERR empty command");
        }
        let name = String::from_utf8_lossy(&args[0]).to_ascii_uppercase();
        let now = ctx.now_ms();
        match name.as_str() {
            "PING" => match args.len() {
                1 => Reply::Status("PONG".into()),
                2 => Reply::Bulk(args[1].clone()),
                _ => wrong_args(&name),
            },
            "ECHO" => {
                if args.len() != 2 {
                    return wrong_args(&name);
                }
                Reply::Bulk(args[1].clone())
            }
            "SELECT" => {
                if args.len() != 2 {
                    return wrong_args(&name);
                }
                if &*args[1] != b"0" {
                    self.gap("SELECT of a database other than 0");
                }
                Reply::ok()
            }
            "CLIENT" => {
                if args.len() < 2 {
                    return wrong_args(&name);
                }
                let sub = String::from_utf8_lossy(&args[1]).to_ascii_uppercase();
                match sub.as_str() {
                    "SETINFO" | "SETNAME" => Reply::ok(),
                    "ID" => Reply::Int(1),
                    "GETNAME" => Reply::Nil,
                    other => {
                        self.gap(format!("CLIENT {other}"));
                        Reply::ok()
                    }
                }
            }
            "GET" => {
                if args.len() != 2 {
                    return wrong_args(&name);
                }
                match self.live(&args[1], now) {
                    None => Reply::Nil,
                    Some(Entry {
                        obj: Obj::Str(s), ..
                    }) => Reply::Bulk(s.clone()),
                    Some(_) => Reply::err(WRONGTYPE),
                }
            }
            "SET" => self.cmd_set(args, now),
            "DEL" | "UNLINK" => {
                if args.len() < 2 {
                    return wrong_args(&name);
                }
                let mut n = 0;
                for k in &args[1..] {
                    if self.live(k, now).is_some() {
                        self.keys.remove(&**k);
                        n += 1;
                    }
                }
                Reply::Int(n)
            }
            "EXISTS" => {
                if args.len() < 2 {
                    return wrong_args(&name);
                }
                let mut n = 0;
                for k in &args[1..] {
                    if self.live(k, now).is_some() {
                        n += 1;
                    }
                }
                Reply::Int(n)
            }
            "INCR" | "INCRBY" | "DECR" | "DECRBY" => {
                let by = match name.as_str() {
                    "INCR" | "DECR" => {
                        if args.len() != 2 {
                            return wrong_args(&name);
                        }
                        if name == "INCR" { 1 } else { -1 }
                    }
                    _ => {
                        if args.len() != 3 {
                            return wrong_args(&name);
                        }
                        let Some(v) = parse_ll(&args[2]) else {
                            return Reply::err(NOT_INT);
                        };
                        if name == "INCRBY" {
                            v
                        } else {
                            match v.checked_neg() {
                                Some(n) => n,
                                None => return Reply::err("ERR decrement would overflow"),
                            }
                        }
                    }
                };
                let (cur, ttl) = match self.live(&args[1], now) {
                    None => (0i64, None),
                    Some(Entry {
                        obj: Obj::Str(s),
                        expire_at,
                    }) => match parse_ll(s) {
                        Some(v) => (v, *expire_at),
                        None => return Reply::err(NOT_INT),
                    },
                    Some(_) => return Reply::err(WRONGTYPE),
                };
                let Some(new) = cur.checked_add(by) else {
                    return Reply::err("ERR increment or decrement would overflow");
                };
                self.keys.insert(
                    args[1].to_vec(),
                    Entry {
                        obj: Obj::Str(bytes(new.to_string().as_bytes())),
                        expire_at: ttl,
                    },
                );
                Reply::Int(new)
            }
            "PEXPIRE" | "EXPIRE" => {
                if args.len() < 3 {
                    return wrong_args(&name);
                }
                if args.len() > 3 {
                    self.gap(format!("{name} with NX/XX/GT/LT option"));
                    return Reply::err("ERR Unsupported option (emulation gap)");
                }
                let Some(v) = parse_ll(&args[2]) else {
                    return Reply::err(NOT_INT);
                };
                let ms = if name == "EXPIRE" { v.saturating_mul(1000) } else { v };
                if self.live(&args[1], now).is_none() {
                    return Reply::Int(0);
                }
                if ms <= 0 {
                    self.keys.remove(&*args[1]);
                    return Reply::Int(1);
                }
                let at = now.saturating_add(ms as u64);
                if let Some(e) = self.keys.get_mut(&*args[1]) {
                    e.expire_at = Some(at);
                }
                Reply::Int(1)
            }
            "PERSIST" => {
                if args.len() != 2 {
                    return wrong_args(&name);
                }
                match self.live(&args[1], now) {
                    Some(e) if e.expire_at.is_some() => {
                        e.expire_at = None;
                        Reply::Int(1)
                    }
                    _ => Reply::Int(0),
                }
            }
            "PTTL" | "TTL" => {
                if args.len() != 2 {
                    return wrong_args(&name);
                }
                match self.live(&args[1], now) {
                    None => Reply::Int(-2),
                    Some(e) => match e.expire_at {
                        None => Reply::Int(-1),
                        Some(t) => {
                            let ms = t.saturating_sub(now) as i64;
                            if name == "PTTL" {
                                Reply::Int(ms)
                            } else {
                                Reply::Int((ms + 500) / 1000)
                            }
                        }
                    },
                }
            }
            "TIME" => {
                if args.len() != 1 {
                    return wrong_args(&name);
                }
                Reply::Array(vec![
                    Reply::bulk((ctx.now_us / 1_000_000).to_string().as_bytes()),
                    Reply::bulk((ctx.now_us % 1_000_000).to_string().as_bytes()),
                ])
            }
            "XADD" => self.cmd_xadd(args, now),
            "XLEN" => {
                if args.len() != 2 {
                    return wrong_args(&name);
                }
                match self.live(&args[1], now) {
                    None => Reply::Int(0),
                    Some(Entry {
                        obj: Obj::Stream(s), ..
                    }) => Reply::Int(s.entries.len() as i64),
                    Some(_) => Reply::err(WRONGTYPE),
                }
            }
            "XRANGE" | "XREVRANGE" => self.cmd_xrange(args, now, name == "XREVRANGE"),
            "XTRIM" => self.cmd_xtrim(args, now),
            "FLUSHALL" | "FLUSHDB" => {
                self.keys.clear();
                Reply::ok()
            }
            "SCRIPT" => {
                if ctx.in_script {
                    self.gap("SCRIPT called from a script");
                    return Reply::err("ERR This Redis command is not allowed from script");
                }
                if args.len() < 2 {
                    return wrong_args(&name);
                }
                let sub = String::from_utf8_lossy(&args[1]).to_ascii_uppercase();
                match sub.as_str() {
                    "LOAD" => {
                        if args.len() != 3 {
                            return wrong_args(&name);
                        }
                        match self.load_script(&args[2]) {
                            Ok(s) => Reply::bulk(s.sha.as_bytes()),
                            Err(r) => r,
                        }
                    }
                    "EXISTS" => Reply::Array(
                        args[2..]
                            .iter()
                            .map(|s| {
                                let k = String::from_utf8_lossy(s).to_ascii_lowercase();
                                Reply::Int(self.scripts.contains_key(&k) as i64)
                            })
                            .collect(),
                    ),
                    "FLUSH" => {
                        self.scripts.clear();
                        Reply::ok()
                    }
                    other => {
                        self.gap(format!("SCRIPT {other}"));
                        Reply::err("ERR unknown subcommand (emulation gap)")
                    }
                }
            }
            "EVAL" | "EVALSHA" => {
                if ctx.in_script {
                    self.gap("EVAL called from a script");
                    return Reply::err("ERR This Redis command is not allowed from script");
                }
                if args.len() < 3 {
                    return wrong_args(&name);
                }
                let Some(numkeys) = parse_ll(&args[2]) else {
                    return Reply::err(NOT_INT);
                };
                if numkeys < 0 {
                    return Reply::err("ERR Number of keys can't be negative");
                }
                let numkeys = numkeys as usize;
                if numkeys > args.len() - 3 {
                    return Reply::err("ERR Number of keys can't be greater than number of args");
                }
                let script = if name == "EVAL" {
                    match self.load_script(&args[1]) {
                        Ok(s) => s,
                        Err(r) => return r,
                    }
                } else {
                    let sha = String::from_utf8_lossy(&args[1]).to_ascii_lowercase();
                    match self.scripts.get(&sha) {
                        Some(s) => s.clone(),
                        None => return Reply::err("NOSCRIPT No matching script. Please use EVAL."),
                    }
                };
                let keys = &args[3..3 + numkeys];
                let argv = &args[3 + numkeys..];
                self.run_script(&script, keys, argv, ctx)
            }
            other => {
                self.gap(format!("unknown command {other}"));
                Reply::err(format!("ERR unknown command '{other}'"))
            }
        }
    }

    fn cmd_set(&mut self, args: &[Bytes], now: u64) -> Reply {
        if args.len() < 3 {
            return wrong_args("set");
        }
        let (mut nx, mut xx, mut keepttl) = (false, false, false);
        let mut expire: Option<u64> = None;
        let mut i = 3;
        while i < args.len() {
            let o = &args[i];
            if eq_ic(o, "NX") {
                nx = true;
            } else if eq_ic(o, "XX") {
                xx = true;
            } else if eq_ic(o, "KEEPTTL") {
                keepttl = true;
            } else if eq_ic(o, "PX") || eq_ic(o, "EX") {
                if expire.is_some() || i + 1 >= args.len() {
                    return Reply::err(SYNTAX);
                }
                let Some(v) = parse_ll(&args[i + 1]) else {
                    return Reply::err(NOT_INT);
                };
                if v <= 0 {
                    return Reply::err("ERR invalid expire time in 'set' command");
                }
                let ms = if eq_ic(o, "EX") { (v as u64).saturating_mul(1000) } else { v as u64 };
                expire = Some(now.saturating_add(ms));
                i += 1;
            } else if eq_ic(o, "GET") || eq_ic(o, "EXAT") || eq_ic(o, "PXAT") {
                self.gap("SET with GET/EXAT/PXAT");
                return Reply::err(SYNTAX);
            } else {
                return Reply::err(SYNTAX);
            }
            i += 1;
        }
        if (nx && xx) || (keepttl && expire.is_some()) {
            return Reply::err(SYNTAX);
        }
        let existing = self.live(&args[1], now).map(|e| e.expire_at);
        if (nx && existing.is_some()) || (xx && existing.is_none()) {
            return Reply::Nil;
        }
        let expire_at = if keepttl { existing.flatten() } else { expire };
        self.keys.insert(
            args[1].to_vec(),
            Entry {
                obj: Obj::Str(args[2].clone()),
                expire_at,
            },
        );
        Reply::ok()
    }

    fn cmd_xadd(&mut self, args: &[Bytes], now: u64) -> Reply {
        if args.len() < 5 {
            return wrong_args("xadd");
        }
        let mut i = 2;
        let mut nomkstream = false;
        let mut trim: Option<(bool, u64)> = None; // (approx, maxlen)
        loop {
            if i >= args.len() {
                return wrong_args("xadd");
            }
            let o = &args[i];
            if eq_ic(o, "NOMKSTREAM") {
                nomkstream = true;
                i += 1;
            } else if eq_ic(o, "MAXLEN") {
                let mut approx = false;
                i += 1;
                if i < args.len() && (&*args[i] == b"~" || &*args[i] == b"=") {
                    approx = &*args[i] == b"~";
                    i += 1;
                }
                if i >= args.len() {
                    return Reply::err(SYNTAX);
                }
                let Some(v) = parse_ll(&args[i]) else {
                    return Reply::err(NOT_INT);
                };
                if v < 0 {
                    return Reply::err("ERR The MAXLEN argument must be >= 0.");
                }
                trim = Some((approx, v as u64));
                i += 1;
                if i < args.len() && eq_ic(&args[i], "LIMIT") {
                    self.gap("XADD ... LIMIT");
                    return Reply::err(SYNTAX);
                }
            } else if eq_ic(o, "MINID") {
                self.gap("XADD MINID");
                return Reply::err(SYNTAX);
            } else {
                break;
            }
        }
        let id_arg = args[i].clone();
        let fields = &args[i + 1..];
        if fields.is_empty() || fields.len() % 2 != 0 {
            return wrong_args("xadd");
        }
        // resolve / create the stream
        match self.live(&args[1], now) {
            None => {
                if nomkstream {
                    return Reply::Nil;
                }
                self.keys.insert(
                    args[1].to_vec(),
                    Entry {
                        obj: Obj::Stream(Stream::default()),
                        expire_at: None,
                    },
                );
            }
            Some(Entry {
                obj: Obj::Stream(_), ..
            }) => {}
            Some(_) => return Reply::err(WRONGTYPE),
        }
        let Some(Entry {
            obj: Obj::Stream(stream),
            ..
        }) = self.keys.get_mut(&*args[1])
        else {
            unreachable!()
        };
        let last = stream.last_id;
        let id: StreamId = if &*id_arg == b"*" {
            if now > last.0 {
                (now, 0)
            } else if last.1 == u64::MAX {
                return Reply::err("ERR The stream has exhausted the last possible ID, unable to add more items");
            } else {
                (last.0, last.1 + 1)
            }
        } else {
            let Ok(txt) = std::str::from_utf8(&id_arg) else {
                return Reply::err("ERR Invalid stream ID specified as stream command argument");
            };
            let parsed: Option<StreamId> = match txt.split_once('-') {
                Some((a, "*")) => a.parse::<u64>().ok().map(|ms| {
                    if ms == last.0 {
                        (ms, last.1.saturating_add(1))
                    } else {
                        (ms, 0)
                    }
                }),
                Some((a, b)) => match (a.parse::<u64>(), b.parse::<u64>()) {
                    (Ok(ms), Ok(seq)) => Some((ms, seq)),
                    _ => None,
                },
                None => txt.parse::<u64>().ok().map(|ms| (ms, 0)),
            };
            let Some(id) = parsed else {
                return Reply::err("ERR Invalid stream ID specified as stream command argument");
            };
            if id == (0, 0) {
                return Reply::err("ERR The ID specified in XADD must be greater than 0-0");
            }
            if id <= last {
                return Reply::err(
                    "ERR The ID specified in XADD is equal or smaller than the target stream top item",
                );
            }
            id
        };
        stream.entries.push(StreamEntry {
            id,
            fields: fields.to_vec(),
        });
        stream.last_id = id;
        let len = stream.entries.len() as u64;
        if let Some((approx, maxlen)) = trim {
            if len > maxlen {
                if approx {
                    self.gap("XADD MAXLEN ~ with a stream longer than the threshold (node-granular trimming is not modelled)");
                } else {
                    let excess = (len - maxlen) as usize;
                    if let Some(Entry {
                        obj: Obj::Stream(stream),
                        ..
                    }) = self.keys.get_mut(&*args[1])
                    {
                        stream.entries.drain(0..excess);
                    }
                }
            }
        }
        self.effects.push(Effect::Xadd {
            key: args[1].to_vec(),
            id,
            fields: fields.to_vec(),
        });
        Reply::bulk(fmt_id(id).as_bytes())
    }

    fn cmd_xrange(&mut self, args: &[Bytes], now: u64, rev: bool) -> Reply {
        let cmd = if rev { "xrevrange" } else { "xrange" };
        if args.len() != 4 && args.len() != 6 {
            return if args.len() < 4 { wrong_args(cmd) } else { Reply::err(SYNTAX) };
        }
        let mut count: Option<usize> = None;
        if args.len() == 6 {
            if !eq_ic(&args[4], "COUNT") {
                return Reply::err(SYNTAX);
            }
            let Some(c) = parse_ll(&args[5]) else {
                return Reply::err(NOT_INT);
            };
            count = Some(c.max(0) as usize);
        }
        let (lo_arg, hi_arg) = if rev { (&args[3], &args[2]) } else { (&args[2], &args[3]) };
        let (Ok((mut lo, lo_ex)), Ok((mut hi, hi_ex))) =
            (parse_range_id(lo_arg, true), parse_range_id(hi_arg, false))
        else {
            return Reply::err("ERR Invalid stream ID specified as stream command argument");
        };
        if lo_ex {
            if lo == (u64::MAX, u64::MAX) {
                return Reply::err("ERR invalid start ID for the interval");
            }
            lo = if lo.1 == u64::MAX { (lo.0 + 1, 0) } else { (lo.0, lo.1 + 1) };
        }
        if hi_ex {
            if hi == (0, 0) {
                return Reply::err("ERR invalid end ID for the interval");
            }
            hi = if hi.1 == 0 { (hi.0 - 1, u64::MAX) } else { (hi.0, hi.1 - 1) };
        }
        let stream = match self.live(&args[1], now) {
            None => return Reply::Array(Vec::new()),
            Some(Entry {
                obj: Obj::Stream(s), ..
            }) => s,
            Some(_) => return Reply::err(WRONGTYPE),
        };
        if count == Some(0) {
            return Reply::Array(Vec::new());
        }
        let conv = |e: &StreamEntry| {
            Reply::Array(vec![
                Reply::bulk(fmt_id(e.id).as_bytes()),
                Reply::Array(e.fields.iter().map(|f| Reply::Bulk(f.clone())).collect()),
            ])
        };
        let in_range = stream.entries.iter().filter(|e| e.id >= lo && e.id <= hi);
        let out: Vec<Reply> = if rev {
            let v: Vec<&StreamEntry> = in_range.collect();
            v.into_iter().rev().take(count.unwrap_or(usize::MAX)).map(conv).collect()
        } else {
            in_range.take(count.unwrap_or(usize::MAX)).map(conv).collect()
        };
        Reply::Array(out)
    }

    fn cmd_xtrim(&mut self, args: &[Bytes], now: u64) -> Reply {
        if args.len() < 4 {
            return wrong_args("xtrim");
        }
        if !eq_ic(&args[2], "MAXLEN") {
            self.gap("XTRIM with a strategy other than MAXLEN");
            return Reply::err(SYNTAX);
        }
        let mut i = 3;
        let mut approx = false;
        if &*args[i] == b"~" || &*args[i] == b"=" {
            approx = &*args[i] == b"~";
            i += 1;
        }
        if i >= args.len() {
            return Reply::err(SYNTAX);
        }
        let Some(maxlen) = parse_ll(&args[i]) else {
            return Reply::err(NOT_INT);
        };
        if maxlen < 0 {
            return Reply::err("ERR The MAXLEN argument must be >= 0.");
        }
        if i + 1 != args.len() {
            self.gap("XTRIM ... LIMIT");
            return Reply::err(SYNTAX);
        }
        let mut gap = false;
        let removed = match self.live(&args[1], now) {
            None => 0,
            Some(Entry {
                obj: Obj::Stream(s), ..
            }) => {
                let len = s.entries.len();
                let maxlen = maxlen as usize;
                if len <= maxlen {
                    0
                } else if approx {
                    // Redis only drops whole radix-tree nodes here; not modelled.
                    gap = true;
                    0
                } else {
                    s.entries.drain(0..len - maxlen);
                    len - maxlen
                }
            }
            Some(_) => return Reply::err(WRONGTYPE),
        };
        if gap {
            self.gap("XTRIM MAXLEN ~ on a stream longer than the threshold (node-granular trimming is not modelled)");
        }
        Reply::Int(removed as i64)
    }

    pub fn load_script(&mut self, text: &Bytes) -> Result<Arc<CachedScript>, Reply> {
        let sha = sha1_hex(text);
        if let Some(s) = self.scripts.get(&sha) {
            return Ok(s.clone());
        }
        let effective: Bytes = self.script_patches.get(&sha).cloned().unwrap_or_else(|| text.clone());
        let chunk = lua::parse(&effective);
        if let Err(e) = &chunk {
            let (line, msg, unsupported) = match e {
                LuaError::Syntax { line, msg } => (*line, msg.clone(), false),
                LuaError::Unsupported { line, what } => (*line, what.clone(), true),
                other => (other.line(), format!("{other:?}"), true),
            };
            // every script the adapter ships compiles under real Lua; a parse failure
            // here is a limit of this emulation unless the text really is malformed
            self.gap(format!(
                "script {sha} did not compile in the emulation (line {line}: {msg}; unsupported={unsupported})"
            ));
            return Err(Reply::err(format!(
                "ERR Error compiling script (new function): user_script:{line}: {msg}"
            )));
        }
        let s = Arc::new(CachedScript {
            sha: sha.clone(),
            text: text.clone(),
            chunk,
        });
        self.scripts.insert(sha, s.clone());
        Ok(s)
    }

    pub fn run_script(&mut self, script: &Arc<CachedScript>, keys: &[Bytes], argv: &[Bytes], ctx: Ctx) -> Reply {
        let chunk = match &script.chunk {
            Ok(c) => c,
            Err(_) => return Reply::err("ERR script failed to compile"),
        };
        let result = {
            let mut host = ScriptHost {
                db: self,
                ctx: Ctx {
                    now_us: ctx.now_us,
                    in_script: true,
                },
            };
            let mut interp = Interp::new(&mut host, keys, argv);
            interp.run(chunk)
        };
        let sha = &script.sha;
        match result {
            Ok(v) => {
                let mut gaps = Vec::new();
                let r = lua_to_reply(&v, &mut gaps, 0);
                for g in gaps {
                    self.gap(g);
                }
                r
            }
            Err(LuaError::Redis { line, err }) => Reply::err(format!(
                "{} script: {sha}, on @user_script:{line}.",
                String::from_utf8_lossy(&err)
            )),
            Err(LuaError::Runtime { line, msg }) => Reply::err(format!(
                "ERR user_script:{line}: {msg} script: {sha}, on @user_script:{line}."
            )),
            Err(LuaError::Unsupported { line, what }) => {
                self.gap(format!("script {sha} line {line}: {what}"));
                Reply::err(format!("ERR emulation gap at user_script:{line}: {what}"))
            }
            Err(LuaError::Syntax { line, msg }) => {
                self.gap(format!("script {sha} line {line}: {msg}"));
                Reply::err(format!("ERR emulation gap at user_script:{line}: {msg}"))
            }
        }
    }
}

struct ScriptHost<'a> {
    db: &'a mut Db,
    ctx: Ctx,
}

impl Host for ScriptHost<'_> {
    fn call(&mut self, args: Vec<Bytes>) -> Result<Value, Vec<u8>> {
        match self.db.exec(&args, self.ctx) {
            Reply::Error(e) => Err(e.into_bytes()),
            other => Ok(reply_to_lua(&other)),
        }
    }

    fn sha1hex(&mut self, data: &[u8]) -> String {
        sha1_hex(data)
    }
}

/// RESP2 reply → Lua value (`redisProtocolToLuaType`)
pub fn reply_to_lua(r: &Reply) -> Value {
    match r {
        Reply::Status(s) => {
            let mut t = Table::default();
            t.set(Value::str(b"ok"), Value::str(s.as_bytes()));
            Value::Table(Rc::new(RefCell::new(t)))
        }
        Reply::Error(e) => lua::error_table(e.as_bytes()),
        Reply::Int(i) => Value::Num(*i as f64),
        Reply::Bulk(b) => Value::Str(b.clone()),
        Reply::Nil | Reply::NilArray => Value::Bool(false),
        Reply::Array(v) => Value::table_from(v.iter().map(reply_to_lua).collect()),
    }
}

/// Lua value → RESP2 reply (`luaReplyToRedisReply`)
pub fn lua_to_reply(v: &Value, gaps: &mut Vec<String>, depth: usize) -> Reply {
    if depth > 64 {
        gaps.push("reply nesting deeper than 64".into());
        return Reply::err("ERR reached lua stack limit");
    }
    match v {
        Value::Str(s) => Reply::Bulk(s.clone()),
        Value::Bool(true) => Reply::Int(1),
        Value::Bool(false) | Value::Nil => Reply::Nil,
        Value::Num(n) => Reply::Int(*n as i64),
        Value::Table(t) => {
            let t = t.borrow();
            if let Value::Str(e) = t.get_str("err") {
                return Reply::Error(String::from_utf8_lossy(&e).to_string());
            }
            if let Value::Str(s) = t.get_str("ok") {
                return Reply::Status(String::from_utf8_lossy(&s).to_string());
            }
            for special in ["double", "map", "set", "big_number", "verbatim_string"] {
                if !matches!(t.get_str(special), Value::Nil) {
                    gaps.push(format!("script returned a table with the RESP3 field '{special}'"));
                }
            }
            let mut out = Vec::new();
            let mut i = 1.0;
            loop {
                let item = t.get(&Value::Num(i));
                if matches!(item, Value::Nil) {
                    break;
                }
                out.push(lua_to_reply(&item, gaps, depth + 1));
                i += 1.0;
            }
            Reply::Array(out)
        }
        Value::Func(_) | Value::Builtin(_) => {
            gaps.push("script returned a function".into());
            Reply::Nil
        }
    }
}
