//! Offline oracle for C25. Input: the replicas' commit logs, the atomic dumps of all
//! fake nodes (periodic, before every data loss, final) and the per-command epoch
//! observations. The three checks are pure functions of recorded state; nothing here
//! depends on timing.

use crate::{
    server::{
        Dump,
        EpochViolation,
    },
    universe::{
        Commit,
        Via,
    },
};
use std::collections::{
    BTreeMap,
    BTreeSet,
};
use vcommon::serde_json::{
    Value as Json,
    json,
};

#[derive(Debug, Clone)]
pub struct Finding {
    pub signature: String,
    pub detail: String,
    pub height: Option<u32>,
    pub witness: Json,
}

#[derive(Debug, Default)]
pub struct Verdict {
    pub findings: Vec<Finding>,
    /// heights judged by the commit-agreement check
    pub heights_judged: u64,
    /// heights committed through the adapter by >= 2 replicas (agreement really tested)
    pub heights_cross_checked: u64,
    /// (dump, height) pairs judged by the quorum check
    pub quorum_cells_judged: u64,
    pub node_duplicate_heights: u64,
    pub undecodable_entries: u64,
    pub max_height: u32,
}

/// Why could two different blocks both be accepted at `height`? Looks for a node whose
/// stream holds two entries of that height, and whether an entry of a *lower* height
/// sits between them or after the first (the shape produced when `write_block.lua`
/// stops its newest-to-oldest scan at the first lower height).
fn diagnose(dumps: &[Dump], height: u32) -> (&'static str, Json) {
    let mut dup_plain: Option<Json> = None;
    for d in dumps {
        for n in &d.nodes {
            let pos: Vec<usize> = n
                .stream
                .iter()
                .enumerate()
                .filter(|(_, e)| e.height == Some(height))
                .map(|(i, _)| i)
                .collect();
            if pos.len() < 2 {
                continue;
            }
            let first = pos[0];
            let last = *pos.last().unwrap();
            let lower_between = n.stream[first + 1..last]
                .iter()
                .any(|e| e.height.is_some_and(|h| h < height));
            let lo = first.saturating_sub(2);
            let hi = (last + 3).min(n.stream.len());
            let slice: Vec<Json> = n.stream[lo..hi]
                .iter()
                .map(|e| json!({"id": e.id, "height": e.height, "epoch": e.epoch, "block": e.block_id}))
                .collect();
            let w = json!({"dump_t": d.t, "node": n.node, "incarnation": n.incarnation, "stream_slice_from": lo, "stream_slice": slice});
            if lower_between {
                return ("node_dup_height_after_out_of_order_append", w);
            }
            if dup_plain.is_none() {
                dup_plain = Some(w);
            }
        }
    }
    match dup_plain {
        Some(w) => ("node_dup_height", w),
        None => ("no_node_dup", Json::Null),
    }
}

pub fn judge(
    commits: &[Commit],
    dumps: &[Dump],
    epoch_violations: &[EpochViolation],
    quorum: usize,
    prefix: &str,
) -> Verdict {
    let mut v = Verdict::default();

    // ---- O1: no two replicas commit different blocks at the same height -----------
    // (gossip imports are copies of adapter-path commits and are not judged)
    let mut by_height: BTreeMap<u32, BTreeMap<String, Vec<&Commit>>> = BTreeMap::new();
    for c in commits.iter().filter(|c| c.via != Via::Gossip) {
        by_height.entry(c.height).or_default().entry(c.block_id.clone()).or_default().push(c);
        v.max_height = v.max_height.max(c.height);
    }
    let mut first_fork: Option<u32> = None;
    for (h, ids) in &by_height {
        v.heights_judged += 1;
        let replicas: BTreeSet<usize> = ids.values().flatten().map(|c| c.replica).collect();
        if replicas.len() >= 2 {
            v.heights_cross_checked += 1;
        }
        if ids.len() > 1 && first_fork.is_none() {
            first_fork = Some(*h);
        }
    }
    if let Some(h) = first_fork {
        let ids = &by_height[&h];
        let (cause, node_witness) = diagnose(dumps, h);
        let who: Vec<Json> = ids
            .iter()
            .flat_map(|(id, cs)| {
                cs.iter().map(move |c| {
                    json!({"replica": c.replica, "block": id, "via": format!("{:?}", c.via), "t": c.t, "ms": c.ms, "adapter_gen": c.adapter_gen})
                })
            })
            .collect();
        let forks = by_height.values().filter(|ids| ids.len() > 1).count();
        v.findings.push(Finding {
            signature: format!("{prefix}commit_fork cause={cause}"),
            detail: format!(
                "height {h}: replicas committed {} different block ids ({}); expected one. {} forked heights in this universe; lowest shown. Node-level diagnosis: {cause}.",
                ids.len(),
                ids.keys().cloned().collect::<Vec<_>>().join(" vs "),
                forks
            ),
            height: Some(h),
            witness: json!({"height": h, "commits": who, "node_witness": node_witness}),
        });
    }

    // ---- O2: at most one block id per height on >= quorum nodes' streams ----------
    let mut reported_o2 = false;
    for d in dumps {
        // height -> block id -> set of nodes
        let mut cells: BTreeMap<u32, BTreeMap<&str, BTreeSet<usize>>> = BTreeMap::new();
        for n in &d.nodes {
            let mut seen_heights: BTreeMap<u32, u32> = BTreeMap::new();
            for e in &n.stream {
                match (e.height, &e.block_id) {
                    (Some(h), Some(id)) => {
                        cells.entry(h).or_default().entry(id.as_str()).or_default().insert(n.node);
                        *seen_heights.entry(h).or_default() += 1;
                    }
                    _ => v.undecodable_entries += 1,
                }
            }
            if std::ptr::eq(d, dumps.last().unwrap()) {
                v.node_duplicate_heights += seen_heights.values().filter(|c| **c > 1).count() as u64;
            }
        }
        for (h, ids) in &cells {
            v.quorum_cells_judged += 1;
            let on_quorum: Vec<(&str, &BTreeSet<usize>)> = ids
                .iter()
                .filter(|(_, nodes)| nodes.len() >= quorum)
                .map(|(id, nodes)| (*id, nodes))
                .collect();
            if on_quorum.len() > 1 && !reported_o2 {
                reported_o2 = true;
                let (cause, node_witness) = diagnose(std::slice::from_ref(d), *h);
                v.findings.push(Finding {
                    signature: format!("{prefix}two_ids_on_quorum cause={cause}"),
                    detail: format!(
                        "dump t={} ({}): height {h} has {} different block ids each present on >= {quorum} of {} nodes: {:?}; expected at most one. Node-level diagnosis: {cause}.",
                        d.t,
                        d.reason,
                        on_quorum.len(),
                        d.nodes.len(),
                        on_quorum
                    ),
                    height: Some(*h),
                    witness: json!({"height": h, "dump_t": d.t, "holders": on_quorum.iter().map(|(id, n)| json!({"block": id, "nodes": n})).collect::<Vec<_>>(), "node_witness": node_witness}),
                });
            }
        }
    }

    // ---- O3: a node's fencing epoch never decreases while it keeps its data -------
    if let Some(e) = epoch_violations.first() {
        v.findings.push(Finding {
            signature: format!("{prefix}epoch_decrease cmd={}", e.command),
            detail: format!(
                "node {} (incarnation {}): epoch key went from {} to {} during a `{}` sent by replica {}; {} such events",
                e.node,
                e.incarnation,
                e.before,
                e.after,
                e.command,
                e.replica,
                epoch_violations.len()
            ),
            height: None,
            witness: json!({"node": e.node, "before": e.before, "after": e.after, "t": e.t, "command": e.command}),
        });
    }
    // the same property over the dump chain (independent of the per-command hook)
    let mut last: BTreeMap<usize, (u64, i64, u64)> = BTreeMap::new();
    let mut dump_epoch_reported = !epoch_violations.is_empty();
    for d in dumps {
        for n in &d.nodes {
            let Some(ep) = n.epoch else { continue };
            if let Some((inc, prev, t)) = last.get(&n.node) {
                if *inc == n.incarnation && ep < *prev && !dump_epoch_reported {
                    dump_epoch_reported = true;
                    v.findings.push(Finding {
                        signature: format!("{prefix}epoch_decrease cmd=between_dumps"),
                        detail: format!(
                            "node {}: epoch {} at dump t={} but {} at dump t={} without a wipe in between",
                            n.node, prev, t, ep, d.t
                        ),
                        height: None,
                        witness: json!({"node": n.node, "before": prev, "after": ep}),
                    });
                }
            }
            last.insert(n.node, (n.incarnation, ep, d.t));
        }
    }
    v
}
