//! Directed universes: the same real adapters, fake nodes, recorder and oracle as the
//! random universes, but the harness drives the replicas step by step and places
//! faults at chosen points (all of them faults from the property's fault model: one
//! delayed write, partitions, lease expiry, a data-losing restart within the budget).
//! Each scenario aims a known-dangerous interleaving at one of the safety mechanisms
//! named in the property (per-node height uniqueness, publish quorum, disruption
//! budget, repair vote counting). They assert nothing themselves: the ordinary oracle
//! judges the recorded history. A scenario whose preconditions do not materialise is
//! counted as aborted.

use crate::{
    server::{
        AcceptMode,
        LinkMode,
    },
    universe::{
        ReplicaState,
        StepOutcome,
        Universe,
        UniverseCfg,
        sleep_ms,
    },
};
use fuel_core::service::adapters::consensus_module::poa::RedisLeaderLeaseAdapter;
use std::{
    sync::Arc,
    time::{
        Duration,
        Instant,
    },
};
use vcommon::{
    rand::Rng,
    rng_for,
    serde_json::{
        Value as Json,
        json,
    },
    tag,
};

pub const SCENARIOS: &[&str] = &[
    "reorder_then_lagging_view",
    "retry_after_abandoned_publish",
    "data_loss_within_budget",
    "competing_orphans_repair",
];

pub fn scenario_cfg(seed: u64, shard: usize, name: &str) -> UniverseCfg {
    let mut rng = rng_for(seed, &[tag("scenario"), tag(name), shard as u64]);
    let (n_nodes, budget, wipeable) = match name {
        "data_loss_within_budget" => (5, 1, vec![rng.gen_range(0..5)]),
        "competing_orphans_repair" => (3, 0, vec![]),
        _ => {
            if rng.gen_range(0..2) == 0 {
                (3, 0, vec![])
            } else {
                (5, 0, vec![])
            }
        }
    };
    UniverseCfg {
        seed,
        shard,
        n_nodes,
        n_replicas: 3,
        budget,
        wipeable,
        // generous lease: expiry happens only where the scenario forces it
        lease_ttl_ms: 8_000,
        // wide enough that scheduling hiccups on a loaded machine do not look like faults
        node_timeout_ms: rng.gen_range(120..=200),
        retry_delay_ms: 10,
        retry_jitter_ms: 5,
        max_attempts: 2,
        block_time_ms: 5,
        follower_sleep_ms: 10,
        gossip_pct: 0,
        duration_ms: 20_000,
        max_ops: 10_000,
        script_patches: Vec::new(),
    }
}

struct Stage {
    u: Arc<Universe>,
    rt: tokio::runtime::Runtime,
    adapters: Vec<RedisLeaderLeaseAdapter>,
    st: Vec<ReplicaState>,
    log: Vec<Json>,
    t0: Instant,
}

fn cut_mode() -> LinkMode {
    LinkMode {
        accept: AcceptMode::Refuse,
        blackhole: true,
        ..LinkMode::default()
    }
}

fn delay_scripts(ms: u64) -> LinkMode {
    LinkMode {
        p_delay: 100,
        delay_ms: (ms, ms),
        delay_scripts_only: true,
        ..LinkMode::default()
    }
}

impl Stage {
    fn new(u: Arc<Universe>) -> Result<Stage, String> {
        let rt = crate::universe::new_replica_runtime()?;
        let mut adapters = Vec::new();
        let mut st = Vec::new();
        for r in 0..u.cfg.n_replicas {
            adapters.push(u.new_adapter(r)?);
            st.push(ReplicaState {
                r,
                next: 1,
                was_leader: false,
                adapter_gen: 0,
                crash_after_publish: false,
            });
        }
        Ok(Stage {
            u,
            rt,
            adapters,
            st,
            log: Vec::new(),
            t0: Instant::now(),
        })
    }

    fn note(&mut self, what: &str, detail: Json) {
        self.log
            .push(json!({"at_ms": self.t0.elapsed().as_millis() as u64, "step": what, "detail": detail}));
    }

    fn link(&mut self, r: usize, k: usize, m: LinkMode, kill: bool) {
        self.u.shared.links[r][k].set_mode(m);
        if kill {
            self.u.shared.links[r][k].kill_connections();
        }
    }

    fn cut(&mut self, r: usize, nodes: &[usize]) {
        for k in nodes {
            self.link(r, *k, cut_mode(), true);
        }
        self.u.shared.count("director.partitions");
        self.note("partition", json!({"replica": r, "nodes": nodes}));
    }

    fn heal(&mut self, r: usize) {
        for k in 0..self.u.cfg.n_nodes {
            self.link(r, k, LinkMode::default(), false);
        }
    }

    fn expire_all(&mut self) {
        let mut n = 0;
        for k in 0..self.u.cfg.n_nodes {
            if self.u.shared.force_expire_lock(k) {
                self.u.shared.count("director.forced_expiries");
                n += 1;
            }
        }
        self.note("force_expire_all", json!({"expired_on": n}));
    }

    fn step(&mut self, r: usize, before_publish: &mut dyn FnMut()) -> StepOutcome {
        let out = self
            .u
            .replica_step(&mut self.st[r], &mut self.adapters[r], &self.rt, before_publish);
        let txt = format!("{out:?}");
        let next = self.st[r].next;
        self.note("replica_step", json!({"replica": r, "outcome": txt.chars().take(160).collect::<String>(), "next_height": next}));
        out
    }

    /// let replica `r` produce blocks until its next height is `upto` (bounded tries)
    fn produce_until(&mut self, r: usize, upto: u32) -> bool {
        for _ in 0..(upto as usize * 4 + 20) {
            if self.st[r].next >= upto {
                return true;
            }
            match self.step(r, &mut || {}) {
                StepOutcome::Watchdog => return false,
                StepOutcome::Published(..) | StepOutcome::Reconciled(_) => {}
                _ => sleep_ms(20),
            }
        }
        self.st[r].next >= upto
    }

    fn gossip(&mut self, r: usize, upto_next: u32) {
        while self.st[r].next < upto_next {
            if self.u.gossip_import(&mut self.st[r], 1) == 0 {
                break;
            }
        }
        let next = self.st[r].next;
        self.note("gossip", json!({"replica": r, "next_height": next}));
    }

    fn counter(&self, key: &str) -> u64 {
        self.u.shared.counters.lock().unwrap_or_else(|e| e.into_inner()).get(key).copied().unwrap_or(0)
    }

    fn stream_heights(&self, k: usize) -> Vec<u32> {
        let g = self.u.shared.nodes[k].inner.lock().unwrap_or_else(|e| e.into_inner());
        match g.db.peek_stream(&self.u.shared.keys.stream) {
            None => Vec::new(),
            Some(s) => s
                .entries
                .iter()
                .filter_map(|e| {
                    e.fields
                        .chunks(2)
                        .find(|p| p.len() == 2 && &*p[0] == b"height")
                        .and_then(|p| std::str::from_utf8(&p[1]).ok()?.parse::<u32>().ok())
                })
                .collect(),
        }
    }

    fn stream_len(&self, k: usize) -> usize {
        let g = self.u.shared.nodes[k].inner.lock().unwrap_or_else(|e| e.into_inner());
        g.db.peek_stream(&self.u.shared.keys.stream).map(|s| s.entries.len()).unwrap_or(0)
    }

    /// bounded wait for a condition on the fake nodes
    fn wait_for(&mut self, what: &str, max_ms: u64, mut cond: impl FnMut(&Stage) -> bool) -> bool {
        let start = Instant::now();
        let mut ok = cond(self);
        while !ok && start.elapsed() < Duration::from_millis(max_ms) {
            sleep_ms(5);
            ok = cond(self);
        }
        self.note("wait_for", json!({"what": what, "ok": ok, "waited_ms": start.elapsed().as_millis() as u64}));
        ok
    }

    fn finish(self) -> Vec<Json> {
        let Stage { u: _, rt, adapters, log, .. } = self;
        {
            let _g = rt.enter();
            drop(adapters);
        }
        rt.shutdown_timeout(Duration::from_millis(300));
        log
    }
}

/// Roles for quorum q out of n (budget 0, n odd): one node X that receives a write out
/// of order, q-1 nodes Y that complete X's quorum, n-q nodes Z that complete the other.
fn roles(n: usize, q: usize, rng: &mut impl Rng) -> (usize, Vec<usize>, Vec<usize>) {
    let mut idx: Vec<usize> = (0..n).collect();
    for i in 0..n {
        let j = rng.gen_range(i..n);
        idx.swap(i, j);
    }
    let x = idx[0];
    let ys = idx[1..q].to_vec();
    let zs = idx[q..].to_vec();
    (x, ys, zs)
}

/// Aims at per-node height uniqueness (`write_block.lua` step 4) combined with the
/// "newest entry only" backlog test of `should_reconcile_from_stream`:
/// the leader's write of height h to node X is delayed and lands after its write of
/// h+1; then the leader is cut off, the leases expire and a replica that has the chain
/// up to h can only reach X and the nodes that missed h+1.
fn reorder_then_lagging_view(s: &mut Stage, rng: &mut impl Rng) -> bool {
    let n = s.u.cfg.n_nodes;
    let q = s.u.cfg.quorum();
    let (x, ys, zs) = roles(n, q, rng);
    let (l1, r2) = (0usize, 1usize);
    let warm = rng.gen_range(1..=4u32);
    let delay = s.u.cfg.node_timeout_ms * 3 + 120;
    s.note("roles", json!({"x": x, "ys": ys, "zs": zs, "warmup_blocks": warm, "delay_ms": delay}));
    if !s.produce_until(l1, warm + 1) {
        return false;
    }
    let h = s.st[l1].next;
    // height h: the write to X is delayed beyond the client's timeout (abandoned by
    // the client, executed late by the node)
    let u = s.u.clone();
    let before_len_x = s.stream_len(x);
    let delayed_before = s.counter("fault.delayed_request");
    let out = s.step(l1, &mut || u.shared.links[l1][x].set_mode(delay_scripts(delay)));
    if !matches!(out, StepOutcome::Published(hh, _) if hh == h) {
        return false;
    }
    // the publish returns as soon as a quorum answered: make sure X's write has
    // actually been sent (and is being held back) before the link turns fast again
    if !s.wait_for("write of h to X is in flight", 500, |st| st.counter("fault.delayed_request") > delayed_before) {
        return false;
    }
    // height h+1: X is fast again, the Z nodes are unreachable for the leader
    s.link(l1, x, LinkMode::default(), false);
    s.cut(l1, &zs);
    let out = s.step(l1, &mut || {});
    if !matches!(out, StepOutcome::Published(hh, _) if hh == h + 1) {
        return false;
    }
    // wait until the late write of height h has landed on X (after h+1)
    let _ = before_len_x;
    if !s.wait_for("late write of h lands on X after h+1", 3_000, |st| {
        let hs = st.stream_heights(x);
        match (hs.iter().position(|v| *v == h), hs.iter().position(|v| *v == h + 1)) {
            (Some(ph), Some(ph1)) => ph > ph1,
            _ => false,
        }
    }) {
        return false;
    }
    // the leader is cut off, all leases expire, replica 2 knows the chain up to h and
    // cannot reach the Y nodes
    let all: Vec<usize> = (0..n).collect();
    s.cut(l1, &all);
    s.cut(r2, &ys);
    s.gossip(r2, h + 1);
    if s.st[r2].next != h + 1 {
        return false;
    }
    s.expire_all();
    for _ in 0..6 {
        match s.step(r2, &mut || {}) {
            StepOutcome::Published(..) | StepOutcome::Reconciled(_) | StepOutcome::PublishFailed(..) => break,
            StepOutcome::Watchdog => return false,
            _ => sleep_ms(30),
        }
    }
    // heal and let the third replica catch up through the stream
    s.heal(l1);
    s.heal(r2);
    s.cut(l1, &all);
    s.expire_all();
    for _ in 0..4 {
        if matches!(s.step(2, &mut || {}), StepOutcome::Watchdog) {
            return false;
        }
    }
    true
}

/// Aims at epoch fencing and height uniqueness against a leader's own abandoned
/// attempt: every write of attempt A at height h is delayed beyond the client timeout
/// (the publish fails, the lease release that follows is swallowed by the same slow
/// links); the replica then leads again and publishes another block at h while the
/// writes of A are still in flight; finally the writes of A are executed.
fn retry_after_abandoned_publish(s: &mut Stage, rng: &mut impl Rng) -> bool {
    let n = s.u.cfg.n_nodes;
    let l1 = 0usize;
    let warm = rng.gen_range(1..=3u32);
    let delay = s.u.cfg.node_timeout_ms * 8 + 300;
    if !s.produce_until(l1, warm + 1) {
        return false;
    }
    let h = s.st[l1].next;
    let u = s.u.clone();
    let out = s.step(l1, &mut || {
        for k in 0..n {
            u.shared.links[l1][k].set_mode(delay_scripts(delay));
        }
    });
    if !matches!(out, StepOutcome::PublishFailed(hh, _) if hh == h) {
        return false;
    }
    s.heal(l1);
    // lead again and publish at h while the writes of A are still in flight
    let mut republished = false;
    for _ in 0..8 {
        match s.step(l1, &mut || {}) {
            StepOutcome::Published(hh, _) if hh == h => {
                republished = true;
                break;
            }
            StepOutcome::Watchdog => return false,
            _ => sleep_ms(10),
        }
    }
    // now the abandoned writes of A arrive
    let arrived = s.wait_for("abandoned writes executed", 5_000, |st| {
        st.u.shared.counters.lock().unwrap_or_else(|e| e.into_inner()).get("srv.late_exec.write_block").copied().unwrap_or(0)
            >= n as u64
    });
    // a second replica reconciles height h from the streams
    let all: Vec<usize> = (0..n).collect();
    s.cut(l1, &all);
    s.expire_all();
    for _ in 0..4 {
        if matches!(s.step(1, &mut || {}), StepOutcome::Watchdog) {
            return false;
        }
    }
    republished && arrived
}

/// Aims at the quorum size (`calculate_quorum`, publish/read quorum counting) under the
/// data loss the budget allows: 5 nodes, budget 1. The leader can reach only a bare
/// majority (3 nodes, one of them the node that will lose its data). With the correct
/// quorum of 4 nothing can be committed there; whatever was committed must survive the
/// restart of that node and a takeover by a replica that cannot see the other two.
fn data_loss_within_budget(s: &mut Stage, rng: &mut impl Rng) -> bool {
    let n = s.u.cfg.n_nodes;
    let w = s.u.cfg.wipeable[0];
    let others: Vec<usize> = (0..n).filter(|k| *k != w).collect();
    let (l1, r2) = (0usize, 1usize);
    let warm = rng.gen_range(1..=3u32);
    if !s.produce_until(l1, warm + 1) {
        return false;
    }
    let h = s.st[l1].next;
    // variant A: the leader reaches only a bare majority (W and two others), which is
    // below the quorum of 4; variant B: it reaches exactly the quorum (W and three
    // others), commits, and the block must survive the loss of W through repair
    let variant_a = rng.gen_range(0..2) == 0;
    let (far, near): (Vec<usize>, Vec<usize>) = if variant_a {
        (vec![others[2], others[3]], vec![others[0], others[1]])
    } else {
        (vec![others[3]], vec![others[0]])
    };
    s.note("variant", json!({"bare_majority": variant_a, "far": far, "near": near, "wipeable": w}));
    s.cut(l1, &far);
    let out = s.step(l1, &mut || {});
    s.note("publish_attempt", json!({"height": h, "outcome": format!("{out:?}").chars().take(80).collect::<String>()}));
    // W restarts without its data
    s.u.shared.dump(&format!("before wipe of node {w}"), Some(w));
    s.u.shared.count("director.wipes");
    s.note("wipe", json!({"node": w}));
    // takeover by a replica that cannot see the two nodes the old leader wrote to
    let all: Vec<usize> = (0..n).collect();
    s.cut(l1, &all);
    s.cut(r2, &near);
    s.gossip(r2, h);
    s.expire_all();
    for _ in 0..6 {
        match s.step(r2, &mut || {}) {
            StepOutcome::Published(..) | StepOutcome::Reconciled(_) => break,
            StepOutcome::Watchdog => return false,
            _ => sleep_ms(30),
        }
    }
    // everything heals; the third replica reads the streams
    s.heal(r2);
    s.cut(r2, &all);
    s.expire_all();
    for _ in 0..4 {
        if matches!(s.step(2, &mut || {}), StepOutcome::Watchdog) {
            return false;
        }
    }
    true
}

/// Aims at the vote counting of `unreconciled_blocks` / `repair_sub_quorum_block`:
/// two different orphans of height h sit on two different nodes (3 nodes, quorum 2).
/// A leader that sees both must not conclude "quorum" from HEIGHT_EXISTS answers; two
/// successive leaders with different partial views must end up with the same block.
fn competing_orphans_repair(s: &mut Stage, rng: &mut impl Rng) -> bool {
    let n = s.u.cfg.n_nodes;
    let mut idx: Vec<usize> = (0..n).collect();
    for i in 0..n {
        let j = rng.gen_range(i..n);
        idx.swap(i, j);
    }
    let (a, b, c) = (idx[0], idx[1], idx[2]);
    let all: Vec<usize> = (0..n).collect();
    let (l1, l2, l3) = (0usize, 1usize, 2usize);
    let warm = rng.gen_range(1..=3u32);
    if !s.produce_until(l1, warm + 1) {
        return false;
    }
    let h = s.st[l1].next;
    // leader 1 writes its block of height h to node A only (publish fails)
    let u = s.u.clone();
    let out = s.step(l1, &mut || {
        for k in [b, c] {
            u.shared.links[l1][k].set_mode(cut_mode());
            u.shared.links[l1][k].kill_connections();
        }
    });
    if !matches!(out, StepOutcome::PublishFailed(..)) {
        return false;
    }
    s.cut(l1, &all);
    s.expire_all();
    // leader 2 knows the chain up to h-1, cannot see A, writes its block to B only
    s.gossip(l2, h);
    s.cut(l2, &[a]);
    let u = s.u.clone();
    let mut produced = false;
    for _ in 0..6 {
        let out = s.step(l2, &mut || {
            u.shared.links[l2][c].set_mode(cut_mode());
            u.shared.links[l2][c].kill_connections();
        });
        match out {
            StepOutcome::PublishFailed(..) => {
                produced = true;
                break;
            }
            StepOutcome::Published(..) | StepOutcome::Watchdog => return false,
            _ => {
                // lease acquisition needs B and C
                s.link(l2, c, LinkMode::default(), false);
                sleep_ms(30)
            }
        }
    }
    if !produced {
        return false;
    }
    s.cut(l2, &all);
    s.expire_all();
    // leader 3 sees A and B (both orphans), not C
    s.gossip(l3, h);
    s.cut(l3, &[c]);
    for _ in 0..5 {
        match s.step(l3, &mut || {}) {
            StepOutcome::Reconciled(_) | StepOutcome::Published(..) => break,
            StepOutcome::Watchdog => return false,
            _ => sleep_ms(30),
        }
    }
    // a later leader (replica 1 again, fresh view: A and C only)
    s.cut(l3, &all);
    s.heal(l1);
    s.cut(l1, &[b]);
    s.expire_all();
    for _ in 0..5 {
        match s.step(l1, &mut || {}) {
            StepOutcome::Reconciled(_) | StepOutcome::Published(..) => break,
            StepOutcome::Watchdog => return false,
            _ => sleep_ms(30),
        }
    }
    true
}

/// Runs the named scenario on a prepared universe; returns (completed, step log).
pub fn run(u: &Arc<Universe>, name: &str) -> (bool, Vec<Json>) {
    let mut rng = rng_for(u.cfg.seed, &[tag("scenario-run"), tag(name), u.cfg.shard as u64]);
    let mut stage = match Stage::new(u.clone()) {
        Ok(s) => s,
        Err(e) => {
            u.harness_error(e);
            return (false, Vec::new());
        }
    };
    let done = match name {
        "reorder_then_lagging_view" => reorder_then_lagging_view(&mut stage, &mut rng),
        "retry_after_abandoned_publish" => retry_after_abandoned_publish(&mut stage, &mut rng),
        "data_loss_within_budget" => data_loss_within_budget(&mut stage, &mut rng),
        "competing_orphans_repair" => competing_orphans_repair(&mut stage, &mut rng),
        other => {
            u.harness_error(format!("unknown scenario {other}"));
            false
        }
    };
    u.shared.count(&format!("scenario.{name}.{}", if done { "completed" } else { "aborted" }));
    // let in-flight delayed commands settle before the final dump
    sleep_ms(150);
    (done, stage.finish())
}
