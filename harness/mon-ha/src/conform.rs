//! Conformance self-check of the Redis/Lua emulation against **hand-computed**
//! expectations (Lua 5.1 reference manual, Redis 7 command and scripting docs, and a
//! manual reading of each of the six repo scripts). Runs at every start of the monitor;
//! any mismatch makes the run inconclusive (the emulation is the trusted base).

use crate::{
    lua::{
        Bytes,
        bytes,
        fmt_g,
    },
    sha1::sha1_hex,
    store::{
        Ctx,
        Db,
        Reply,
    },
};

// Live texts of the repo's scripts: used ONLY to name the scripts the adapter sends
// (classification of evidence counters) and for the triage flags. What the fake nodes
// execute is always the text received over the wire.
pub const CHECK_LEASE_OWNER: &str =
    include_str!("/repo/crates/fuel-core/redis_leader_lease_adapter_scripts/check_lease_owner.lua");
pub const RELEASE_LOCK: &str =
    include_str!("/repo/crates/fuel-core/redis_leader_lease_adapter_scripts/release_lock.lua");
pub const PROMOTE_LEADER: &str =
    include_str!("/repo/crates/fuel-core/redis_leader_lease_adapter_scripts/promote_leader.lua");
pub const WRITE_BLOCK: &str =
    include_str!("/repo/crates/fuel-core/redis_leader_lease_adapter_scripts/write_block.lua");
pub const READ_STREAM_ENTRIES: &str =
    include_str!("/repo/crates/fuel-core/redis_leader_lease_adapter_scripts/read_stream_entries.lua");
pub const READ_LATEST_STREAM_ENTRY: &str =
    include_str!("/repo/crates/fuel-core/redis_leader_lease_adapter_scripts/read_latest_stream_entry.lua");

// Frozen reference copies (the repo snapshot the expectations below were hand-computed
// for). The conformance check judges the *emulation*, so it must not depend on what the
// repo's scripts currently say.
const REF_CHECK_LEASE_OWNER: &str = include_str!("ref_scripts/check_lease_owner.lua");
const REF_RELEASE_LOCK: &str = include_str!("ref_scripts/release_lock.lua");
const REF_PROMOTE_LEADER: &str = include_str!("ref_scripts/promote_leader.lua");
pub const REF_WRITE_BLOCK: &str = include_str!("ref_scripts/write_block.lua");
const REF_READ_STREAM_ENTRIES: &str = include_str!("ref_scripts/read_stream_entries.lua");
const REF_READ_LATEST_STREAM_ENTRY: &str = include_str!("ref_scripts/read_latest_stream_entry.lua");

pub struct T {
    pub db: Db,
    pub now_us: u64,
    pub passed: usize,
    pub failures: Vec<String>,
}

fn b(s: &str) -> Bytes {
    bytes(s.as_bytes())
}

pub fn bulk(s: &str) -> Reply {
    Reply::Bulk(b(s))
}

fn arr(v: Vec<Reply>) -> Reply {
    Reply::Array(v)
}

impl T {
    pub fn new() -> T {
        T {
            db: Db::new(),
            now_us: 1_700_000_000_000_000,
            passed: 0,
            failures: Vec::new(),
        }
    }

    pub fn advance_ms(&mut self, ms: u64) {
        self.now_us += ms * 1000;
    }

    pub fn now_ms(&self) -> u64 {
        self.now_us / 1000
    }

    pub fn cmdb(&mut self, args: Vec<Bytes>) -> Reply {
        self.db.effects.clear();
        self.db.exec(
            &args,
            Ctx {
                now_us: self.now_us,
                in_script: false,
            },
        )
    }

    pub fn cmd(&mut self, args: &[&str]) -> Reply {
        self.cmdb(args.iter().map(|s| b(s)).collect())
    }

    /// what the `redis` crate does: EVALSHA, on NOSCRIPT → SCRIPT LOAD, EVALSHA
    pub fn script(&mut self, text: &str, keys: &[&str], argv: Vec<Bytes>) -> Reply {
        let sha = sha1_hex(text.as_bytes());
        let mut cmd = vec![b("EVALSHA"), b(&sha), b(&keys.len().to_string())];
        cmd.extend(keys.iter().map(|k| b(k)));
        cmd.extend(argv);
        let first = self.cmdb(cmd.clone());
        if let Reply::Error(e) = &first {
            if e.starts_with("NOSCRIPT") {
                let loaded = self.cmdb(vec![b("SCRIPT"), b("LOAD"), b(text)]);
                if loaded != bulk(&sha) {
                    return Reply::err(format!("SCRIPT LOAD returned {loaded:?}, expected {sha}"));
                }
                return self.cmdb(cmd);
            }
        }
        first
    }

    pub fn eval(&mut self, text: &str) -> Reply {
        self.cmd(&["EVAL", text, "0"])
    }

    pub fn expect(&mut self, what: &str, got: Reply, want: Reply) {
        if got == want {
            self.passed += 1;
        } else {
            self.failures.push(format!("{what}: got {got:?}, want {want:?}"));
        }
    }

    pub fn expect_err_containing(&mut self, what: &str, got: Reply, needle: &str) {
        match &got {
            Reply::Error(e) if e.contains(needle) => self.passed += 1,
            _ => self
                .failures
                .push(format!("{what}: got {got:?}, want an error containing {needle:?}")),
        }
    }

    pub fn expect_true(&mut self, what: &str, cond: bool) {
        if cond {
            self.passed += 1;
        } else {
            self.failures.push(format!("{what}: condition false"));
        }
    }

    fn stream_heights(&self, key: &str) -> Vec<String> {
        match self.db.peek_stream(key.as_bytes()) {
            None => Vec::new(),
            Some(s) => s
                .entries
                .iter()
                .map(|e| {
                    let mut h = String::from("?");
                    for pair in e.fields.chunks(2) {
                        if &*pair[0] == b"height" {
                            h = String::from_utf8_lossy(&pair[1]).to_string();
                        }
                    }
                    h
                })
                .collect(),
        }
    }
}

fn lua_language(t: &mut T) {
    let i = Reply::Int;
    let r = t.eval("return 1+1");
    t.expect("add", r, i(2));
    let r = t.eval("return \"a\"..'b'..1");
    t.expect("concat", r, bulk("ab1"));
    let r = t.eval("return {1,2,{3,'x'}}");
    t.expect("nested table", r, arr(vec![i(1), i(2), arr(vec![i(3), bulk("x")])]));
    let r = t.eval("return {1,nil,3}");
    t.expect("array stops at nil", r, arr(vec![i(1)]));
    let r = t.eval("return 3.99");
    t.expect("number truncation", r, i(3));
    let r = t.eval("return -3.99");
    t.expect("negative truncation", r, i(-3));
    let r = t.eval("return true");
    t.expect("true -> 1", r, i(1));
    let r = t.eval("return false");
    t.expect("false -> nil", r, Reply::Nil);
    let r = t.eval("return nil");
    t.expect("nil -> nil", r, Reply::Nil);
    let r = t.eval("local x = 1");
    t.expect("no return -> nil", r, Reply::Nil);
    let r = t.eval("return redis.status_reply('FINE')");
    t.expect("status_reply", r, Reply::Status("FINE".into()));
    let r = t.eval("return {ok='X'}");
    t.expect("ok table", r, Reply::Status("X".into()));
    let r = t.eval("return redis.error_reply('MY_ERR: boo')");
    t.expect("error_reply with code", r, Reply::Error("MY_ERR: boo".into()));
    let r = t.eval("return redis.error_reply('boo')");
    t.expect("error_reply without code (Redis 7)", r, Reply::Error("ERR boo".into()));
    let r = t.eval("return {err='X y'}");
    t.expect("err table", r, Reply::Error("X y".into()));
    let r = t.eval("return tostring(10)");
    t.expect("tostring int", r, bulk("10"));
    let r = t.eval("return tostring(1e15)");
    t.expect("tostring 1e15", r, bulk("1e+15"));
    let r = t.eval("return tostring(0.1)");
    t.expect("tostring 0.1", r, bulk("0.1"));
    let r = t.eval("return tostring(2^53)");
    t.expect("tostring 2^53", r, bulk("9.007199254741e+15"));
    let r = t.eval("return tostring(-0.5)..tostring(100)..tostring(1/4)");
    t.expect("tostring misc", r, bulk("-0.51000.25"));
    let r = t.eval("return tostring(nil)..tostring(true)");
    t.expect("tostring nil/bool", r, bulk("niltrue"));
    let r = t.eval("return tonumber('12')+1");
    t.expect("tonumber", r, i(13));
    let r = t.eval("return tonumber('abc') == nil");
    t.expect("tonumber garbage", r, i(1));
    let r = t.eval("return tonumber('') == nil");
    t.expect("tonumber empty", r, i(1));
    let r = t.eval("return tonumber(' 7 ')");
    t.expect("tonumber spaces", r, i(7));
    let r = t.eval("return tonumber('0x10')");
    t.expect("tonumber hex", r, i(16));
    let r = t.eval("return tonumber('1e2')");
    t.expect("tonumber exp", r, i(100));
    let r = t.eval("return tonumber('12abc') == nil");
    t.expect("tonumber trailing garbage", r, i(1));
    let r = t.eval("return tonumber(nil) == nil");
    t.expect("tonumber nil", r, i(1));
    let r = t.eval("return tonumber(false or '0')");
    t.expect("false or '0'", r, i(0));
    let r = t.eval("return 2 < 10");
    t.expect("numeric lt", r, i(1));
    let r = t.eval("return '2' < '10'");
    t.expect("string lt is bytewise", r, Reply::Nil);
    let r = t.eval("return 1 == '1'");
    t.expect("no coercion in ==", r, Reply::Nil);
    let r = t.eval("return 'a' ~= 'a'");
    t.expect("~= on equal strings", r, Reply::Nil);
    let r = t.eval("return false ~= 'a'");
    t.expect("false ~= string", r, i(1));
    let r = t.eval("return #'abc'");
    t.expect("string length", r, i(3));
    let r = t.eval("local t = {} table.insert(t, 5) table.insert(t, 6) return #t");
    t.expect("table.insert/#", r, i(2));
    let r = t.eval("local t = {} t[#t+1] = 'a' t[#t+1] = 'b' return t");
    t.expect("append by index", r, arr(vec![bulk("a"), bulk("b")]));
    let r = t.eval("local s=0 for i=1,6,2 do s=s+i end return s");
    t.expect("numeric for with step", r, i(9));
    let r = t.eval("local s=0 for i=3,1 do s=s+1 end return s");
    t.expect("numeric for empty", r, i(0));
    let r = t.eval("local s=0 for i=3,1,-1 do s=s+i end return s");
    t.expect("numeric for negative step", r, i(6));
    let r = t.eval("local c=0 for _,v in ipairs({1,2,nil,4}) do c=c+1 end return c");
    t.expect("ipairs stops at nil", r, i(2));
    let r = t.eval("local c=0 for i,v in ipairs({'a','b'}) do c=c+i end return c");
    t.expect("ipairs indices", r, i(3));
    let r = t.eval("return not 0");
    t.expect("0 is truthy", r, Reply::Nil);
    let r = t.eval("return not nil");
    t.expect("not nil", r, i(1));
    let r = t.eval("return nil or 'd'");
    t.expect("or default", r, bulk("d"));
    let r = t.eval("return false and 1");
    t.expect("and short circuit", r, Reply::Nil);
    let r = t.eval("return 0 or 5");
    t.expect("0 or 5", r, i(0));
    let r = t.eval("return 1 < 'x'");
    t.expect_err_containing("mixed comparison", r, "attempt to compare number with string");
    let r = t.eval("return nil < 1");
    t.expect_err_containing("nil comparison", r, "attempt to compare nil with number");
    let r = t.eval("return foo");
    t.expect_err_containing("undefined global", r, "nonexistent global variable 'foo'");
    let r = t.eval("x = 1 return x");
    t.expect_err_containing("global creation", r, "attempted to create global variable 'x'");
    let r = t.eval("return 'a'..nil");
    t.expect_err_containing("concat nil", r, "attempt to concatenate a nil value");
    let r = t.eval("local t = nil return t[1]");
    t.expect_err_containing("index nil", r, "attempt to index");
    let r = t.eval("return {unpack({1,2,3})}");
    t.expect("unpack", r, arr(vec![i(1), i(2), i(3)]));
    let r = t.eval("local function f(a) return a*2 end return f(4)");
    t.expect("local function", r, i(8));
    let r = t.eval("local function f() return 1,2 end local a,b = f() return {a,b,f()}");
    t.expect("multiple returns", r, arr(vec![i(1), i(2), i(1), i(2)]));
    let r = t.eval("local function f() return 1,2 end return {f(), 9}");
    t.expect("call truncated in the middle", r, arr(vec![i(1), i(9)]));
    let r = t.eval("local function f() return 1,2 end return {(f())}");
    t.expect("parenthesised call", r, arr(vec![i(1)]));
    let r = t.eval("local n=0 while true do n=n+1 if n>=5 then break end end return n");
    t.expect("while/break", r, i(5));
    let r = t.eval("local n=0 repeat n=n+1 until n==3 return n");
    t.expect("repeat", r, i(3));
    let r = t.eval("local a=1 do local a=2 end return a");
    t.expect("block scoping", r, i(1));
    let r = t.eval("local a=1 if a==1 then a=5 elseif a==2 then a=6 else a=7 end return a");
    t.expect("if/elseif/else 1", r, i(5));
    let r = t.eval("local a=2 if a==1 then a=5 elseif a==2 then a=6 else a=7 end return a");
    t.expect("if/elseif/else 2", r, i(6));
    let r = t.eval("local a=3 if a==1 then a=5 elseif a==2 then a=6 else a=7 end return a");
    t.expect("if/elseif/else 3", r, i(7));
    let r = t.eval("-- c1\n--[[ multi\nline ]] return --[==[x]==] 4 -- tail");
    t.expect("comments", r, i(4));
    let r = t.eval("return 'a\\tb\\65\\\\'");
    t.expect("string escapes", r, bulk("a\tbA\\"));
    let r = t.eval("return [[x\ny]]");
    t.expect("long string", r, bulk("x\ny"));
    let r = t.eval("return -5 % 3");
    t.expect("lua modulo", r, i(1));
    let r = t.eval("return 2^10");
    t.expect("pow", r, i(1024));
    let r = t.eval("return 7 / 2");
    t.expect("division is float, reply truncates", r, i(3));
    let r = t.eval("return 1 .. 2 == '12'");
    t.expect(".. binds tighter than ==", r, i(1));
    let r = t.eval("return 2 * 3 + 4 < 11 and 'y' or 'n'");
    t.expect("precedence mix", r, bulk("y"));
    let r = t.eval("return -2 ^ 2");
    t.expect("unary minus below ^", r, i(-4));
    let r = t.eval("return not 1 == 2");
    t.expect("not binds tighter than ==", r, Reply::Nil);
    let r = t.eval("return 'x' .. 'y' .. 'z'");
    t.expect("concat chain", r, bulk("xyz"));
    let r = t.eval("return '10' + 5");
    t.expect("string arithmetic coercion", r, i(15));
    let r = t.eval("return type(1)..type('s')..type(nil)..type({})..type(false)..type(type)");
    t.expect("type", r, bulk("numberstringniltablebooleanfunction"));
    let r = t.eval("local t = {a=1, ['b c']=2, [10]=3} return {t.a, t['b c'], t[10], t.zz == nil}");
    t.expect("table constructor forms", r, arr(vec![i(1), i(2), i(3), i(1)]));
    let r = t.eval("local s = 'hello' return {s:sub(2,3), s:len(), string.upper(s), s:sub(-3)}");
    t.expect("string methods", r, arr(vec![bulk("el"), i(5), bulk("HELLO"), bulk("llo")]));
    let r = t.eval("return {math.floor(2.7), math.max(1,9,3), math.min(4,2)}");
    t.expect("math", r, arr(vec![i(2), i(9), i(2)]));
    let r = t.eval("return table.concat({1,'a',2}, ',')");
    t.expect("table.concat", r, bulk("1,a,2"));
    let r = t.eval("local t={1,2,3} local x=table.remove(t) return {x,#t}");
    t.expect("table.remove", r, arr(vec![i(3), i(2)]));
    let r = t.eval("return string.format('%d', 1)");
    t.expect_err_containing("unimplemented library function is flagged", r, "emulation gap");
    t.expect_true("gap recorded for unimplemented function", !t.db.gaps.is_empty());
    t.db.gaps.clear();
    // EVAL with keys/args
    let r = t.cmd(&["EVAL", "return {KEYS[1], ARGV[2], #ARGV, #KEYS}", "1", "k", "a", "b"]);
    t.expect("KEYS/ARGV", r, arr(vec![bulk("k"), bulk("b"), i(2), i(1)]));
    let r = t.cmd(&["EVAL", "return ARGV[3] == nil", "0", "a"]);
    t.expect("missing ARGV is nil", r, i(1));
    // number formatting
    t.expect_true("fmt_g %.17g int", fmt_g(12.0, 17) == "12");
    t.expect_true("fmt_g %.17g 1.5", fmt_g(1.5, 17) == "1.5");
    t.expect_true("fmt_g %.17g 0.1", fmt_g(0.1, 17) == "0.10000000000000001");
    t.expect_true("fmt_g %.14g 1e-5", fmt_g(0.00001, 14) == "1e-05");
    t.expect_true("fmt_g %.14g 1e14", fmt_g(1e14, 14) == "1e+14");
    t.expect_true("fmt_g %.14g 99999999999999", fmt_g(99999999999999.0, 14) == "99999999999999");
    t.expect_true("fmt_g %.14g 4294967295", fmt_g(4294967295.0, 14) == "4294967295");
}

fn redis_commands(t: &mut T) {
    let i = Reply::Int;
    t.expect_true(
        "sha1 test vector (redis crate's own unit test)",
        sha1_hex(b"return KEYS[1]") == "4a2267357833227dd98abdedb8cf24b15a986445",
    );
    t.expect_true("sha1 abc", sha1_hex(b"abc") == "a9993e364706816aba3e25717850c26c9cd0d89d");
    t.expect_true("sha1 empty", sha1_hex(b"") == "da39a3ee5e6b4b0d3255bfef95601890afd80709");
    let long = vec![b'a'; 1000];
    t.expect_true(
        "sha1 of 1000 x 'a'",
        sha1_hex(&long) == "291e9a6c66994949b57ba5e650361e98fc36b1ba",
    );

    let r = t.cmd(&["EVALSHA", "4a2267357833227dd98abdedb8cf24b15a986445", "1", "dummy"]);
    t.expect_err_containing("EVALSHA before load", r, "NOSCRIPT");
    let r = t.cmd(&["SCRIPT", "LOAD", "return KEYS[1]"]);
    t.expect("SCRIPT LOAD", r, bulk("4a2267357833227dd98abdedb8cf24b15a986445"));
    let r = t.cmd(&["EVALSHA", "4a2267357833227dd98abdedb8cf24b15a986445", "1", "dummy"]);
    t.expect("EVALSHA after load", r, bulk("dummy"));

    let r = t.cmd(&["GET", "nokey"]);
    t.expect("GET missing", r, Reply::Nil);
    let r = t.cmd(&["SET", "l", "tok", "PX", "100", "NX"]);
    t.expect("SET PX NX on free key", r, Reply::ok());
    let r = t.cmd(&["SET", "l", "other", "PX", "100", "NX"]);
    t.expect("SET NX on held key", r, Reply::Nil);
    let r = t.cmd(&["GET", "l"]);
    t.expect("GET held", r, bulk("tok"));
    let r = t.cmd(&["PTTL", "l"]);
    t.expect("PTTL", r, i(100));
    t.advance_ms(100);
    let r = t.cmd(&["GET", "l"]);
    t.expect("key alive at exactly its expire time", r, bulk("tok"));
    t.advance_ms(1);
    let r = t.cmd(&["GET", "l"]);
    t.expect("key gone after its expire time", r, Reply::Nil);
    let r = t.cmd(&["SET", "l", "other", "PX", "100", "NX"]);
    t.expect("SET NX after expiry", r, Reply::ok());
    let r = t.cmd(&["PEXPIRE", "nokey", "100"]);
    t.expect("PEXPIRE missing", r, i(0));
    let r = t.cmd(&["PEXPIRE", "l", "500"]);
    t.expect("PEXPIRE existing", r, i(1));
    let r = t.cmd(&["PTTL", "l"]);
    t.expect("PTTL after PEXPIRE", r, i(500));
    let r = t.cmd(&["SET", "l", "plain"]);
    t.expect("plain SET", r, Reply::ok());
    let r = t.cmd(&["PTTL", "l"]);
    t.expect("plain SET drops the TTL", r, i(-1));
    let r = t.cmd(&["DEL", "l", "nokey"]);
    t.expect("DEL counts", r, i(1));
    let r = t.cmd(&["SET", "l", "v", "PX", "0"]);
    t.expect_err_containing("SET PX 0", r, "invalid expire time");
    let r = t.cmd(&["SET", "l", "v", "BOGUS"]);
    t.expect_err_containing("SET bad option", r, "syntax error");

    let r = t.cmd(&["INCR", "e"]);
    t.expect("INCR missing", r, i(1));
    let r = t.cmd(&["INCR", "e"]);
    t.expect("INCR again", r, i(2));
    let r = t.cmd(&["GET", "e"]);
    t.expect("INCR stores decimal string", r, bulk("2"));
    let r = t.cmd(&["SET", "e", "41"]);
    t.expect("SET epoch", r, Reply::ok());
    let r = t.cmd(&["INCR", "e"]);
    t.expect("INCR after SET", r, i(42));
    let r = t.cmd(&["SET", "e", "abc"]);
    t.expect("SET garbage", r, Reply::ok());
    let r = t.cmd(&["INCR", "e"]);
    t.expect_err_containing("INCR garbage", r, "not an integer");
    let r = t.cmd(&["SET", "e", " 1"]);
    t.expect("SET spaced", r, Reply::ok());
    let r = t.cmd(&["INCR", "e"]);
    t.expect_err_containing("INCR is strict about spaces", r, "not an integer");
    let r = t.cmd(&["DEL", "e"]);
    t.expect("DEL e", r, i(1));

    // streams
    let base = t.now_ms();
    let r = t.cmd(&["XRANGE", "s", "-", "+"]);
    t.expect("XRANGE missing", r, arr(vec![]));
    let r = t.cmd(&["XLEN", "s"]);
    t.expect("XLEN missing", r, i(0));
    let r = t.cmd(&["XADD", "s", "*", "f", "1"]);
    t.expect("XADD first", r, bulk(&format!("{base}-0")));
    let r = t.cmd(&["XADD", "s", "*", "f", "2", "g", "x"]);
    t.expect("XADD same ms", r, bulk(&format!("{base}-1")));
    t.advance_ms(1);
    let r = t.cmd(&["XADD", "s", "*", "f", "3"]);
    t.expect("XADD next ms", r, bulk(&format!("{}-0", base + 1)));
    t.now_us -= 500_000; // clock steps back
    let r = t.cmd(&["XADD", "s", "*", "f", "4"]);
    t.expect("XADD with clock behind keeps ids monotone", r, bulk(&format!("{}-1", base + 1)));
    t.now_us += 500_000;
    let r = t.cmd(&["XADD", "s", "*", "f"]);
    t.expect_err_containing("XADD odd fields", r, "wrong number of arguments");
    let r = t.cmd(&["XLEN", "s"]);
    t.expect("XLEN", r, i(4));
    let e = |id: String, f: Vec<&str>| arr(vec![bulk(&id), arr(f.into_iter().map(bulk).collect())]);
    let r = t.cmd(&["XRANGE", "s", "-", "+"]);
    t.expect(
        "XRANGE all",
        r,
        arr(vec![
            e(format!("{base}-0"), vec!["f", "1"]),
            e(format!("{base}-1"), vec!["f", "2", "g", "x"]),
            e(format!("{}-0", base + 1), vec!["f", "3"]),
            e(format!("{}-1", base + 1), vec!["f", "4"]),
        ]),
    );
    let r = t.cmd(&["XREVRANGE", "s", "+", "-", "COUNT", "1"]);
    t.expect("XREVRANGE COUNT 1", r, arr(vec![e(format!("{}-1", base + 1), vec!["f", "4"])]));
    let r = t.cmd(&["XREVRANGE", "s", "+", "-"]);
    if let Reply::Array(v) = &r {
        t.expect_true("XREVRANGE order", v.len() == 4 && v[3] == e(format!("{base}-0"), vec!["f", "1"]));
    } else {
        t.expect_true("XREVRANGE returns array", false);
    }
    let r = t.cmd(&["XRANGE", "s", &format!("{base}-1"), &format!("{}", base + 1), "COUNT", "5"]);
    if let Reply::Array(v) = &r {
        t.expect_true("XRANGE bounded", v.len() == 3);
    } else {
        t.expect_true("XRANGE bounded returns array", false);
    }
    let r = t.cmd(&["GET", "s"]);
    t.expect_err_containing("GET on a stream", r, "WRONGTYPE");
    let r = t.cmd(&["XADD", "l2", "*", "a", "b"]);
    t.expect_true("XADD other key ok", matches!(r, Reply::Bulk(_)));
    let r = t.cmd(&["SET", "str", "v"]);
    t.expect("SET str", r, Reply::ok());
    let r = t.cmd(&["XADD", "str", "*", "a", "b"]);
    t.expect_err_containing("XADD on a string", r, "WRONGTYPE");
    let r = t.cmd(&["XTRIM", "s", "MAXLEN", "~", "1000"]);
    t.expect("XTRIM ~ under threshold", r, i(0));
    t.expect_true("no gap for XTRIM under threshold", t.db.gaps.is_empty());
    let r = t.cmd(&["XTRIM", "s", "MAXLEN", "3"]);
    t.expect("XTRIM exact", r, i(1));
    let r = t.cmd(&["XLEN", "s"]);
    t.expect("XLEN after trim", r, i(3));
    let r = t.cmd(&["XTRIM", "s", "MAXLEN", "~", "1"]);
    t.expect("XTRIM ~ over threshold trims nothing here", r, i(0));
    t.expect_true("gap recorded for XTRIM ~ over threshold", !t.db.gaps.is_empty());
    t.db.gaps.clear();
    let r = t.cmd(&["TIME"]);
    t.expect(
        "TIME",
        r,
        arr(vec![
            bulk(&(t.now_us / 1_000_000).to_string()),
            bulk(&(t.now_us % 1_000_000).to_string()),
        ]),
    );
    let r = t.cmd(&["FOOBAR"]);
    t.expect_err_containing("unknown command", r, "unknown command");
    t.expect_true("gap recorded for unknown command", !t.db.gaps.is_empty());
    t.db.gaps.clear();

    // scripting <-> commands
    let r = t.eval("return redis.call('GET','nokey') == false");
    t.expect("nil bulk -> false", r, i(1));
    let r = t.eval("local r = redis.call('SET','k','v') return r.ok");
    t.expect("status -> table with ok", r, bulk("OK"));
    let r = t.eval("return redis.call('SET','k','v')");
    t.expect("status round trip", r, Reply::ok());
    let r = t.eval("return redis.call('SET','k','w','NX') == false");
    t.expect("failed NX -> false", r, i(1));
    let r = t.eval("if redis.call('SET','k2','w','PX','50','NX') then return 1 else return 0 end");
    t.expect("successful NX is truthy", r, i(1));
    let r = t.eval("return redis.call('INCR','k')");
    t.expect_err_containing("redis.call raises", r, "ERR value is not an integer or out of range");
    let r = t.eval("local r = redis.pcall('INCR','k') return r.err");
    t.expect("redis.pcall returns the error table", r, bulk("ERR value is not an integer or out of range"));
    let r = t.eval("redis.call('SET','n', 12) return redis.call('GET','n')");
    t.expect("integer argument", r, bulk("12"));
    let r = t.eval("redis.call('SET','n', 1.5) return redis.call('GET','n')");
    t.expect("float argument", r, bulk("1.5"));
    let r = t.eval("return redis.call('SET','n', {})");
    t.expect_err_containing("table argument", r, "must be strings or integers");
    let r = t.eval("return redis.call('TIME')[1]");
    t.expect("TIME inside script", r, bulk(&(t.now_us / 1_000_000).to_string()));
    let r = t.eval("return redis.call('XRANGE','s','-','+')");
    if let Reply::Array(v) = &r {
        t.expect_true("stream reply survives lua round trip", v.len() == 3 && matches!(&v[0], Reply::Array(x) if x.len() == 2));
    } else {
        t.expect_true("XRANGE via lua returns array", false);
    }
    let r = t.eval("return redis.call('EVAL','return 1','0')");
    t.expect_err_containing("EVAL from script", r, "not allowed from script");
    t.db.gaps.clear();
    let bin: Bytes = bytes(&[0u8, 255, 13, 10, 0, 200]);
    let r = t.cmdb(vec![
        b("EVAL"),
        b("redis.call('SET', KEYS[1], ARGV[1]) return redis.call('GET', KEYS[1])"),
        b("1"),
        b("bin"),
        bin.clone(),
    ]);
    t.expect("binary safety", r, Reply::Bulk(bin));
    // expiry is evaluated against the script's start time
    for k in ["k", "k2", "n", "bin", "s", "l2", "str"] {
        t.cmd(&["DEL", k]);
    }
}

fn repo_scripts(t: &mut T) {
    let i = Reply::Int;
    let lock = "poa:lock";
    let epoch = "poa:lock:epoch:token";
    let stream = "poa:lock:block:stream";
    let s = |x: &str| b(x);

    // --- check_lease_owner.lua
    let r = t.script(REF_CHECK_LEASE_OWNER, &[lock], vec![s("A")]);
    t.expect("check_lease_owner: free lock", r, i(0));
    t.cmd(&["SET", lock, "A", "PX", "200"]);
    let r = t.script(REF_CHECK_LEASE_OWNER, &[lock], vec![s("A")]);
    t.expect("check_lease_owner: owner", r, i(1));
    let r = t.script(REF_CHECK_LEASE_OWNER, &[lock], vec![s("B")]);
    t.expect("check_lease_owner: other", r, i(0));
    t.advance_ms(201);
    let r = t.script(REF_CHECK_LEASE_OWNER, &[lock], vec![s("A")]);
    t.expect("check_lease_owner: expired", r, i(0));

    // --- promote_leader.lua
    let r = t.script(REF_PROMOTE_LEADER, &[lock, epoch], vec![s("A"), s("200")]);
    t.expect("promote: free lock, no epoch yet", r, i(1));
    let r = t.cmd(&["GET", lock]);
    t.expect("promote: lock owner", r, bulk("A"));
    let r = t.cmd(&["PTTL", lock]);
    t.expect("promote: lock ttl", r, i(200));
    let r = t.script(REF_PROMOTE_LEADER, &[lock, epoch], vec![s("B"), s("200")]);
    t.expect(
        "promote: held lock",
        r,
        Reply::Error("LOCK_HELD: Another leader holds the lock".into()),
    );
    let r = t.script(REF_PROMOTE_LEADER, &[lock, epoch], vec![s("A"), s("200")]);
    t.expect(
        "promote: held lock, even by the caller",
        r,
        Reply::Error("LOCK_HELD: Another leader holds the lock".into()),
    );
    let r = t.cmd(&["GET", epoch]);
    t.expect("promote: epoch untouched by failed promotions", r, bulk("1"));
    t.advance_ms(201);
    let r = t.script(REF_PROMOTE_LEADER, &[lock, epoch], vec![s("B"), s("300")]);
    t.expect("promote: after expiry", r, i(2));
    t.cmd(&["SET", epoch, "41"]);
    t.cmd(&["DEL", lock]);
    let r = t.script(REF_PROMOTE_LEADER, &[lock, epoch], vec![s("A"), s("300")]);
    t.expect("promote: epoch set by a healing write", r, i(42));

    // --- release_lock.lua
    let r = t.script(REF_RELEASE_LOCK, &[lock], vec![s("B")]);
    t.expect("release: not the owner", r, i(0));
    let r = t.cmd(&["GET", lock]);
    t.expect("release: lock kept", r, bulk("A"));
    let r = t.script(REF_RELEASE_LOCK, &[lock], vec![s("A")]);
    t.expect("release: owner", r, i(1));
    let r = t.cmd(&["GET", lock]);
    t.expect("release: lock gone", r, Reply::Nil);
    let r = t.script(REF_RELEASE_LOCK, &[lock], vec![s("A")]);
    t.expect("release: already free", r, i(0));

    // --- write_block.lua
    let data: Bytes = bytes(&[1u8, 0, 255, 7, 13, 10]);
    let wb = |t: &mut T, ep: &str, owner: &str, h: &str, ttl: &str| {
        t.script(
            REF_WRITE_BLOCK,
            &[stream, epoch, lock],
            vec![s(ep), s(owner), s(h), data.clone(), s(ttl), s("1000")],
        )
    };
    t.cmd(&["DEL", epoch]);
    let r = wb(t, "3", "A", "7", "200");
    t.expect(
        "write_block: no lock",
        r,
        Reply::Error("FENCING_ERROR: Lock lost or held by another node".into()),
    );
    t.cmd(&["SET", lock, "B", "PX", "200"]);
    let r = wb(t, "3", "A", "7", "200");
    t.expect(
        "write_block: lock held by another",
        r,
        Reply::Error("FENCING_ERROR: Lock lost or held by another node".into()),
    );
    let r = t.cmd(&["XLEN", stream]);
    t.expect("write_block: nothing written on identity failure", r, i(0));
    let r = t.cmd(&["GET", epoch]);
    t.expect("write_block: epoch untouched on identity failure", r, Reply::Nil);
    t.cmd(&["SET", lock, "A", "PX", "50"]);
    t.cmd(&["SET", epoch, "5"]);
    let r = wb(t, "3", "A", "7", "200");
    t.expect("write_block: stale token", r, Reply::Error("FENCING_ERROR: Token is stale".into()));
    let r = t.cmd(&["GET", epoch]);
    t.expect("write_block: epoch kept on stale token", r, bulk("5"));
    let r = t.cmd(&["PTTL", lock]);
    t.expect("write_block: lease not renewed on rejection", r, i(50));
    t.cmd(&["SET", epoch, "2"]);
    let before = t.now_ms();
    let r = wb(t, "3", "A", "7", "200");
    t.expect("write_block: success returns the stream id", r, bulk(&format!("{before}-0")));
    let r = t.cmd(&["GET", epoch]);
    t.expect("write_block: epoch healed up", r, bulk("3"));
    let r = t.cmd(&["PTTL", lock]);
    t.expect("write_block: lease renewed", r, i(200));
    let r = t.cmd(&["XRANGE", stream, "-", "+"]);
    t.expect(
        "write_block: entry layout",
        r,
        arr(vec![arr(vec![
            bulk(&format!("{before}-0")),
            arr(vec![
                bulk("height"),
                bulk("7"),
                bulk("data"),
                Reply::Bulk(data.clone()),
                bulk("epoch"),
                bulk("3"),
                bulk("timestamp"),
                bulk(&(t.now_us / 1_000_000).to_string()),
            ]),
        ])]),
    );
    t.cmd(&["PEXPIRE", lock, "40"]);
    t.cmd(&["SET", epoch, "1"]);
    let r = wb(t, "3", "A", "7", "200");
    t.expect(
        "write_block: same height again",
        r,
        Reply::Error("HEIGHT_EXISTS: Block at height 7 already in stream".into()),
    );
    let r = t.cmd(&["GET", epoch]);
    t.expect("write_block: epoch healing happens before the height check", r, bulk("3"));
    let r = t.cmd(&["PTTL", lock]);
    t.expect("write_block: HEIGHT_EXISTS does not renew the lease", r, i(40));
    let r = t.cmd(&["XLEN", stream]);
    t.expect("write_block: stream unchanged by HEIGHT_EXISTS", r, i(1));
    let r = wb(t, "3", "A", "9", "200");
    t.expect_true("write_block: height 9", matches!(r, Reply::Bulk(_)));
    let r = wb(t, "3", "A", "8", "200");
    t.expect_true(
        "write_block: height 8 arriving after 9 (scan passes 9, stops at 7)",
        matches!(r, Reply::Bulk(_)),
    );
    t.expect_true(
        "write_block: stream order after out-of-order arrival",
        t.stream_heights(stream) == ["7", "9", "8"],
    );
    let r = wb(t, "3", "A", "8", "200");
    t.expect(
        "write_block: 8 again is rejected (newest entry)",
        r,
        Reply::Error("HEIGHT_EXISTS: Block at height 8 already in stream".into()),
    );
    let r = wb(t, "3", "A", "7", "200");
    t.expect(
        "write_block: 7 again is rejected (scan continues over 8 and 9)",
        r,
        Reply::Error("HEIGHT_EXISTS: Block at height 7 already in stream".into()),
    );
    // by the script text: the scan runs newest → oldest and stops at the first entry
    // whose height is below the posted one; newest is 8 < 9, so the existing 9 is
    // never inspected and the write is accepted.
    let r = wb(t, "3", "A", "9", "200");
    t.expect_true(
        "write_block: 9 again is ACCEPTED when a lower height was appended after it (early scan exit, as written in the script)",
        matches!(r, Reply::Bulk(_)),
    );
    t.expect_true(
        "write_block: duplicate height present",
        t.stream_heights(stream) == ["7", "9", "8", "9"],
    );
    let r = wb(t, "4", "A", "10", "200");
    t.expect_true("write_block: higher epoch heals again", matches!(r, Reply::Bulk(_)));
    let r = t.cmd(&["GET", epoch]);
    t.expect("write_block: epoch now 4", r, bulk("4"));
    t.expect_true("no emulation gaps so far", t.db.gaps.is_empty());

    // --- read_latest_stream_entry.lua
    let r = t.script(REF_READ_LATEST_STREAM_ENTRY, &["nostream"], vec![]);
    t.expect("read_latest: missing stream", r, arr(vec![]));
    let r = t.script(REF_READ_LATEST_STREAM_ENTRY, &[stream], vec![]);
    let last_id = t
        .db
        .peek_stream(stream.as_bytes())
        .map(|s| crate::store::fmt_id(s.last_id))
        .unwrap_or_default();
    t.expect("read_latest: newest entry", r, arr(vec![bulk("10"), bulk(&last_id)]));
    t.cmd(&["XADD", "odd", "*", "foo", "bar"]);
    let r = t.script(REF_READ_LATEST_STREAM_ENTRY, &["odd"], vec![]);
    t.expect("read_latest: entry without a height field", r, arr(vec![]));
    t.cmd(&["XADD", "odd", "*", "height", "notanumber"]);
    let r = t.script(REF_READ_LATEST_STREAM_ENTRY, &["odd"], vec![]);
    t.expect("read_latest: non-numeric height", r, arr(vec![]));
    t.cmd(&["XADD", "odd", "*", "height", "0012"]);
    let r = t.script(REF_READ_LATEST_STREAM_ENTRY, &["odd"], vec![]);
    if let Reply::Array(v) = &r {
        t.expect_true("read_latest: height is normalised through tonumber/tostring", v.len() == 2 && v[0] == bulk("12"));
    } else {
        t.expect_true("read_latest returns array", false);
    }

    // --- read_stream_entries.lua
    let mut ids: Vec<String> = t
        .db
        .peek_stream(stream.as_bytes())
        .map(|s| s.entries.iter().map(|e| crate::store::fmt_id(e.id)).collect())
        .unwrap_or_default();
    t.expect_true("stream has the five expected entries", ids.len() == 5);
    ids.resize(5, String::from("missing"));
    let ent = |h: i64, ep: i64, id: &str| arr(vec![i(h), i(ep), Reply::Bulk(data.clone()), bulk(id)]);
    let r = t.script(REF_READ_STREAM_ENTRIES, &[stream], vec![s("8"), s("10")]);
    t.expect(
        "read_stream_entries: min height filter, stream order",
        r,
        arr(vec![
            ent(9, 3, &ids[1]),
            ent(8, 3, &ids[2]),
            ent(9, 3, &ids[3]),
            ent(10, 4, &ids[4]),
        ]),
    );
    let r = t.script(REF_READ_STREAM_ENTRIES, &[stream], vec![s("8"), s("1")]);
    t.expect("read_stream_entries: count", r, arr(vec![ent(9, 3, &ids[1])]));
    let r = t.script(REF_READ_STREAM_ENTRIES, &[stream], vec![s("abc"), s("10")]);
    t.expect("read_stream_entries: bad min height", r, arr(vec![]));
    let r = t.script(REF_READ_STREAM_ENTRIES, &[stream], vec![s("1"), s("0")]);
    t.expect("read_stream_entries: zero count", r, arr(vec![]));
    let r = t.script(REF_READ_STREAM_ENTRIES, &["nostream"], vec![s("1"), s("5")]);
    t.expect("read_stream_entries: missing stream", r, arr(vec![]));
    t.cmd(&["XADD", "odd2", "*", "height", "3", "data", "d"]);
    t.cmd(&["XADD", "odd2", "*", "height", "4", "epoch", "9"]);
    let odd_id = t
        .db
        .peek_stream(b"odd2")
        .and_then(|s| s.entries.first().map(|e| crate::store::fmt_id(e.id)))
        .unwrap_or_default();
    let r = t.script(REF_READ_STREAM_ENTRIES, &["odd2"], vec![s("1"), s("5")]);
    t.expect(
        "read_stream_entries: missing epoch defaults to 0, entries without data are skipped",
        r,
        arr(vec![arr(vec![i(3), i(0), bulk("d"), bulk(&odd_id)])]),
    );
    t.expect_true("no emulation gaps in the six scripts", t.db.gaps.is_empty());

    // --- the same script with the scan's early exit disabled (full scan, as printed in
    //     docs/poa/failover.md): the duplicate must be rejected
    let full_scan = REF_WRITE_BLOCK.replace("stop_scan = true", "stop_scan = false");
    t.expect_true("reference script contains the early exit", full_scan != REF_WRITE_BLOCK);
    let (stream2, epoch2, lock2) = ("fs:stream", "fs:epoch", "fs:lock");
    t.cmd(&["SET", lock2, "A", "PX", "5000"]);
    let wb2 = |t: &mut T, h: &str| {
        t.script(
            &full_scan,
            &[stream2, epoch2, lock2],
            vec![s("1"), s("A"), s(h), data.clone(), s("5000"), s("1000")],
        )
    };
    for h in ["7", "9", "8"] {
        let r = wb2(t, h);
        t.expect_true("full scan: write accepted", matches!(r, Reply::Bulk(_)));
    }
    let r = wb2(t, "9");
    t.expect(
        "full scan: 9 again is rejected although 8 was appended after it",
        r,
        Reply::Error("HEIGHT_EXISTS: Block at height 9 already in stream".into()),
    );
    t.expect_true("full scan: stream", t.stream_heights(stream2) == ["7", "9", "8"]);
}

/// Returns (checks passed, failures).
pub fn run_conformance() -> (usize, Vec<String>) {
    let mut t = T::new();
    lua_language(&mut t);
    redis_commands(&mut t);
    repo_scripts(&mut t);
    if !t.db.gaps.is_empty() {
        t.failures.push(format!("unexpected emulation gaps: {:?}", t.db.gaps));
    }
    (t.passed, t.failures)
}
