//! mon-ha — runtime monitor for C25 (replicated sequencers never commit different
//! blocks at the same height). Real `RedisLeaderLeaseAdapter`s talk over loopback TCP
//! to in-process fake Redis nodes that execute the repo's real Lua scripts, under a
//! seeded fault switchboard; an offline oracle judges the recorded history.

mod conform;
mod lua;
mod oracle;
mod resp;
mod scenario;
mod server;
mod sha1;
mod store;
mod universe;

use std::{
    sync::atomic::Ordering,
    time::{
        Duration,
        Instant,
    },
};
use universe::{
    Commit,
    UniverseCfg,
    Via,
};
use vcommon::{
    serde_json::{
        Value as Json,
        json,
    },
    *,
};

const RULE: &str = "Each shard is one universe: 3-5 fake Redis nodes (RESP2 over loopback TCP, executing the \
repo's real Lua scripts in a Lua-subset interpreter), 2-3 real RedisLeaderLeaseAdapter replicas in a loop that \
mirrors MainTask::try_to_produce_block + the importer's publish-then-commit order, and a seeded schedule of fault \
phases (per-link partitions in three styles, request/reply loss, delays beyond the client timeout = late script \
execution, resets, forced lease expiry, data-losing restarts of nodes from a fixed set of size <= budget, replica \
crash/recreate, crash between publish and commit). An evaluation is one (universe, height) judged by the \
commit-agreement check plus one per atomic dump judged by the quorum-uniqueness check; the epoch check runs on every \
command a node executes. A distinct non-trivial case is one fault phase (shape = node/replica/budget configuration + \
pattern kinds, targets and styles, without raw delays) during which at least one promote_leader or write_block \
script executed.";

const ASSUMPTIONS: &[&str] = &[
    "Redis/Lua semantics are those of this monitor's emulation (RESP2; Redis 7 scripting conversions; Lua 5.1 \
     subset), checked at every start against hand-computed expectations for the six repo scripts; constructs outside \
     the emulated subset make the run inconclusive instead of being guessed",
    "stream_max_len is set far above any reachable stream length, so XTRIM never removes entries (the only regime \
     in which `MAXLEN ~` is emulated exactly); trimming-related behaviour is not exercised",
    "data loss only ever hits a fixed set of at most `budget` nodes per universe (the strictest reading of 'no more \
     nodes than the configured disruption budget'); all node clocks run at the same rate and forced lease expiry \
     stands in for clock jumps and client pauses",
    "replicas commit without executing blocks; the harness mirrors the importer's height check only, so the lowest \
     forked height is the one reported",
    "the schedule is real-time and multi-threaded: a seed reproduces the configuration and fault schedule, not the \
     exact interleaving; the recorded history is the witness",
];

struct Outcome {
    cfg: UniverseCfg,
    verdict: oracle::Verdict,
    applied: Vec<Json>,
    shapes: Vec<String>,
    counters: std::collections::BTreeMap<String, u64>,
    gaps: Vec<String>,
    harness_errors: Vec<String>,
    commits: Vec<Commit>,
    appends: Vec<server::AppendEvent>,
    wipes: Vec<(u64, usize)>,
    dumps: Vec<server::Dump>,
    epoch_violations: Vec<server::EpochViolation>,
}

fn run_universe(cfg: UniverseCfg, server_rt: &tokio::runtime::Handle, report: &Report) -> Result<Outcome, String> {
    let setup = universe::setup(cfg.clone(), server_rt)?;
    let u = setup.universe;
    let mut handles = Vec::new();
    let (done_tx, done_rx) = std::sync::mpsc::channel::<usize>();
    for r in 0..cfg.n_replicas {
        let u2 = u.clone();
        let tx = done_tx.clone();
        handles.push(
            std::thread::Builder::new()
                .name(format!("replica-{}-{r}", cfg.shard))
                .spawn(move || {
                    if let Err(p) = catch(|| universe::replica_main(u2.clone(), r)) {
                        u2.harness_errors
                            .lock()
                            .unwrap_or_else(|e| e.into_inner())
                            .push(format!("replica {r} panicked: {p}"));
                    }
                    let _ = tx.send(r);
                })
                .map_err(|e| format!("spawn: {e}"))?,
        );
    }
    drop(done_tx);
    let log = universe::direct(&u, &setup.phases, report);
    u.stop.store(true, Ordering::SeqCst);
    // generous watchdog: its firing is inconclusive, never a verdict
    let deadline = Instant::now() + Duration::from_secs(60);
    let mut finished = 0;
    while finished < cfg.n_replicas {
        let left = deadline.saturating_duration_since(Instant::now());
        match done_rx.recv_timeout(left) {
            Ok(_) => finished += 1,
            Err(_) => {
                u.harness_errors
                    .lock()
                    .unwrap_or_else(|e| e.into_inner())
                    .push("replica threads did not stop within the watchdog".into());
                break;
            }
        }
    }
    Ok(collect(&u, cfg, log.applied, log.shapes))
}

fn collect(u: &universe::Universe, cfg: UniverseCfg, applied: Vec<Json>, shapes: Vec<String>) -> Outcome {
    u.shared.dump("final", None);
    u.shared.shutdown.send_modify(|v| *v = true);
    for row in &u.shared.links {
        for l in row {
            l.kill_connections();
        }
    }
    let commits = u.commits.lock().unwrap_or_else(|e| e.into_inner()).clone();
    let (appends, wipes, dumps, epoch_violations, gaps) = {
        let mut obs = u.shared.obs.lock().unwrap_or_else(|e| e.into_inner());
        (
            std::mem::take(&mut obs.appends),
            std::mem::take(&mut obs.wipes),
            std::mem::take(&mut obs.dumps),
            std::mem::take(&mut obs.epoch_violations),
            std::mem::take(&mut obs.gaps),
        )
    };
    let counters = u.shared.counters.lock().unwrap_or_else(|e| e.into_inner()).clone();
    let harness_errors = u.harness_errors.lock().unwrap_or_else(|e| e.into_inner()).clone();
    let verdict = oracle::judge(&commits, &dumps, &epoch_violations, cfg.quorum(), "");
    Outcome {
        cfg,
        verdict,
        applied,
        shapes,
        counters,
        gaps,
        harness_errors,
        commits,
        appends,
        wipes,
        dumps,
        epoch_violations,
    }
}

/// A directed universe: same infrastructure, recorder and oracle; the scenario drives
/// the replicas step by step.
fn run_scenario(cfg: UniverseCfg, name: &str, server_rt: &tokio::runtime::Handle) -> Result<Outcome, String> {
    let setup = universe::setup(cfg.clone(), server_rt)?;
    let u = setup.universe;
    let (done, steps) = match catch(|| scenario::run(&u, name)) {
        Ok(x) => x,
        Err(p) => {
            u.harness_error(format!("scenario {name} panicked: {p}"));
            (false, Vec::new())
        }
    };
    let shape = format!("scenario:{name}:N{}b{}:{}", cfg.n_nodes, cfg.budget, if done { "completed" } else { "aborted" });
    let mut applied = vec![json!({"scenario": name, "completed": done})];
    applied.extend(steps);
    Ok(collect(&u, cfg, applied, if done { vec![shape] } else { Vec::new() }))
}

/// Everything recorded about one height: who committed what, every stream append of
/// that height (node, writer, epoch, late?), wipes, and the fault schedule.
fn witness(o: &Outcome, height: Option<u32>) -> Json {
    let commits: Vec<Json> = o
        .commits
        .iter()
        .filter(|c| height.is_none_or(|h| c.height + 1 >= h && c.height <= h + 1))
        .take(60)
        .map(|c| json!({"t": c.t, "ms": c.ms, "replica": c.replica, "height": c.height, "block": c.block_id, "via": format!("{:?}", c.via), "adapter_gen": c.adapter_gen}))
        .collect();
    let appends: Vec<Json> = o
        .appends
        .iter()
        .filter(|a| height.is_none_or(|h| a.height.is_some_and(|x| x + 1 >= h && x <= h + 1)))
        .take(80)
        .map(|a| json!({"t": a.t, "ms": a.ms, "node": a.node, "incarnation": a.incarnation, "by_replica": a.replica, "height": a.height, "epoch": a.epoch, "block": a.block_id, "late": a.late, "during_leader_state": a.during_leader_state, "stream_pos": a.stream_pos}))
        .collect();
    json!({
        "commits_near_height": commits,
        "stream_appends_near_height": appends,
        "wipes": o.wipes,
        "fault_schedule": o.applied,
    })
}

fn report_outcome(report: &Report, args: &Args, o: &Outcome) {
    for (k, v) in &o.counters {
        report.add(k, *v);
    }
    report.evals(o.verdict.heights_judged + o.dumps.len() as u64);
    report.add("oracle.heights_judged", o.verdict.heights_judged);
    report.add("oracle.heights_committed_by_2plus_replicas", o.verdict.heights_cross_checked);
    report.add("oracle.dumps_judged", o.dumps.len() as u64);
    report.add("oracle.quorum_cells_judged", o.verdict.quorum_cells_judged);
    report.add("oracle.epoch_observations", o.counters.iter().filter(|(k, _)| k.starts_with("srv.cmd.")).map(|(_, v)| *v).sum::<u64>());
    report.add("obs.node_duplicate_heights_final", o.verdict.node_duplicate_heights);
    report.add("obs.undecodable_stream_entries", o.verdict.undecodable_entries);
    report.add("obs.stream_appends", o.appends.len() as u64);
    report.add("obs.max_height", o.verdict.max_height as u64);
    let by_via = |v: Via| o.commits.iter().filter(|c| c.via == v).count() as u64;
    report.add("commits.via_publish", by_via(Via::Publish));
    report.add("commits.via_reconcile", by_via(Via::Reconcile));
    report.add("commits.via_gossip", by_via(Via::Gossip));
    // out-of-order arrivals: an append whose height is below the previous entry's
    let mut last_h: std::collections::HashMap<(usize, u64), u32> = Default::default();
    let mut ooo = 0u64;
    for a in &o.appends {
        if let Some(h) = a.height {
            let key = (a.node, a.incarnation);
            if let Some(prev) = last_h.get(&key) {
                if h < *prev {
                    ooo += 1;
                }
            }
            last_h.insert(key, h);
        }
    }
    report.add("obs.out_of_order_height_appends", ooo);
    report.count(&format!("universe.shape.N{}R{}b{}", o.cfg.n_nodes, o.cfg.n_replicas, o.cfg.budget));
    if o.counters.get("replica.elections").copied().unwrap_or(0) > 0 {
        report.count("universe.with_election");
    }
    if o.counters.get("replica.publish.ok").copied().unwrap_or(0) > 0 {
        report.count("universe.with_publish");
    }
    for s in &o.shapes {
        report.distinct(s);
        report.count("fault.phases_with_protocol_activity");
    }
    for g in &o.gaps {
        report.inconclusive(format!("shard {}: emulation gap: {g}", o.cfg.shard));
    }
    for e in &o.harness_errors {
        report.inconclusive(format!("shard {}: harness: {e}", o.cfg.shard));
    }
    if report.wants_sample() {
        report.sample(json!({
            "config": o.cfg.to_json(),
            "first_fault_phases": o.applied.iter().take(6).collect::<Vec<_>>(),
            "commit_log_excerpt": o.commits.iter().take(8).map(|c| json!({"replica": c.replica, "height": c.height, "block": c.block_id, "via": format!("{:?}", c.via)})).collect::<Vec<_>>(),
            "max_height": o.verdict.max_height,
            "elections": o.counters.get("replica.elections"),
        }));
    }
    for f in &o.verdict.findings {
        let replay = json!({
            "seed": args.seed, "shard": o.cfg.shard, "iteration": 0,
            "scenario": o.applied.first().and_then(|a| a.get("scenario")).cloned().unwrap_or(Json::Null),
            "config": o.cfg.to_json(),
            "finding": f.witness,
            "history": witness(o, f.height),
        });
        report.violation(f.signature.clone(), f.detail.clone(), replay);
    }
}

fn write_debug_log(args: &Args, o: &Outcome) {
    // full event history under the scratch dir (deleted by the driver)
    let log = EventLog::new();
    for a in &o.applied {
        log.push("director", a.clone());
    }
    for c in &o.commits {
        log.push("commit", json!({"lt": c.t, "replica": c.replica, "height": c.height, "block": c.block_id, "via": format!("{:?}", c.via)}));
    }
    for a in &o.appends {
        log.push("append", json!({"lt": a.t, "node": a.node, "inc": a.incarnation, "replica": a.replica, "height": a.height, "epoch": a.epoch, "block": a.block_id, "late": a.late, "ls": a.during_leader_state}));
    }
    log.write_jsonl(&args.scratch.join(format!("mon-ha-shard{}.jsonl", o.cfg.shard)));
}

fn selftest(args: &Args, report: &Report, server_rt: &tokio::runtime::Handle, which: u64) {
    // a short real universe provides the recorded history that is then perturbed
    let mut cfg = universe::gen_cfg(args.seed, 0, 5_000);
    cfg.n_nodes = 3;
    cfg.budget = 0;
    cfg.wipeable.clear();
    let o = match run_universe(cfg, server_rt, report) {
        Ok(o) => o,
        Err(e) => {
            report.inconclusive(format!("selftest universe failed: {e}"));
            return;
        }
    };
    for g in &o.gaps {
        report.inconclusive(format!("emulation gap: {g}"));
    }
    let quorum = o.cfg.quorum();
    let base = oracle::judge(&o.commits, &o.dumps, &o.epoch_violations, quorum, "selftest:");
    report.add("selftest.base_findings", base.findings.len() as u64);
    let adapter_commits: Vec<&Commit> = o.commits.iter().filter(|c| c.via != Via::Gossip).collect();
    let Some(victim) = adapter_commits.first() else {
        report.inconclusive("selftest: the short universe committed nothing");
        return;
    };
    let emit = |v: oracle::Verdict, expect: &str| {
        report.eval();
        let mut hit = false;
        for f in v.findings {
            if f.signature.starts_with(expect) {
                hit = true;
            }
            report.violation(f.signature, f.detail, json!({"selftest": which, "witness": f.witness}));
        }
        if !hit {
            report.inconclusive(format!("selftest {which}: the perturbation was NOT detected (expected {expect})"));
        }
    };
    match which {
        1 => {
            // corrupt the observed value: another replica "commits" a different id
            let mut commits = o.commits.clone();
            let mut fake = (*victim).clone();
            fake.replica = (victim.replica + 1) % o.cfg.n_replicas;
            fake.block_id = "feedfacefeedfacefeed".into();
            commits.push(fake);
            emit(
                oracle::judge(&commits, &o.dumps, &o.epoch_violations, quorum, "selftest:"),
                "selftest:commit_fork",
            );
        }
        2 => {
            // a second block id appears on a quorum of nodes in the last dump
            let mut dumps = o.dumps.clone();
            let Some(last) = dumps.last_mut() else {
                report.inconclusive("selftest: no dumps");
                return;
            };
            // pick a height whose real block is on a quorum
            let mut target = None;
            'outer: for n in &last.nodes {
                for e in &n.stream {
                    if let (Some(h), Some(id)) = (e.height, &e.block_id) {
                        let holders = last
                            .nodes
                            .iter()
                            .filter(|m| m.stream.iter().any(|x| x.height == Some(h) && x.block_id.as_ref() == Some(id)))
                            .count();
                        if holders >= quorum {
                            target = Some(h);
                            break 'outer;
                        }
                    }
                }
            }
            let Some(h) = target else {
                report.inconclusive("selftest: no height on a quorum in the final dump");
                return;
            };
            for n in last.nodes.iter_mut().take(quorum) {
                n.stream.push(server::StreamItem {
                    id: "9999999999999-0".into(),
                    height: Some(h),
                    epoch: Some(1),
                    block_id: Some("deadbeefdeadbeefdead".into()),
                });
            }
            emit(
                oracle::judge(&o.commits, &dumps, &o.epoch_violations, quorum, "selftest:"),
                "selftest:two_ids_on_quorum",
            );
        }
        3 => {
            // the per-command observer reports a decrease
            let ev = vec![server::EpochViolation {
                t: 1,
                node: 0,
                incarnation: 0,
                before: 7,
                after: 3,
                command: "write_block".into(),
                replica: 0,
            }];
            emit(
                oracle::judge(&o.commits, &o.dumps, &ev, quorum, "selftest:"),
                "selftest:epoch_decrease cmd=write_block",
            );
        }
        _ => {
            // swap two observed dumps' epochs: the dump chain sees a decrease
            let mut dumps = o.dumps.clone();
            let mut done = false;
            let n_dumps = dumps.len();
            if n_dumps >= 2 {
                for node in 0..o.cfg.n_nodes {
                    let first = dumps[0].nodes[node].epoch.unwrap_or(0);
                    let last = dumps[n_dumps - 1].nodes[node].epoch.unwrap_or(0);
                    if last > first {
                        dumps[0].nodes[node].epoch = Some(last);
                        dumps[n_dumps - 1].nodes[node].epoch = Some(first);
                        done = true;
                        break;
                    }
                }
            }
            if !done {
                report.inconclusive("selftest: no node epoch grew during the short universe");
                return;
            }
            emit(
                oracle::judge(&o.commits, &dumps, &o.epoch_violations, quorum, "selftest:"),
                "selftest:epoch_decrease cmd=between_dumps",
            );
        }
    }
}

fn main() {
    let args = Args::parse();
    install_quiet_panic_hook();
    let report = Report::new(&args.property);
    if args.property != "C25" {
        report.inconclusive(format!("property {} not implemented in this monitor", args.property));
        report.finish(&args, "exploration", "", false, &[]);
        return;
    }

    // 1. the trusted base checks itself
    let (passed, failures) = conform::run_conformance();
    report.add("emu.conformance_checks_passed", passed as u64);
    report.require("emu.conformance_checks_passed", 200);
    if !failures.is_empty() {
        for f in failures.iter().take(10) {
            report.inconclusive(format!("emulation conformance check failed: {f}"));
        }
        report.finish(&args, "exploration", RULE, false, ASSUMPTIONS);
        return;
    }

    let server_rt = match tokio::runtime::Builder::new_multi_thread()
        .worker_threads(6)
        .thread_name("fake-redis")
        .enable_all()
        .build()
    {
        Ok(rt) => rt,
        Err(e) => {
            report.inconclusive(format!("cannot build the fake-redis runtime: {e}"));
            report.finish(&args, "exploration", RULE, false, ASSUMPTIONS);
            return;
        }
    };
    let handle = server_rt.handle().clone();

    if let Some(n) = args.extra.get("selftest") {
        let which = n.parse::<u64>().unwrap_or(1);
        selftest(&args, &report, &handle, which);
        report.finish(&args, "exploration", RULE, false, ASSUMPTIONS);
        server_rt.shutdown_timeout(Duration::from_millis(500));
        return;
    }

    let duration_ms: u64 = args
        .extra
        .get("duration-ms")
        .and_then(|s| s.parse().ok())
        .unwrap_or(args.by_tier(22_000, 24_000));
    let parallel: usize = args
        .extra
        .get("parallel")
        .and_then(|s| s.parse().ok())
        .unwrap_or(args.by_tier(16, 16));
    let waves: usize = args.extra.get("waves").and_then(|s| s.parse().ok()).unwrap_or(args.by_tier(1, 10));
    // triage aid only (never default): run the scripts with write_block.lua's scan
    // early-exit disabled on the server side, to see what else would fire
    let fixscan = args.extra.get("fixscan").is_some_and(|v| v == "1");
    let mut patches: Vec<(String, String)> = Vec::new();
    let mut wb = conform::WRITE_BLOCK.to_string();
    let mut pl = conform::PROMOTE_LEADER.to_string();
    if fixscan {
        report.note("TRIAGE MODE: write_block.lua is executed with `stop_scan = true` replaced by `stop_scan = false`");
        wb = wb.replace("stop_scan = true", "stop_scan = false");
    }
    // triage aid only: server-side script mutants to measure what the monitor catches
    if let Some(m) = args.extra.get("mutant") {
        report.note(format!("TRIAGE MODE: script mutant {m}"));
        let before = (wb.clone(), pl.clone());
        match m.as_str() {
            "no_height_check" => wb = wb.replace("if entry_height == posted_height then", "if false then"),
            "no_identity_check" => wb = wb.replace("if current_leader ~= ARGV[2] then", "if false then"),
            "no_fencing_check" => wb = wb.replace("if tonumber(ARGV[1]) < current_token then", "if false then"),
            "heal_always" => {
                wb = wb
                    .replace("if tonumber(ARGV[1]) < current_token then", "if false then")
                    .replace("if tonumber(ARGV[1]) > current_token then", "if true then")
            }
            "no_identity_no_fencing" => {
                wb = wb
                    .replace("if current_leader ~= ARGV[2] then", "if false then")
                    .replace("if tonumber(ARGV[1]) < current_token then", "if false then")
            }
            // the repo snapshot's write_block.lua (scan stops at the first lower height)
            "ref_early_exit" => wb = conform::REF_WRITE_BLOCK.to_string(),
            "promote_no_nx" => pl = pl.replace(", \"NX\")", ")"),
            "promote_decr" => pl = pl.replace("\"INCR\"", "\"DECR\""),
            _ => report.inconclusive(format!("unknown mutant {m}")),
        }
        if before == (wb.clone(), pl.clone()) {
            report.inconclusive(format!("mutant {m} did not change any script text"));
        }
    }
    if wb != conform::WRITE_BLOCK {
        patches.push((sha1::sha1_hex(conform::WRITE_BLOCK.as_bytes()), wb));
    }
    if pl != conform::PROMOTE_LEADER {
        patches.push((sha1::sha1_hex(conform::PROMOTE_LEADER.as_bytes()), pl));
    }

    let mut run_args = args.clone();
    run_args.threads = parallel.max(1);
    if let Some(rp) = read_replay(&args) {
        // best effort: same configuration and fault schedule, the interleaving is free
        let shard = rp.get("shard").and_then(|v| v.as_u64()).unwrap_or(0) as usize;
        let scen = rp.get("scenario").and_then(|v| v.as_str()).map(|s| s.to_string());
        let result = match scen.as_deref().and_then(|n| scenario::SCENARIOS.iter().find(|s| **s == n)) {
            Some(name) => {
                let mut cfg = scenario::scenario_cfg(args.seed, shard, name);
                cfg.script_patches = patches.clone();
                run_scenario(cfg, name, &handle)
            }
            None => {
                let mut cfg = universe::gen_cfg(args.seed, shard, duration_ms);
                cfg.script_patches = patches.clone();
                run_universe(cfg, &handle, &report)
            }
        };
        match result {
            Ok(o) => {
                write_debug_log(&args, &o);
                report_outcome(&report, &args, &o)
            }
            Err(e) => report.inconclusive(format!("replay universe failed: {e}")),
        }
        report.note("replay re-runs the recorded shard's configuration and fault schedule; the recorded history in the replay file is the witness");
        report.finish(&args, "exploration", RULE, false, ASSUMPTIONS);
        server_rt.shutdown_timeout(Duration::from_millis(500));
        return;
    }

    let n_universes = parallel * waves;
    let n_scenarios: usize = args
        .extra
        .get("scenarios")
        .and_then(|s| s.parse().ok())
        .unwrap_or(scenario::SCENARIOS.len() * args.by_tier(3, 12));
    {
        let report2 = report.clone();
        let args2 = args.clone();
        let handle2 = handle.clone();
        let patches2 = patches.clone();
        // phase 1: the directed scenarios (short), on their own so that their timing is not
        // disturbed by the random universes; an aborted scenario is retried once
        let (r2, a2, h2, p2) = (report.clone(), args.clone(), handle.clone(), patches.clone());
        run_args.threads = 12;
        run_shards(&report, &run_args, n_scenarios, move |shard, _shard_seed| {
            let name = scenario::SCENARIOS[shard % scenario::SCENARIOS.len()];
            for attempt in 0..2usize {
                let mut cfg = scenario::scenario_cfg(a2.seed, shard + attempt * 100_000, name);
                cfg.shard = shard;
                cfg.script_patches = p2.clone();
                match run_scenario(cfg, name, &h2) {
                    Ok(o) => {
                        let completed = o.applied.first().and_then(|a| a.get("completed")).and_then(|c| c.as_bool()).unwrap_or(false);
                        if !o.verdict.findings.is_empty() || a2.extra.contains_key("keep-logs") {
                            write_debug_log(&a2, &o);
                        }
                        report_outcome(&r2, &a2, &o);
                        r2.count("scenario.shards_run");
                        if completed {
                            break;
                        }
                    }
                    Err(e) => r2.inconclusive(format!("shard {shard}: scenario setup failed: {e}")),
                }
            }
        });
        // phase 2: the random universes
        run_args.threads = parallel.max(1);
        run_shards(&report, &run_args, n_universes, move |i, _shard_seed| {
            let shard = n_scenarios + i;
            let mut cfg = universe::gen_cfg(args2.seed, shard, duration_ms);
            cfg.script_patches = patches2.clone();
            match run_universe(cfg, &handle2, &report2) {
                Ok(o) => {
                    if !o.verdict.findings.is_empty() || args2.extra.contains_key("keep-logs") {
                        write_debug_log(&args2, &o);
                    }
                    report_outcome(&report2, &args2, &o);
                    report2.count("universe.completed");
                }
                Err(e) => report2.inconclusive(format!("shard {shard}: universe setup failed: {e}")),
            }
        });
    }

    // observation thresholds: a run that elected nobody, published nothing or never hit
    // a fault is inconclusive
    let scale = (n_universes as u64).div_ceil(16).max(1);
    let scen_each = (n_scenarios / scenario::SCENARIOS.len()) as u64;
    if n_universes > 0 {
        report.require("universe.completed", (n_universes as u64) * 3 / 4);
        report.require("universe.with_election", (n_universes as u64) * 3 / 4);
        report.require("replica.elections", 100 * scale);
        report.require("replica.publish.ok", 400 * scale);
        report.require("commits.via_reconcile", 150 * scale);
        report.require("oracle.heights_committed_by_2plus_replicas", 100 * scale);
        report.require("srv.promote.lock_held", 2000 * scale);
        report.require("srv.write_block.reject.lost_lease", 80 * scale);
        report.require("srv.write_block.reject.height_exists", 60 * scale);
        report.require("srv.write_block.reject.stale_token", 3 * scale);
        report.require("srv.write_block.repair_written", 50 * scale);
        report.require("srv.late_exec.write_block", 10 * scale);
        report.require("srv.write_block.late_written", 4 * scale);
        report.require("director.partitions", 100 * scale);
        report.require("director.forced_expiries", 150 * scale);
        report.require("director.wipes", 8 * scale);
        report.require("replica.crash.hard", 6 * scale);
        report.require("fault.reply_lost", 100 * scale);
        report.require("fault.phases_with_protocol_activity", 150 * scale);
        report.require("oracle.dumps_judged", 200 * scale);
    }
    if scen_each > 0 {
        // at least a third of the runs of every directed scenario must reach its end
        for name in scenario::SCENARIOS {
            report.require(&format!("scenario.{name}.completed"), scen_each.div_ceil(3));
        }
    }
    report.info(
        "parameters",
        json!({"universes": n_universes, "parallel": parallel, "waves": waves, "duration_ms": duration_ms, "fixscan": fixscan}),
    );
    report.finish(&args, "exploration", RULE, false, ASSUMPTIONS);
    server_rt.shutdown_timeout(Duration::from_millis(500));
}
