//! SHA-1 (FIPS 180-1), needed only to key the script cache the way Redis and the
//! `redis` crate do (`EVALSHA <sha1(script)>`).

pub fn sha1(data: &[u8]) -> [u8; 20] {
    let mut h: [u32; 5] = [0x67452301, 0xEFCDAB89, 0x98BADCFE, 0x10325476, 0xC3D2E1F0];
    let mut msg = data.to_vec();
    let bit_len = (data.len() as u64).wrapping_mul(8);
    msg.push(0x80);
    while msg.len() % 64 != 56 {
        msg.push(0);
    }
    msg.extend_from_slice(&bit_len.to_be_bytes());
    for chunk in msg.chunks(64) {
        let mut w = [0u32; 80];
        for i in 0..16 {
            w[i] = u32::from_be_bytes([chunk[4 * i], chunk[4 * i + 1], chunk[4 * i + 2], chunk[4 * i + 3]]);
        }
        for i in 16..80 {
            w[i] = (w[i - 3] ^ w[i - 8] ^ w[i - 14] ^ w[i - 16]).rotate_left(1);
        }
        let (mut a, mut b, mut c, mut d, mut e) = (h[0], h[1], h[2], h[3], h[4]);
        for (i, wi) in w.iter().enumerate() {
            let (f, k) = match i {
                0..=19 => ((b & c) | (!b & d), 0x5A827999u32),
                20..=39 => (b ^ c ^ d, 0x6ED9EBA1),
                40..=59 => ((b & c) | (b & d) | (c & d), 0x8F1BBCDC),
                _ => (b ^ c ^ d, 0xCA62C1D6),
            };
            let t = a
                .rotate_left(5)
                .wrapping_add(f)
                .wrapping_add(e)
                .wrapping_add(k)
                .wrapping_add(*wi);
            e = d;
            d = c;
            c = b.rotate_left(30);
            b = a;
            a = t;
        }
        h[0] = h[0].wrapping_add(a);
        h[1] = h[1].wrapping_add(b);
        h[2] = h[2].wrapping_add(c);
        h[3] = h[3].wrapping_add(d);
        h[4] = h[4].wrapping_add(e);
    }
    let mut out = [0u8; 20];
    for (i, v) in h.iter().enumerate() {
        out[4 * i..4 * i + 4].copy_from_slice(&v.to_be_bytes());
    }
    out
}

pub fn sha1_hex(data: &[u8]) -> String {
    let d = sha1(data);
    let mut s = String::with_capacity(40);
    for b in d {
        s.push_str(&format!("{b:02x}"));
    }
    s
}
