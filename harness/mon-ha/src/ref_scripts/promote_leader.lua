-- Atomically promote follower to leader and return a new fencing token.
-- KEYS[1]: leader lock key (e.g., poa:leader:lock)
-- KEYS[2]: epoch token key (e.g., poa:leader:lock:epoch:token)
-- ARGV[1]: lease owner token (UUID)
-- ARGV[2]: lease TTL in milliseconds
--
-- Returns: new epoch token on success, error if lock is held.
local acquired = redis.call("SET", KEYS[1], ARGV[1], "PX", ARGV[2], "NX")
if not acquired then
    return redis.error_reply("LOCK_HELD: Another leader holds the lock")
end

local new_token = redis.call("INCR", KEYS[2])
return new_token
