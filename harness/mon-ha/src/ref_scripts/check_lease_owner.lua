-- Check whether this node still sees us as lease owner.
-- KEYS[1]: lease key (e.g., poa:leader:lock)
-- ARGV[1]: lease owner token (UUID)
if redis.call("GET", KEYS[1]) == ARGV[1] then
    return 1
else
    return 0
end
