-- Atomically fence stale leaders, persist a block, trim stream, and renew lease.
-- KEYS[1]: block stream key (e.g., poa:leader:lock:block:stream)
-- KEYS[2]: epoch token key (e.g., poa:leader:lock:epoch:token)
-- KEYS[3]: leader lock key (e.g., poa:leader:lock)
-- ARGV[1]: my_epoch (max token observed during promotion quorum)
-- ARGV[2]: lease owner token (UUID)
-- ARGV[3]: block_height
-- ARGV[4]: block_data
-- ARGV[5]: lease_ttl_ms
-- ARGV[6]: stream_max_len
local current_token = tonumber(redis.call("GET", KEYS[2]) or "0")
local current_leader = redis.call("GET", KEYS[3])

-- 1) Identity check: only current owner may write.
if current_leader ~= ARGV[2] then
    return redis.error_reply("FENCING_ERROR: Lock lost or held by another node")
end

-- 2) Fencing check: reject stale epoch token.
if tonumber(ARGV[1]) < current_token then
    return redis.error_reply("FENCING_ERROR: Token is stale")
end

-- 3) Self-heal node epoch if our token is newer.
if tonumber(ARGV[1]) > current_token then
    redis.call("SET", KEYS[2], ARGV[1])
end

-- 4) Strict height-uniqueness check: reject if ANY entry at this height
--    already exists in the stream, regardless of epoch.
--
--    This prevents forks via the pigeonhole principle: any two quorums of
--    size ceil(N/2)+1 overlap on at least one node. If Leader A published
--    a block at height H to quorum, the overlapping node already has an
--    entry at height H. Leader B's write is rejected on that node,
--    preventing it from reaching quorum with a different block.
--
--    Sub-quorum orphans (partial writes from failed leaders) may cause
--    the new leader to fail on the orphan's node, but it can still reach
--    quorum on the remaining nodes. If the orphan blocks quorum entirely,
--    the leader must reconcile via the read path instead.
local posted_height = tonumber(ARGV[3])
local existing = redis.call("XREVRANGE", KEYS[1], "+", "-")
local stop_scan = false
for _, entry in ipairs(existing) do
    local fields = entry[2]
    for i = 1, #fields, 2 do
        if fields[i] == "height" then
            local entry_height = tonumber(fields[i + 1])
            if entry_height == posted_height then
                return redis.error_reply(
                    "HEIGHT_EXISTS: Block at height " .. ARGV[3] .. " already in stream"
                )
            end
            if entry_height ~= nil and entry_height < posted_height then
                stop_scan = true
                break
            end
        end
    end
    if stop_scan then
        break
    end
end

-- 5) Persist block entry.
local stream_id = redis.call("XADD", KEYS[1], "*",
    "height", ARGV[3],
    "data", ARGV[4],
    "epoch", ARGV[1],
    "timestamp", redis.call("TIME")[1]
)

redis.call("XTRIM", KEYS[1], "MAXLEN", "~", ARGV[6])
redis.call("PEXPIRE", KEYS[3], ARGV[5])

return stream_id
