-- Read the latest stream entry height and id.
-- KEYS[1]: block stream key (e.g., poa:leader:lock:block:stream)
--
-- Returns: {height, stream_id} or {} when no entries exist.
local entries = redis.call("XREVRANGE", KEYS[1], "+", "-", "COUNT", 1)
if #entries == 0 then
    return {}
end

local entry = entries[1]
local entry_id = entry[1]
local fields = entry[2]
local entry_height = nil

for i = 1, #fields, 2 do
    if fields[i] == "height" then
        entry_height = tonumber(fields[i + 1])
        break
    end
end

if entry_height == nil then
    return {}
end

return {tostring(entry_height), entry_id}
