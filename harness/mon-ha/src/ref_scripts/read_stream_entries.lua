-- Read stream entries at/after a minimum block height and return compact tuples for reconciliation.
-- KEYS[1]: block stream key (e.g., poa:leader:lock:block:stream)
-- ARGV[1]: minimum block height (inclusive)
-- ARGV[2]: max entries to read
--
-- Returns: array of {height, epoch, data, stream_id}
local min_height = tonumber(ARGV[1])
if min_height == nil then
    return {}
end

local count = tonumber(ARGV[2])
if count == nil or count <= 0 then
    return {}
end

local entries = redis.call("XRANGE", KEYS[1], "-", "+")
local result = {}

for _, entry in ipairs(entries) do
    local entry_id = entry[1]
    local fields = entry[2]
    local entry_height = nil
    local entry_data = nil
    local entry_epoch = nil

    for i = 1, #fields, 2 do
        if fields[i] == "height" then
            entry_height = tonumber(fields[i + 1])
        elseif fields[i] == "data" then
            entry_data = fields[i + 1]
        elseif fields[i] == "epoch" then
            entry_epoch = tonumber(fields[i + 1])
        end
    end

    if entry_height ~= nil and entry_data ~= nil and entry_height >= min_height then
        table.insert(result, {entry_height, entry_epoch or 0, entry_data, entry_id})
        if #result >= count then
            break
        end
    end
end

return result
