-- Release lease if we are still the owner (graceful shutdown / stepdown).
-- KEYS[1]: lease key
-- ARGV[1]: lease owner token (UUID)
if redis.call("GET", KEYS[1]) == ARGV[1] then
    return redis.call("DEL", KEYS[1])
else
    return 0
end
