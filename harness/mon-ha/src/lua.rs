//! A small Lua 5.1 subset interpreter, sufficient to run the leader-lease scripts
//! of fuel-core (`crates/fuel-core/redis_leader_lease_adapter_scripts/*.lua`) exactly
//! as they arrive over the wire.
//!
//! Design rules:
//! * strings are byte strings (block payloads are binary);
//! * numbers are IEEE doubles (Lua 5.1), formatted with `%.14g` by `tostring`/`..`;
//! * anything outside the implemented subset raises `LuaError::Unsupported`, which the
//!   fake server turns into an error reply **and** an "emulation gap" flag that makes
//!   the whole run inconclusive — the interpreter never guesses;
//! * like Redis, reading an undefined global or creating a global is an error.

use std::{
    cell::RefCell,
    collections::HashMap,
    rc::Rc,
    sync::Arc,
};

pub type Bytes = Arc<[u8]>;

pub fn bytes(s: &[u8]) -> Bytes {
    Arc::from(s)
}

// ---------------------------------------------------------------------------
// errors
// ---------------------------------------------------------------------------

#[derive(Debug, Clone)]
pub enum LuaError {
    /// ordinary Lua runtime error (`attempt to compare nil with number`, `error(..)`)
    Runtime { line: u32, msg: String },
    /// an error reply raised by `redis.call`
    Redis { line: u32, err: Vec<u8> },
    /// construct outside the implemented subset
    Unsupported { line: u32, what: String },
    /// lexer/parser error
    Syntax { line: u32, msg: String },
}

impl LuaError {
    pub fn line(&self) -> u32 {
        match self {
            LuaError::Runtime { line, .. }
            | LuaError::Redis { line, .. }
            | LuaError::Unsupported { line, .. }
            | LuaError::Syntax { line, .. } => *line,
        }
    }
}

type R<T> = Result<T, LuaError>;

// ---------------------------------------------------------------------------
// lexer
// ---------------------------------------------------------------------------

#[derive(Debug, Clone, PartialEq)]
enum Tok {
    Name(String),
    Num(f64),
    Str(Vec<u8>),
    Kw(&'static str),
    Sym(&'static str),
    Eof,
}

const KEYWORDS: &[&str] = &[
    "and", "break", "do", "else", "elseif", "end", "false", "for", "function", "if", "in",
    "local", "nil", "not", "or", "repeat", "return", "then", "true", "until", "while",
];

const SYMBOLS: &[&str] = &[
    "...", "..", "==", "~=", "<=", ">=", "+", "-", "*", "/", "%", "^", "#", "<", ">", "=", "(",
    ")", "{", "}", "[", "]", ";", ":", ",", ".",
];

struct Lexer<'a> {
    src: &'a [u8],
    pos: usize,
    line: u32,
}

impl<'a> Lexer<'a> {
    fn new(src: &'a [u8]) -> Self {
        Lexer { src, pos: 0, line: 1 }
    }

    fn peek(&self, off: usize) -> Option<u8> {
        self.src.get(self.pos + off).copied()
    }

    fn err<T>(&self, msg: impl Into<String>) -> R<T> {
        Err(LuaError::Syntax {
            line: self.line,
            msg: msg.into(),
        })
    }

    /// if at `[` `=`* `[`, returns the level
    fn long_bracket_level(&self) -> Option<usize> {
        if self.peek(0) != Some(b'[') {
            return None;
        }
        let mut i = 1;
        while self.peek(i) == Some(b'=') {
            i += 1;
        }
        if self.peek(i) == Some(b'[') {
            Some(i - 1)
        } else {
            None
        }
    }

    fn read_long_string(&mut self, level: usize) -> R<Vec<u8>> {
        // skip opening bracket
        self.pos += level + 2;
        // a first newline is skipped
        if self.peek(0) == Some(b'\r') {
            self.pos += 1;
            if self.peek(0) == Some(b'\n') {
                self.pos += 1;
            }
            self.line += 1;
        } else if self.peek(0) == Some(b'\n') {
            self.pos += 1;
            self.line += 1;
        }
        let mut out = Vec::new();
        loop {
            match self.peek(0) {
                None => return self.err("unfinished long string"),
                Some(b']') => {
                    let mut i = 1;
                    while self.peek(i) == Some(b'=') {
                        i += 1;
                    }
                    if i - 1 == level && self.peek(i) == Some(b']') {
                        self.pos += i + 1;
                        return Ok(out);
                    }
                    out.push(b']');
                    self.pos += 1;
                }
                Some(c) => {
                    if c == b'\n' {
                        self.line += 1;
                    }
                    out.push(c);
                    self.pos += 1;
                }
            }
        }
    }

    fn skip_ws_and_comments(&mut self) -> R<()> {
        loop {
            match self.peek(0) {
                Some(b'\n') => {
                    self.line += 1;
                    self.pos += 1;
                }
                Some(b' ') | Some(b'\t') | Some(b'\r') => self.pos += 1,
                Some(b'-') if self.peek(1) == Some(b'-') => {
                    self.pos += 2;
                    if let Some(level) = self.long_bracket_level() {
                        self.read_long_string(level)?;
                    } else {
                        while let Some(c) = self.peek(0) {
                            if c == b'\n' {
                                break;
                            }
                            self.pos += 1;
                        }
                    }
                }
                _ => return Ok(()),
            }
        }
    }

    fn next(&mut self) -> R<(Tok, u32)> {
        self.skip_ws_and_comments()?;
        let line = self.line;
        let Some(c) = self.peek(0) else {
            return Ok((Tok::Eof, line));
        };
        if c.is_ascii_alphabetic() || c == b'_' {
            let start = self.pos;
            while let Some(c) = self.peek(0) {
                if c.is_ascii_alphanumeric() || c == b'_' {
                    self.pos += 1;
                } else {
                    break;
                }
            }
            let s = std::str::from_utf8(&self.src[start..self.pos]).unwrap().to_string();
            if let Some(kw) = KEYWORDS.iter().find(|k| **k == s) {
                return Ok((Tok::Kw(*kw), line));
            }
            return Ok((Tok::Name(s), line));
        }
        if c.is_ascii_digit() || (c == b'.' && self.peek(1).is_some_and(|d| d.is_ascii_digit())) {
            let start = self.pos;
            if c == b'0' && matches!(self.peek(1), Some(b'x') | Some(b'X')) {
                self.pos += 2;
                let hs = self.pos;
                while self.peek(0).is_some_and(|d| d.is_ascii_hexdigit()) {
                    self.pos += 1;
                }
                let txt = std::str::from_utf8(&self.src[hs..self.pos]).unwrap();
                return match u64::from_str_radix(txt, 16) {
                    Ok(v) => Ok((Tok::Num(v as f64), line)),
                    Err(_) => self.err("malformed hex number"),
                };
            }
            while self.peek(0).is_some_and(|d| d.is_ascii_digit() || d == b'.') {
                self.pos += 1;
            }
            if matches!(self.peek(0), Some(b'e') | Some(b'E')) {
                self.pos += 1;
                if matches!(self.peek(0), Some(b'+') | Some(b'-')) {
                    self.pos += 1;
                }
                while self.peek(0).is_some_and(|d| d.is_ascii_digit()) {
                    self.pos += 1;
                }
            }
            let txt = std::str::from_utf8(&self.src[start..self.pos]).unwrap();
            return match txt.parse::<f64>() {
                Ok(v) => Ok((Tok::Num(v), line)),
                Err(_) => self.err(format!("malformed number near '{txt}'")),
            };
        }
        if c == b'"' || c == b'\'' {
            let quote = c;
            self.pos += 1;
            let mut out = Vec::new();
            loop {
                let Some(c) = self.peek(0) else {
                    return self.err("unfinished string");
                };
                self.pos += 1;
                if c == quote {
                    break;
                }
                if c == b'\n' {
                    return self.err("unfinished string");
                }
                if c == b'\\' {
                    let Some(e) = self.peek(0) else {
                        return self.err("unfinished string");
                    };
                    self.pos += 1;
                    match e {
                        b'n' => out.push(b'\n'),
                        b't' => out.push(b'\t'),
                        b'r' => out.push(b'\r'),
                        b'a' => out.push(7),
                        b'b' => out.push(8),
                        b'f' => out.push(12),
                        b'v' => out.push(11),
                        b'\\' => out.push(b'\\'),
                        b'"' => out.push(b'"'),
                        b'\'' => out.push(b'\''),
                        b'\n' => {
                            self.line += 1;
                            out.push(b'\n')
                        }
                        d if d.is_ascii_digit() => {
                            let mut v = (d - b'0') as u32;
                            for _ in 0..2 {
                                if let Some(d2) = self.peek(0) {
                                    if d2.is_ascii_digit() {
                                        v = v * 10 + (d2 - b'0') as u32;
                                        self.pos += 1;
                                    } else {
                                        break;
                                    }
                                }
                            }
                            if v > 255 {
                                return self.err("escape sequence too large");
                            }
                            out.push(v as u8);
                        }
                        other => {
                            // Lua 5.1 keeps the character for unknown escapes
                            out.push(other)
                        }
                    }
                } else {
                    out.push(c);
                }
            }
            return Ok((Tok::Str(out), line));
        }
        if let Some(level) = self.long_bracket_level() {
            let s = self.read_long_string(level)?;
            return Ok((Tok::Str(s), line));
        }
        for sym in SYMBOLS {
            if self.src[self.pos..].starts_with(sym.as_bytes()) {
                self.pos += sym.len();
                return Ok((Tok::Sym(*sym), line));
            }
        }
        self.err(format!("unexpected symbol near '{}'", c as char))
    }
}

// ---------------------------------------------------------------------------
// AST
// ---------------------------------------------------------------------------

#[derive(Debug, Clone, Copy, PartialEq)]
pub enum BinOp {
    Or,
    And,
    Lt,
    Gt,
    Le,
    Ge,
    Ne,
    Eq,
    Concat,
    Add,
    Sub,
    Mul,
    Div,
    Mod,
    Pow,
}

#[derive(Debug, Clone, Copy, PartialEq)]
pub enum UnOp {
    Not,
    Neg,
    Len,
}

#[derive(Debug)]
pub enum Expr {
    Nil,
    True,
    False,
    Num(f64),
    Str(Bytes),
    Name(String, u32),
    Index(Box<Expr>, Box<Expr>, u32),
    Call(Box<Expr>, Vec<Expr>, u32),
    Method(Box<Expr>, String, Vec<Expr>, u32),
    Func(Arc<FuncDef>),
    Bin(BinOp, Box<Expr>, Box<Expr>, u32),
    Un(UnOp, Box<Expr>, u32),
    Table(Vec<TableItem>, u32),
    Paren(Box<Expr>),
    Vararg(u32),
}

#[derive(Debug)]
pub enum TableItem {
    Pos(Expr),
    Named(Expr, Expr),
}

#[derive(Debug)]
pub struct FuncDef {
    params: Vec<String>,
    body: Vec<Stmt>,
}

#[derive(Debug)]
pub enum Stmt {
    Local(Vec<String>, Vec<Expr>, u32),
    Assign(Vec<Expr>, Vec<Expr>, u32),
    Call(Expr, u32),
    Do(Vec<Stmt>),
    While(Expr, Vec<Stmt>, u32),
    Repeat(Vec<Stmt>, Expr, u32),
    If(Vec<(Expr, Vec<Stmt>)>, Option<Vec<Stmt>>, u32),
    NumFor(String, Expr, Expr, Option<Expr>, Vec<Stmt>, u32),
    GenFor(Vec<String>, Vec<Expr>, Vec<Stmt>, u32),
    LocalFunc(String, Arc<FuncDef>, u32),
    Return(Vec<Expr>, u32),
    Break(u32),
}

/// A parsed script (immutable, shareable between threads).
#[derive(Debug)]
pub struct Chunk {
    body: Vec<Stmt>,
}

// ---------------------------------------------------------------------------
// parser
// ---------------------------------------------------------------------------

struct Parser {
    toks: Vec<(Tok, u32)>,
    pos: usize,
}

impl Parser {
    fn peek(&self) -> &Tok {
        &self.toks[self.pos].0
    }

    fn line(&self) -> u32 {
        self.toks[self.pos].1
    }

    fn advance(&mut self) -> Tok {
        let t = self.toks[self.pos].0.clone();
        if self.pos + 1 < self.toks.len() {
            self.pos += 1;
        }
        t
    }

    fn err<T>(&self, msg: impl Into<String>) -> R<T> {
        Err(LuaError::Syntax {
            line: self.line(),
            msg: msg.into(),
        })
    }

    fn check_sym(&self, s: &str) -> bool {
        matches!(self.peek(), Tok::Sym(x) if *x == s)
    }

    fn check_kw(&self, s: &str) -> bool {
        matches!(self.peek(), Tok::Kw(x) if *x == s)
    }

    fn accept_sym(&mut self, s: &str) -> bool {
        if self.check_sym(s) {
            self.advance();
            true
        } else {
            false
        }
    }

    fn accept_kw(&mut self, s: &str) -> bool {
        if self.check_kw(s) {
            self.advance();
            true
        } else {
            false
        }
    }

    fn expect_sym(&mut self, s: &str) -> R<()> {
        if self.accept_sym(s) {
            Ok(())
        } else {
            self.err(format!("'{s}' expected near {:?}", self.peek()))
        }
    }

    fn expect_kw(&mut self, s: &str) -> R<()> {
        if self.accept_kw(s) {
            Ok(())
        } else {
            self.err(format!("'{s}' expected near {:?}", self.peek()))
        }
    }

    fn expect_name(&mut self) -> R<String> {
        match self.advance() {
            Tok::Name(n) => Ok(n),
            other => self.err(format!("<name> expected near {other:?}")),
        }
    }

    fn block_end(&self) -> bool {
        matches!(self.peek(), Tok::Eof)
            || self.check_kw("end")
            || self.check_kw("else")
            || self.check_kw("elseif")
            || self.check_kw("until")
    }

    fn block(&mut self) -> R<Vec<Stmt>> {
        let mut out = Vec::new();
        while !self.block_end() {
            if self.check_kw("return") {
                let line = self.line();
                self.advance();
                let mut exprs = Vec::new();
                if !self.block_end() && !self.check_sym(";") {
                    exprs = self.exprlist()?;
                }
                self.accept_sym(";");
                out.push(Stmt::Return(exprs, line));
                if !self.block_end() {
                    return self.err("'return' must be the last statement of a block");
                }
                break;
            }
            if self.check_kw("break") {
                let line = self.line();
                self.advance();
                self.accept_sym(";");
                out.push(Stmt::Break(line));
                if !self.block_end() {
                    return self.err("'break' must be the last statement of a block");
                }
                break;
            }
            let s = self.statement()?;
            out.push(s);
            self.accept_sym(";");
        }
        Ok(out)
    }

    fn statement(&mut self) -> R<Stmt> {
        let line = self.line();
        if self.accept_kw("if") {
            let mut arms = Vec::new();
            let cond = self.expr()?;
            self.expect_kw("then")?;
            let body = self.block()?;
            arms.push((cond, body));
            let mut else_body = None;
            loop {
                if self.accept_kw("elseif") {
                    let c = self.expr()?;
                    self.expect_kw("then")?;
                    let b = self.block()?;
                    arms.push((c, b));
                } else if self.accept_kw("else") {
                    else_body = Some(self.block()?);
                    self.expect_kw("end")?;
                    break;
                } else {
                    self.expect_kw("end")?;
                    break;
                }
            }
            return Ok(Stmt::If(arms, else_body, line));
        }
        if self.accept_kw("while") {
            let c = self.expr()?;
            self.expect_kw("do")?;
            let b = self.block()?;
            self.expect_kw("end")?;
            return Ok(Stmt::While(c, b, line));
        }
        if self.accept_kw("do") {
            let b = self.block()?;
            self.expect_kw("end")?;
            return Ok(Stmt::Do(b));
        }
        if self.accept_kw("repeat") {
            let b = self.block()?;
            self.expect_kw("until")?;
            let c = self.expr()?;
            return Ok(Stmt::Repeat(b, c, line));
        }
        if self.accept_kw("for") {
            let n1 = self.expect_name()?;
            if self.accept_sym("=") {
                let a = self.expr()?;
                self.expect_sym(",")?;
                let b = self.expr()?;
                let step = if self.accept_sym(",") {
                    Some(self.expr()?)
                } else {
                    None
                };
                self.expect_kw("do")?;
                let body = self.block()?;
                self.expect_kw("end")?;
                return Ok(Stmt::NumFor(n1, a, b, step, body, line));
            }
            let mut names = vec![n1];
            while self.accept_sym(",") {
                names.push(self.expect_name()?);
            }
            self.expect_kw("in")?;
            let exprs = self.exprlist()?;
            self.expect_kw("do")?;
            let body = self.block()?;
            self.expect_kw("end")?;
            return Ok(Stmt::GenFor(names, exprs, body, line));
        }
        if self.accept_kw("function") {
            return Err(LuaError::Unsupported {
                line,
                what: "global function definition".into(),
            });
        }
        if self.accept_kw("local") {
            if self.accept_kw("function") {
                let name = self.expect_name()?;
                let f = self.funcbody()?;
                return Ok(Stmt::LocalFunc(name, Arc::new(f), line));
            }
            let mut names = vec![self.expect_name()?];
            while self.accept_sym(",") {
                names.push(self.expect_name()?);
            }
            let exprs = if self.accept_sym("=") {
                self.exprlist()?
            } else {
                Vec::new()
            };
            return Ok(Stmt::Local(names, exprs, line));
        }
        // exprstat: call or assignment
        let e = self.suffixedexp()?;
        if self.check_sym("=") || self.check_sym(",") {
            let mut targets = vec![e];
            while self.accept_sym(",") {
                targets.push(self.suffixedexp()?);
            }
            self.expect_sym("=")?;
            let exprs = self.exprlist()?;
            for t in &targets {
                if !matches!(t, Expr::Name(..) | Expr::Index(..)) {
                    return self.err("syntax error: cannot assign to this expression");
                }
            }
            return Ok(Stmt::Assign(targets, exprs, line));
        }
        match e {
            Expr::Call(..) | Expr::Method(..) => Ok(Stmt::Call(e, line)),
            _ => self.err("syntax error: expression is not a statement"),
        }
    }

    fn funcbody(&mut self) -> R<FuncDef> {
        self.expect_sym("(")?;
        let mut params = Vec::new();
        if !self.check_sym(")") {
            loop {
                if self.check_sym("...") {
                    return Err(LuaError::Unsupported {
                        line: self.line(),
                        what: "vararg function".into(),
                    });
                }
                params.push(self.expect_name()?);
                if !self.accept_sym(",") {
                    break;
                }
            }
        }
        self.expect_sym(")")?;
        let body = self.block()?;
        self.expect_kw("end")?;
        Ok(FuncDef { params, body })
    }

    fn exprlist(&mut self) -> R<Vec<Expr>> {
        let mut v = vec![self.expr()?];
        while self.accept_sym(",") {
            v.push(self.expr()?);
        }
        Ok(v)
    }

    fn primaryexp(&mut self) -> R<Expr> {
        let line = self.line();
        match self.advance() {
            Tok::Name(n) => Ok(Expr::Name(n, line)),
            Tok::Sym("(") => {
                let e = self.expr()?;
                self.expect_sym(")")?;
                Ok(Expr::Paren(Box::new(e)))
            }
            other => self.err(format!("unexpected symbol near {other:?}")),
        }
    }

    fn suffixedexp(&mut self) -> R<Expr> {
        let mut e = self.primaryexp()?;
        loop {
            let line = self.line();
            if self.accept_sym(".") {
                let n = self.expect_name()?;
                e = Expr::Index(Box::new(e), Box::new(Expr::Str(bytes(n.as_bytes()))), line);
            } else if self.accept_sym("[") {
                let k = self.expr()?;
                self.expect_sym("]")?;
                e = Expr::Index(Box::new(e), Box::new(k), line);
            } else if self.accept_sym(":") {
                let n = self.expect_name()?;
                let args = self.callargs()?;
                e = Expr::Method(Box::new(e), n, args, line);
            } else if self.check_sym("(") || self.check_sym("{") || matches!(self.peek(), Tok::Str(_)) {
                let args = self.callargs()?;
                e = Expr::Call(Box::new(e), args, line);
            } else {
                return Ok(e);
            }
        }
    }

    fn callargs(&mut self) -> R<Vec<Expr>> {
        if let Tok::Str(s) = self.peek().clone() {
            self.advance();
            return Ok(vec![Expr::Str(bytes(&s))]);
        }
        if self.check_sym("{") {
            return Ok(vec![self.tablecons()?]);
        }
        self.expect_sym("(")?;
        if self.accept_sym(")") {
            return Ok(Vec::new());
        }
        let args = self.exprlist()?;
        self.expect_sym(")")?;
        Ok(args)
    }

    fn tablecons(&mut self) -> R<Expr> {
        let line = self.line();
        self.expect_sym("{")?;
        let mut items = Vec::new();
        while !self.check_sym("}") {
            if self.check_sym("[") {
                self.advance();
                let k = self.expr()?;
                self.expect_sym("]")?;
                self.expect_sym("=")?;
                let v = self.expr()?;
                items.push(TableItem::Named(k, v));
            } else if matches!(self.peek(), Tok::Name(_))
                && matches!(self.toks.get(self.pos + 1), Some((Tok::Sym("="), _)))
            {
                let n = self.expect_name()?;
                self.expect_sym("=")?;
                let v = self.expr()?;
                items.push(TableItem::Named(Expr::Str(bytes(n.as_bytes())), v));
            } else {
                items.push(TableItem::Pos(self.expr()?));
            }
            if !self.accept_sym(",") && !self.accept_sym(";") {
                break;
            }
        }
        self.expect_sym("}")?;
        Ok(Expr::Table(items, line))
    }

    fn simpleexp(&mut self) -> R<Expr> {
        let line = self.line();
        match self.peek().clone() {
            Tok::Num(n) => {
                self.advance();
                Ok(Expr::Num(n))
            }
            Tok::Str(s) => {
                self.advance();
                Ok(Expr::Str(bytes(&s)))
            }
            Tok::Kw("nil") => {
                self.advance();
                Ok(Expr::Nil)
            }
            Tok::Kw("true") => {
                self.advance();
                Ok(Expr::True)
            }
            Tok::Kw("false") => {
                self.advance();
                Ok(Expr::False)
            }
            Tok::Sym("...") => {
                self.advance();
                Ok(Expr::Vararg(line))
            }
            Tok::Sym("{") => self.tablecons(),
            Tok::Kw("function") => {
                self.advance();
                let f = self.funcbody()?;
                Ok(Expr::Func(Arc::new(f)))
            }
            _ => self.suffixedexp(),
        }
    }

    fn binop(&self) -> Option<(BinOp, u8, u8)> {
        // (op, left priority, right priority) as in lparser.c
        let t = self.peek();
        Some(match t {
            Tok::Kw("or") => (BinOp::Or, 1, 1),
            Tok::Kw("and") => (BinOp::And, 2, 2),
            Tok::Sym("<") => (BinOp::Lt, 3, 3),
            Tok::Sym(">") => (BinOp::Gt, 3, 3),
            Tok::Sym("<=") => (BinOp::Le, 3, 3),
            Tok::Sym(">=") => (BinOp::Ge, 3, 3),
            Tok::Sym("~=") => (BinOp::Ne, 3, 3),
            Tok::Sym("==") => (BinOp::Eq, 3, 3),
            Tok::Sym("..") => (BinOp::Concat, 5, 4),
            Tok::Sym("+") => (BinOp::Add, 6, 6),
            Tok::Sym("-") => (BinOp::Sub, 6, 6),
            Tok::Sym("*") => (BinOp::Mul, 7, 7),
            Tok::Sym("/") => (BinOp::Div, 7, 7),
            Tok::Sym("%") => (BinOp::Mod, 7, 7),
            Tok::Sym("^") => (BinOp::Pow, 10, 9),
            _ => return None,
        })
    }

    fn subexpr(&mut self, limit: u8) -> R<Expr> {
        const UNARY_PRIORITY: u8 = 8;
        let line = self.line();
        let mut left = if self.accept_kw("not") {
            Expr::Un(UnOp::Not, Box::new(self.subexpr(UNARY_PRIORITY)?), line)
        } else if self.accept_sym("-") {
            Expr::Un(UnOp::Neg, Box::new(self.subexpr(UNARY_PRIORITY)?), line)
        } else if self.accept_sym("#") {
            Expr::Un(UnOp::Len, Box::new(self.subexpr(UNARY_PRIORITY)?), line)
        } else {
            self.simpleexp()?
        };
        while let Some((op, lp, rp)) = self.binop() {
            if lp <= limit {
                break;
            }
            let line = self.line();
            self.advance();
            let right = self.subexpr(rp)?;
            left = Expr::Bin(op, Box::new(left), Box::new(right), line);
        }
        Ok(left)
    }

    fn expr(&mut self) -> R<Expr> {
        self.subexpr(0)
    }
}

pub fn parse(src: &[u8]) -> R<Chunk> {
    let mut lx = Lexer::new(src);
    let mut toks = Vec::new();
    loop {
        let (t, line) = lx.next()?;
        let eof = t == Tok::Eof;
        toks.push((t, line));
        if eof {
            break;
        }
    }
    let mut p = Parser { toks, pos: 0 };
    let body = p.block()?;
    if !matches!(p.peek(), Tok::Eof) {
        return p.err(format!("'<eof>' expected near {:?}", p.peek()));
    }
    Ok(Chunk { body })
}

// ---------------------------------------------------------------------------
// values
// ---------------------------------------------------------------------------

#[derive(Clone)]
pub enum Value {
    Nil,
    Bool(bool),
    Num(f64),
    Str(Bytes),
    Table(Rc<RefCell<Table>>),
    Func(Rc<Closure>),
    Builtin(Builtin),
}

pub struct Closure {
    def: Arc<FuncDef>,
    env: Rc<Scope>,
}

#[derive(Clone, Copy, Debug, PartialEq)]
pub enum Builtin {
    ToNumber,
    ToString,
    Type,
    Ipairs,
    IpairsIter,
    Pairs,
    Next,
    Unpack,
    Select,
    Error,
    Assert,
    TableInsert,
    TableRemove,
    TableConcat,
    TableGetn,
    StringLen,
    StringSub,
    StringLower,
    StringUpper,
    StringRep,
    StringByte,
    StringReverse,
    MathFloor,
    MathCeil,
    MathMax,
    MathMin,
    MathAbs,
    RedisCall,
    RedisPcall,
    RedisErrorReply,
    RedisStatusReply,
    RedisSha1Hex,
    RedisLog,
    /// known stdlib name that is not implemented (calling it is `Unsupported`)
    Missing,
}

#[derive(Default)]
pub struct Table {
    /// t[1..=arr.len()]
    pub arr: Vec<Value>,
    /// everything else, in insertion order (tables in these scripts are tiny)
    pub hash: Vec<(Value, Value)>,
}

impl Value {
    pub fn str(s: &[u8]) -> Value {
        Value::Str(bytes(s))
    }

    pub fn truthy(&self) -> bool {
        !matches!(self, Value::Nil | Value::Bool(false))
    }

    pub fn type_name(&self) -> &'static str {
        match self {
            Value::Nil => "nil",
            Value::Bool(_) => "boolean",
            Value::Num(_) => "number",
            Value::Str(_) => "string",
            Value::Table(_) => "table",
            Value::Func(_) | Value::Builtin(_) => "function",
        }
    }

    pub fn new_table() -> Value {
        Value::Table(Rc::new(RefCell::new(Table::default())))
    }

    pub fn table_from(values: Vec<Value>) -> Value {
        let mut t = Table::default();
        for (i, v) in values.into_iter().enumerate() {
            t.set(Value::Num((i + 1) as f64), v);
        }
        Value::Table(Rc::new(RefCell::new(t)))
    }
}

fn raw_equal(a: &Value, b: &Value) -> bool {
    match (a, b) {
        (Value::Nil, Value::Nil) => true,
        (Value::Bool(x), Value::Bool(y)) => x == y,
        (Value::Num(x), Value::Num(y)) => x == y,
        (Value::Str(x), Value::Str(y)) => x == y,
        (Value::Table(x), Value::Table(y)) => Rc::ptr_eq(x, y),
        (Value::Func(x), Value::Func(y)) => Rc::ptr_eq(x, y),
        (Value::Builtin(x), Value::Builtin(y)) => x == y,
        _ => false,
    }
}

impl Table {
    pub fn get(&self, k: &Value) -> Value {
        if let Value::Num(n) = k {
            let i = *n as usize;
            if i as f64 == *n && i >= 1 && i <= self.arr.len() {
                return self.arr[i - 1].clone();
            }
        }
        for (kk, v) in &self.hash {
            if raw_equal(kk, k) {
                return v.clone();
            }
        }
        Value::Nil
    }

    pub fn get_str(&self, k: &str) -> Value {
        for (kk, v) in &self.hash {
            if let Value::Str(s) = kk {
                if &**s == k.as_bytes() {
                    return v.clone();
                }
            }
        }
        Value::Nil
    }

    pub fn set(&mut self, k: Value, v: Value) {
        if let Value::Num(n) = &k {
            let i = *n as usize;
            if i as f64 == *n && i >= 1 {
                if i <= self.arr.len() {
                    self.arr[i - 1] = v;
                    // keep the invariant "last array slot is non-nil"
                    while matches!(self.arr.last(), Some(Value::Nil)) {
                        self.arr.pop();
                    }
                    return;
                }
                if i == self.arr.len() + 1 {
                    if matches!(v, Value::Nil) {
                        self.hash_remove(&k);
                        return;
                    }
                    self.hash_remove(&k);
                    self.arr.push(v);
                    // migrate following integer keys from the hash part
                    loop {
                        let next = Value::Num((self.arr.len() + 1) as f64);
                        if let Some(pos) = self.hash.iter().position(|(kk, _)| raw_equal(kk, &next)) {
                            let (_, vv) = self.hash.remove(pos);
                            self.arr.push(vv);
                        } else {
                            break;
                        }
                    }
                    return;
                }
            }
        }
        if matches!(v, Value::Nil) {
            self.hash_remove(&k);
            return;
        }
        for (kk, vv) in self.hash.iter_mut() {
            if raw_equal(kk, &k) {
                *vv = v;
                return;
            }
        }
        self.hash.push((k, v));
    }

    fn hash_remove(&mut self, k: &Value) {
        if let Some(pos) = self.hash.iter().position(|(kk, _)| raw_equal(kk, k)) {
            self.hash.remove(pos);
        }
    }

    /// the `#` operator: a border of the table (array part length; holes created by
    /// assigning nil in the middle are resolved like `luaH_getn`'s binary search)
    pub fn len(&self) -> usize {
        let n = self.arr.len();
        if n == 0 || !matches!(self.arr[n - 1], Value::Nil) {
            return n;
        }
        let (mut i, mut j) = (0usize, n);
        while j - i > 1 {
            let m = (i + j) / 2;
            if matches!(self.arr[m - 1], Value::Nil) {
                j = m;
            } else {
                i = m;
            }
        }
        i
    }
}

/// `%.{prec}g` for doubles (enough of C's semantics for `tostring` (%.14g) and the
/// number → argument conversion of `redis.call` (%.17g)).
pub fn fmt_g(x: f64, prec: usize) -> String {
    if x.is_nan() {
        return if x.is_sign_negative() { "-nan".into() } else { "nan".into() };
    }
    if x.is_infinite() {
        return if x < 0.0 { "-inf".into() } else { "inf".into() };
    }
    if x == 0.0 {
        return if x.is_sign_negative() { "-0".into() } else { "0".into() };
    }
    let prec = prec.max(1);
    // scientific representation with `prec` significant digits
    let sci = format!("{:.*e}", prec - 1, x);
    let (mant, exp) = sci.split_once('e').unwrap();
    let exp: i32 = exp.parse().unwrap();
    if exp < -4 || exp >= prec as i32 {
        // exponent form: strip trailing zeros of the mantissa
        let mut m = mant.to_string();
        if m.contains('.') {
            while m.ends_with('0') {
                m.pop();
            }
            if m.ends_with('.') {
                m.pop();
            }
        }
        let sign = if exp < 0 { '-' } else { '+' };
        format!("{m}e{sign}{:02}", exp.abs())
    } else {
        let decimals = (prec as i32 - 1 - exp).max(0) as usize;
        let mut s = format!("{:.*}", decimals, x);
        if s.contains('.') {
            while s.ends_with('0') {
                s.pop();
            }
            if s.ends_with('.') {
                s.pop();
            }
        }
        s
    }
}

pub fn number_to_string(x: f64) -> String {
    fmt_g(x, 14)
}

/// Lua's string → number conversion (`lua_str2number` = strtod, then hex fallback).
/// Returns `Err(())` for inputs whose treatment by the C library is outside what this
/// emulation wants to vouch for ("inf", "nan", hex floats).
pub fn str_to_number(s: &[u8]) -> Result<Option<f64>, ()> {
    let Ok(t) = std::str::from_utf8(s) else {
        return Ok(None);
    };
    let t = t.trim_matches(|c: char| c == ' ' || ('\t'..='\r').contains(&c));
    if t.is_empty() {
        return Ok(None);
    }
    let lower = t.to_ascii_lowercase();
    if lower.contains("inf") || lower.contains("nan") || lower.contains('p') {
        return Err(());
    }
    let (neg, body) = match t.strip_prefix('-') {
        Some(rest) => (true, rest),
        None => (false, t.strip_prefix('+').unwrap_or(t)),
    };
    if let Some(hex) = body.strip_prefix("0x").or_else(|| body.strip_prefix("0X")) {
        if hex.is_empty() || !hex.bytes().all(|c| c.is_ascii_hexdigit()) {
            return Ok(None);
        }
        return match u64::from_str_radix(hex, 16) {
            Ok(v) => Ok(Some(if neg { -(v as f64) } else { v as f64 })),
            Err(_) => Err(()),
        };
    }
    // decimal: digits [. digits] [e[+-]digits], at least one digit in the mantissa
    let b = body.as_bytes();
    let mut i = 0;
    let mut digits = 0;
    while i < b.len() && b[i].is_ascii_digit() {
        i += 1;
        digits += 1;
    }
    if i < b.len() && b[i] == b'.' {
        i += 1;
        while i < b.len() && b[i].is_ascii_digit() {
            i += 1;
            digits += 1;
        }
    }
    if digits == 0 {
        return Ok(None);
    }
    if i < b.len() && (b[i] == b'e' || b[i] == b'E') {
        i += 1;
        if i < b.len() && (b[i] == b'+' || b[i] == b'-') {
            i += 1;
        }
        let mut ed = 0;
        while i < b.len() && b[i].is_ascii_digit() {
            i += 1;
            ed += 1;
        }
        if ed == 0 {
            return Ok(None);
        }
    }
    if i != b.len() {
        return Ok(None);
    }
    // Rust's parser wants a digit before/after '.', C's does not
    let mut norm = String::new();
    if body.starts_with('.') {
        norm.push('0');
    }
    norm.push_str(body);
    let norm = norm.replace(".e", ".0e").replace(".E", ".0E");
    let norm = if norm.ends_with('.') { format!("{norm}0") } else { norm };
    match norm.parse::<f64>() {
        Ok(v) => Ok(Some(if neg { -v } else { v })),
        Err(_) => Ok(None),
    }
}

// ---------------------------------------------------------------------------
// interpreter
// ---------------------------------------------------------------------------

pub struct Scope {
    vars: RefCell<Vec<(String, Value)>>,
    parent: Option<Rc<Scope>>,
}

impl Scope {
    fn new(parent: Option<Rc<Scope>>) -> Rc<Scope> {
        Rc::new(Scope {
            vars: RefCell::new(Vec::new()),
            parent,
        })
    }

    fn declare(&self, name: &str, v: Value) {
        self.vars.borrow_mut().push((name.to_string(), v));
    }

    fn lookup(&self, name: &str) -> Option<Value> {
        let mut s = self;
        loop {
            if let Some((_, v)) = s.vars.borrow().iter().rev().find(|(n, _)| n == name) {
                return Some(v.clone());
            }
            match &s.parent {
                Some(p) => s = p,
                None => return None,
            }
        }
    }

    fn assign(&self, name: &str, v: Value) -> bool {
        let mut s = self;
        loop {
            if let Some(slot) = s.vars.borrow_mut().iter_mut().rev().find(|(n, _)| n == name) {
                slot.1 = v;
                return true;
            }
            match &s.parent {
                Some(p) => s = p,
                None => return false,
            }
        }
    }
}

/// What the host (the fake Redis node) provides to a running script.
pub trait Host {
    /// execute a Redis command on behalf of the script; `Err` = the command's error
    /// reply text (without the leading '-')
    fn call(&mut self, args: Vec<Bytes>) -> Result<Value, Vec<u8>>;
    fn sha1hex(&mut self, data: &[u8]) -> String;
}

enum Flow {
    Normal,
    Break,
    Return(Vec<Value>),
}

pub struct Interp<'h> {
    host: &'h mut dyn Host,
    globals: HashMap<String, Value>,
    steps: u64,
    max_steps: u64,
}

const STDLIB_NAMES: &[&str] = &[
    "pcall", "xpcall", "getmetatable", "setmetatable", "rawget", "rawset", "rawequal", "loadstring",
    "load", "dofile", "print", "collectgarbage", "gcinfo", "newproxy", "getfenv", "setfenv", "cjson",
    "cmsgpack", "struct", "bit", "os", "coroutine", "_G", "_VERSION",
];

fn lib(entries: &[(&str, Builtin)]) -> Value {
    let mut t = Table::default();
    for (k, b) in entries {
        t.set(Value::str(k.as_bytes()), Value::Builtin(*b));
    }
    Value::Table(Rc::new(RefCell::new(t)))
}

impl<'h> Interp<'h> {
    pub fn new(host: &'h mut dyn Host, keys: &[Bytes], argv: &[Bytes]) -> Self {
        let mut g = HashMap::new();
        let b = |x| Value::Builtin(x);
        g.insert("tonumber".into(), b(Builtin::ToNumber));
        g.insert("tostring".into(), b(Builtin::ToString));
        g.insert("type".into(), b(Builtin::Type));
        g.insert("ipairs".into(), b(Builtin::Ipairs));
        g.insert("pairs".into(), b(Builtin::Pairs));
        g.insert("next".into(), b(Builtin::Next));
        g.insert("unpack".into(), b(Builtin::Unpack));
        g.insert("select".into(), b(Builtin::Select));
        g.insert("error".into(), b(Builtin::Error));
        g.insert("assert".into(), b(Builtin::Assert));
        for n in STDLIB_NAMES {
            g.insert((*n).into(), b(Builtin::Missing));
        }
        g.insert(
            "table".into(),
            lib(&[
                ("insert", Builtin::TableInsert),
                ("remove", Builtin::TableRemove),
                ("concat", Builtin::TableConcat),
                ("getn", Builtin::TableGetn),
                ("sort", Builtin::Missing),
                ("maxn", Builtin::Missing),
                ("foreach", Builtin::Missing),
                ("foreachi", Builtin::Missing),
            ]),
        );
        g.insert(
            "string".into(),
            lib(&[
                ("len", Builtin::StringLen),
                ("sub", Builtin::StringSub),
                ("lower", Builtin::StringLower),
                ("upper", Builtin::StringUpper),
                ("rep", Builtin::StringRep),
                ("byte", Builtin::StringByte),
                ("reverse", Builtin::StringReverse),
                ("format", Builtin::Missing),
                ("find", Builtin::Missing),
                ("match", Builtin::Missing),
                ("gmatch", Builtin::Missing),
                ("gsub", Builtin::Missing),
                ("char", Builtin::Missing),
                ("dump", Builtin::Missing),
            ]),
        );
        g.insert(
            "math".into(),
            lib(&[
                ("floor", Builtin::MathFloor),
                ("ceil", Builtin::MathCeil),
                ("max", Builtin::MathMax),
                ("min", Builtin::MathMin),
                ("abs", Builtin::MathAbs),
                ("random", Builtin::Missing),
                ("randomseed", Builtin::Missing),
                ("sqrt", Builtin::Missing),
                ("pow", Builtin::Missing),
                ("fmod", Builtin::Missing),
                ("modf", Builtin::Missing),
                ("log", Builtin::Missing),
                ("exp", Builtin::Missing),
            ]),
        );
        let redis = lib(&[
            ("call", Builtin::RedisCall),
            ("pcall", Builtin::RedisPcall),
            ("error_reply", Builtin::RedisErrorReply),
            ("status_reply", Builtin::RedisStatusReply),
            ("sha1hex", Builtin::RedisSha1Hex),
            ("log", Builtin::RedisLog),
            ("setresp", Builtin::Missing),
            ("replicate_commands", Builtin::Missing),
            ("set_repl", Builtin::Missing),
            ("breakpoint", Builtin::Missing),
            ("debug", Builtin::Missing),
        ]);
        if let Value::Table(t) = &redis {
            let mut t = t.borrow_mut();
            t.set(Value::str(b"LOG_DEBUG"), Value::Num(0.0));
            t.set(Value::str(b"LOG_VERBOSE"), Value::Num(1.0));
            t.set(Value::str(b"LOG_NOTICE"), Value::Num(2.0));
            t.set(Value::str(b"LOG_WARNING"), Value::Num(3.0));
        }
        g.insert("redis".into(), redis);
        g.insert(
            "KEYS".into(),
            Value::table_from(keys.iter().map(|k| Value::Str(k.clone())).collect()),
        );
        g.insert(
            "ARGV".into(),
            Value::table_from(argv.iter().map(|k| Value::Str(k.clone())).collect()),
        );
        Interp {
            host,
            globals: g,
            steps: 0,
            max_steps: 20_000_000,
        }
    }

    /// Run the chunk; returns the first returned value (Redis ignores the rest).
    pub fn run(&mut self, chunk: &Chunk) -> R<Value> {
        let scope = Scope::new(None);
        match self.exec_block(&chunk.body, &scope)? {
            Flow::Return(mut vals) => {
                if vals.is_empty() {
                    Ok(Value::Nil)
                } else {
                    Ok(vals.swap_remove(0))
                }
            }
            Flow::Normal => Ok(Value::Nil),
            Flow::Break => Err(LuaError::Syntax {
                line: 0,
                msg: "no loop to break".into(),
            }),
        }
    }

    fn tick(&mut self, line: u32) -> R<()> {
        self.steps += 1;
        if self.steps > self.max_steps {
            return Err(LuaError::Unsupported {
                line,
                what: "script exceeded the interpreter's step budget".into(),
            });
        }
        Ok(())
    }

    fn rt<T>(&self, line: u32, msg: impl Into<String>) -> R<T> {
        Err(LuaError::Runtime {
            line,
            msg: msg.into(),
        })
    }

    fn exec_block(&mut self, stmts: &[Stmt], parent: &Rc<Scope>) -> R<Flow> {
        let scope = Scope::new(Some(parent.clone()));
        for s in stmts {
            match self.exec_stmt(s, &scope)? {
                Flow::Normal => {}
                other => return Ok(other),
            }
        }
        Ok(Flow::Normal)
    }

    fn exec_stmt(&mut self, s: &Stmt, scope: &Rc<Scope>) -> R<Flow> {
        match s {
            Stmt::Local(names, exprs, line) => {
                self.tick(*line)?;
                let vals = self.eval_list(exprs, scope)?;
                for (i, n) in names.iter().enumerate() {
                    scope.declare(n, vals.get(i).cloned().unwrap_or(Value::Nil));
                }
                Ok(Flow::Normal)
            }
            Stmt::LocalFunc(name, def, line) => {
                self.tick(*line)?;
                scope.declare(name, Value::Nil);
                let f = Value::Func(Rc::new(Closure {
                    def: def.clone(),
                    env: scope.clone(),
                }));
                scope.assign(name, f);
                Ok(Flow::Normal)
            }
            Stmt::Assign(targets, exprs, line) => {
                self.tick(*line)?;
                // evaluate table/key subexpressions of targets first, then the values
                let mut places = Vec::new();
                for t in targets {
                    match t {
                        Expr::Name(n, l) => places.push((None, Value::Nil, n.clone(), *l)),
                        Expr::Index(obj, key, l) => {
                            let o = self.eval(obj, scope)?;
                            let k = self.eval(key, scope)?;
                            places.push((Some(o), k, String::new(), *l));
                        }
                        _ => unreachable!("parser only admits names and index expressions"),
                    }
                }
                let vals = self.eval_list(exprs, scope)?;
                for (i, (obj, key, name, l)) in places.into_iter().enumerate() {
                    let v = vals.get(i).cloned().unwrap_or(Value::Nil);
                    match obj {
                        None => {
                            if !scope.assign(&name, v) {
                                // Redis protects the global table
                                return self.rt(
                                    l,
                                    format!("Script attempted to create global variable '{name}'"),
                                );
                            }
                        }
                        Some(Value::Table(t)) => {
                            if matches!(key, Value::Nil) {
                                return self.rt(l, "table index is nil");
                            }
                            if let Value::Num(n) = key {
                                if n.is_nan() {
                                    return self.rt(l, "table index is NaN");
                                }
                            }
                            t.borrow_mut().set(key, v);
                        }
                        Some(other) => {
                            return self.rt(
                                l,
                                format!("attempt to index a {} value", other.type_name()),
                            );
                        }
                    }
                }
                Ok(Flow::Normal)
            }
            Stmt::Call(e, line) => {
                self.tick(*line)?;
                self.eval_multi(e, scope)?;
                Ok(Flow::Normal)
            }
            Stmt::Do(body) => self.exec_block(body, scope),
            Stmt::While(cond, body, line) => {
                loop {
                    self.tick(*line)?;
                    if !self.eval(cond, scope)?.truthy() {
                        break;
                    }
                    match self.exec_block(body, scope)? {
                        Flow::Normal => {}
                        Flow::Break => break,
                        r @ Flow::Return(_) => return Ok(r),
                    }
                }
                Ok(Flow::Normal)
            }
            Stmt::Repeat(body, cond, line) => {
                loop {
                    self.tick(*line)?;
                    // the condition sees the body's locals
                    let inner = Scope::new(Some(scope.clone()));
                    let mut flow = Flow::Normal;
                    for st in body {
                        match self.exec_stmt(st, &inner)? {
                            Flow::Normal => {}
                            other => {
                                flow = other;
                                break;
                            }
                        }
                    }
                    match flow {
                        Flow::Normal => {}
                        Flow::Break => break,
                        r @ Flow::Return(_) => return Ok(r),
                    }
                    if self.eval(cond, &inner)?.truthy() {
                        break;
                    }
                }
                Ok(Flow::Normal)
            }
            Stmt::If(arms, else_body, line) => {
                self.tick(*line)?;
                for (cond, body) in arms {
                    if self.eval(cond, scope)?.truthy() {
                        return self.exec_block(body, scope);
                    }
                }
                if let Some(b) = else_body {
                    return self.exec_block(b, scope);
                }
                Ok(Flow::Normal)
            }
            Stmt::NumFor(var, a, b, step, body, line) => {
                let start = self.eval(a, scope)?;
                let limit = self.eval(b, scope)?;
                let step_v = match step {
                    Some(s) => self.eval(s, scope)?,
                    None => Value::Num(1.0),
                };
                let start = self.arith_operand(&start).ok_or(()).or_else(|_| {
                    self.rt::<f64>(*line, "'for' initial value must be a number")
                })?;
                let limit = self.arith_operand(&limit).ok_or(()).or_else(|_| {
                    self.rt::<f64>(*line, "'for' limit must be a number")
                })?;
                let stepn = self.arith_operand(&step_v).ok_or(()).or_else(|_| {
                    self.rt::<f64>(*line, "'for' step must be a number")
                })?;
                let mut i = start;
                loop {
                    self.tick(*line)?;
                    let cont = if stepn > 0.0 { i <= limit } else { i >= limit };
                    if !cont {
                        break;
                    }
                    let inner = Scope::new(Some(scope.clone()));
                    inner.declare(var, Value::Num(i));
                    match self.exec_block(body, &inner)? {
                        Flow::Normal => {}
                        Flow::Break => break,
                        r @ Flow::Return(_) => return Ok(r),
                    }
                    i += stepn;
                }
                Ok(Flow::Normal)
            }
            Stmt::GenFor(names, exprs, body, line) => {
                let init = self.eval_list(exprs, scope)?;
                let f = init.first().cloned().unwrap_or(Value::Nil);
                let st = init.get(1).cloned().unwrap_or(Value::Nil);
                let mut ctl = init.get(2).cloned().unwrap_or(Value::Nil);
                loop {
                    self.tick(*line)?;
                    let rets = self.call_value(&f, vec![st.clone(), ctl.clone()], *line)?;
                    let first = rets.first().cloned().unwrap_or(Value::Nil);
                    if matches!(first, Value::Nil) {
                        break;
                    }
                    ctl = first;
                    let inner = Scope::new(Some(scope.clone()));
                    for (i, n) in names.iter().enumerate() {
                        inner.declare(n, rets.get(i).cloned().unwrap_or(Value::Nil));
                    }
                    match self.exec_block(body, &inner)? {
                        Flow::Normal => {}
                        Flow::Break => break,
                        r @ Flow::Return(_) => return Ok(r),
                    }
                }
                Ok(Flow::Normal)
            }
            Stmt::Return(exprs, line) => {
                self.tick(*line)?;
                Ok(Flow::Return(self.eval_list(exprs, scope)?))
            }
            Stmt::Break(_) => Ok(Flow::Break),
        }
    }

    /// evaluate an expression list with Lua's multi-value expansion of the last item
    fn eval_list(&mut self, exprs: &[Expr], scope: &Rc<Scope>) -> R<Vec<Value>> {
        let mut out = Vec::with_capacity(exprs.len());
        for (i, e) in exprs.iter().enumerate() {
            if i + 1 == exprs.len() {
                out.extend(self.eval_multi(e, scope)?);
            } else {
                out.push(self.eval(e, scope)?);
            }
        }
        Ok(out)
    }

    fn eval_multi(&mut self, e: &Expr, scope: &Rc<Scope>) -> R<Vec<Value>> {
        match e {
            Expr::Call(f, args, line) => {
                let fv = self.eval(f, scope)?;
                let argv = self.eval_list(args, scope)?;
                if matches!(fv, Value::Nil) {
                    return self.rt(*line, format!("attempt to call a nil value ({})", describe(f)));
                }
                self.call_value(&fv, argv, *line)
            }
            Expr::Method(obj, name, args, line) => {
                let o = self.eval(obj, scope)?;
                let f = match &o {
                    Value::Str(_) => match self.globals.get("string") {
                        Some(Value::Table(t)) => t.borrow().get_str(name),
                        _ => Value::Nil,
                    },
                    Value::Table(t) => t.borrow().get_str(name),
                    other => {
                        return self.rt(*line, format!("attempt to index a {} value", other.type_name()));
                    }
                };
                if matches!(f, Value::Nil) {
                    return self.rt(*line, format!("attempt to call method '{name}' (a nil value)"));
                }
                let mut argv = vec![o];
                argv.extend(self.eval_list(args, scope)?);
                self.call_value(&f, argv, *line)
            }
            Expr::Vararg(line) => Err(LuaError::Unsupported {
                line: *line,
                what: "'...' in a script".into(),
            }),
            other => Ok(vec![self.eval(other, scope)?]),
        }
    }

    fn eval(&mut self, e: &Expr, scope: &Rc<Scope>) -> R<Value> {
        match e {
            Expr::Nil => Ok(Value::Nil),
            Expr::True => Ok(Value::Bool(true)),
            Expr::False => Ok(Value::Bool(false)),
            Expr::Num(n) => Ok(Value::Num(*n)),
            Expr::Str(s) => Ok(Value::Str(s.clone())),
            Expr::Name(n, line) => {
                if let Some(v) = scope.lookup(n) {
                    return Ok(v);
                }
                if let Some(v) = self.globals.get(n) {
                    return Ok(v.clone());
                }
                self.rt(
                    *line,
                    format!("Script attempted to access nonexistent global variable '{n}'"),
                )
            }
            Expr::Index(obj, key, line) => {
                let o = self.eval(obj, scope)?;
                let k = self.eval(key, scope)?;
                match &o {
                    Value::Table(t) => Ok(t.borrow().get(&k)),
                    Value::Str(_) => match (&k, self.globals.get("string")) {
                        (Value::Str(_), Some(Value::Table(t))) => Ok(t.borrow().get(&k)),
                        _ => Ok(Value::Nil),
                    },
                    other => self.rt(
                        *line,
                        format!(
                            "attempt to index {} (a {} value)",
                            describe(obj),
                            other.type_name()
                        ),
                    ),
                }
            }
            Expr::Call(..) | Expr::Method(..) | Expr::Vararg(..) => {
                let mut v = self.eval_multi(e, scope)?;
                if v.is_empty() {
                    Ok(Value::Nil)
                } else {
                    Ok(v.swap_remove(0))
                }
            }
            Expr::Paren(inner) => self.eval(inner, scope),
            Expr::Func(def) => Ok(Value::Func(Rc::new(Closure {
                def: def.clone(),
                env: scope.clone(),
            }))),
            Expr::Table(items, line) => {
                let mut t = Table::default();
                let mut pos = 1usize;
                for (i, item) in items.iter().enumerate() {
                    match item {
                        TableItem::Pos(ex) => {
                            if i + 1 == items.len() {
                                for v in self.eval_multi(ex, scope)? {
                                    t.set(Value::Num(pos as f64), v);
                                    pos += 1;
                                }
                            } else {
                                let v = self.eval(ex, scope)?;
                                t.set(Value::Num(pos as f64), v);
                                pos += 1;
                            }
                        }
                        TableItem::Named(k, v) => {
                            let kv = self.eval(k, scope)?;
                            if matches!(kv, Value::Nil) {
                                return self.rt(*line, "table index is nil");
                            }
                            let vv = self.eval(v, scope)?;
                            t.set(kv, vv);
                        }
                    }
                }
                Ok(Value::Table(Rc::new(RefCell::new(t))))
            }
            Expr::Un(op, a, line) => {
                let v = self.eval(a, scope)?;
                match op {
                    UnOp::Not => Ok(Value::Bool(!v.truthy())),
                    UnOp::Neg => match self.arith_operand(&v) {
                        Some(n) => Ok(Value::Num(-n)),
                        None => self.rt(
                            *line,
                            format!("attempt to perform arithmetic on a {} value", v.type_name()),
                        ),
                    },
                    UnOp::Len => match &v {
                        Value::Str(s) => Ok(Value::Num(s.len() as f64)),
                        Value::Table(t) => Ok(Value::Num(t.borrow().len() as f64)),
                        other => self.rt(
                            *line,
                            format!("attempt to get length of a {} value", other.type_name()),
                        ),
                    },
                }
            }
            Expr::Bin(op, a, b, line) => {
                match op {
                    BinOp::And => {
                        let l = self.eval(a, scope)?;
                        return if l.truthy() { self.eval(b, scope) } else { Ok(l) };
                    }
                    BinOp::Or => {
                        let l = self.eval(a, scope)?;
                        return if l.truthy() { Ok(l) } else { self.eval(b, scope) };
                    }
                    _ => {}
                }
                let l = self.eval(a, scope)?;
                let r = self.eval(b, scope)?;
                self.binary(*op, l, r, *line)
            }
        }
    }

    fn arith_operand(&self, v: &Value) -> Option<f64> {
        match v {
            Value::Num(n) => Some(*n),
            Value::Str(s) => str_to_number(s).ok().flatten(),
            _ => None,
        }
    }

    fn binary(&mut self, op: BinOp, l: Value, r: Value, line: u32) -> R<Value> {
        match op {
            BinOp::Eq => Ok(Value::Bool(raw_equal(&l, &r))),
            BinOp::Ne => Ok(Value::Bool(!raw_equal(&l, &r))),
            BinOp::Lt | BinOp::Le | BinOp::Gt | BinOp::Ge => {
                // a > b  ==  b < a ;  a >= b  ==  b <= a
                let (x, y, strict) = match op {
                    BinOp::Lt => (&l, &r, true),
                    BinOp::Le => (&l, &r, false),
                    BinOp::Gt => (&r, &l, true),
                    _ => (&r, &l, false),
                };
                match (x, y) {
                    (Value::Num(a), Value::Num(b)) => {
                        Ok(Value::Bool(if strict { a < b } else { a <= b }))
                    }
                    (Value::Str(a), Value::Str(b)) => {
                        Ok(Value::Bool(if strict { a < b } else { a <= b }))
                    }
                    _ => {
                        let (t1, t2) = (l.type_name(), r.type_name());
                        if t1 == t2 {
                            self.rt(line, format!("attempt to compare two {t1} values"))
                        } else {
                            self.rt(line, format!("attempt to compare {t1} with {t2}"))
                        }
                    }
                }
            }
            BinOp::Concat => {
                let part = |v: &Value| -> Option<Vec<u8>> {
                    match v {
                        Value::Str(s) => Some(s.to_vec()),
                        Value::Num(n) => Some(number_to_string(*n).into_bytes()),
                        _ => None,
                    }
                };
                match (part(&l), part(&r)) {
                    (Some(mut a), Some(b)) => {
                        a.extend_from_slice(&b);
                        Ok(Value::Str(Arc::from(a)))
                    }
                    (None, _) => self.rt(
                        line,
                        format!("attempt to concatenate a {} value", l.type_name()),
                    ),
                    (_, None) => self.rt(
                        line,
                        format!("attempt to concatenate a {} value", r.type_name()),
                    ),
                }
            }
            BinOp::Add | BinOp::Sub | BinOp::Mul | BinOp::Div | BinOp::Mod | BinOp::Pow => {
                let (Some(a), Some(b)) = (self.arith_operand(&l), self.arith_operand(&r)) else {
                    let bad = if self.arith_operand(&l).is_none() { &l } else { &r };
                    return self.rt(
                        line,
                        format!("attempt to perform arithmetic on a {} value", bad.type_name()),
                    );
                };
                Ok(Value::Num(match op {
                    BinOp::Add => a + b,
                    BinOp::Sub => a - b,
                    BinOp::Mul => a * b,
                    BinOp::Div => a / b,
                    BinOp::Mod => a - (a / b).floor() * b,
                    _ => a.powf(b),
                }))
            }
            BinOp::And | BinOp::Or => unreachable!(),
        }
    }

    fn call_value(&mut self, f: &Value, args: Vec<Value>, line: u32) -> R<Vec<Value>> {
        self.tick(line)?;
        match f {
            Value::Builtin(b) => self.call_builtin(*b, args, line),
            Value::Func(c) => {
                let scope = Scope::new(Some(c.env.clone()));
                for (i, p) in c.def.params.iter().enumerate() {
                    scope.declare(p, args.get(i).cloned().unwrap_or(Value::Nil));
                }
                match self.exec_block(&c.def.body, &scope)? {
                    Flow::Return(v) => Ok(v),
                    _ => Ok(Vec::new()),
                }
            }
            other => self.rt(line, format!("attempt to call a {} value", other.type_name())),
        }
    }

    fn arg_table(&self, args: &[Value], i: usize, fname: &str, line: u32) -> R<Rc<RefCell<Table>>> {
        match args.get(i) {
            Some(Value::Table(t)) => Ok(t.clone()),
            other => self.rt(
                line,
                format!(
                    "bad argument #{} to '{fname}' (table expected, got {})",
                    i + 1,
                    other.map(|v| v.type_name()).unwrap_or("no value")
                ),
            ),
        }
    }

    fn arg_num(&self, args: &[Value], i: usize, fname: &str, line: u32) -> R<f64> {
        match args.get(i).and_then(|v| self.arith_operand(v)) {
            Some(n) => Ok(n),
            None => self.rt(
                line,
                format!(
                    "bad argument #{} to '{fname}' (number expected, got {})",
                    i + 1,
                    args.get(i).map(|v| v.type_name()).unwrap_or("no value")
                ),
            ),
        }
    }

    fn arg_str(&self, args: &[Value], i: usize, fname: &str, line: u32) -> R<Vec<u8>> {
        match args.get(i) {
            Some(Value::Str(s)) => Ok(s.to_vec()),
            Some(Value::Num(n)) => Ok(number_to_string(*n).into_bytes()),
            other => self.rt(
                line,
                format!(
                    "bad argument #{} to '{fname}' (string expected, got {})",
                    i + 1,
                    other.map(|v| v.type_name()).unwrap_or("no value")
                ),
            ),
        }
    }

    fn call_builtin(&mut self, b: Builtin, args: Vec<Value>, line: u32) -> R<Vec<Value>> {
        let one = |v: Value| Ok(vec![v]);
        match b {
            Builtin::Missing => Err(LuaError::Unsupported {
                line,
                what: "call of a Lua/Redis library function that the emulation does not implement".into(),
            }),
            Builtin::ToNumber => {
                if args.is_empty() {
                    return self.rt(line, "bad argument #1 to 'tonumber' (value expected)");
                }
                if args.len() > 1 && !matches!(args[1], Value::Nil) {
                    let base = self.arg_num(&args, 1, "tonumber", line)?;
                    if base != 10.0 {
                        return Err(LuaError::Unsupported {
                            line,
                            what: "tonumber with a base other than 10".into(),
                        });
                    }
                }
                match &args[0] {
                    Value::Num(n) => one(Value::Num(*n)),
                    Value::Str(s) => match str_to_number(s) {
                        Ok(Some(n)) => one(Value::Num(n)),
                        Ok(None) => one(Value::Nil),
                        Err(()) => Err(LuaError::Unsupported {
                            line,
                            what: "tonumber on an inf/nan/hex-float literal".into(),
                        }),
                    },
                    _ => one(Value::Nil),
                }
            }
            Builtin::ToString => {
                let v = args.first().cloned().unwrap_or(Value::Nil);
                match v {
                    Value::Nil => one(Value::str(b"nil")),
                    Value::Bool(b) => one(Value::str(if b { b"true" } else { b"false" })),
                    Value::Num(n) => one(Value::str(number_to_string(n).as_bytes())),
                    Value::Str(s) => one(Value::Str(s)),
                    _ => Err(LuaError::Unsupported {
                        line,
                        what: "tostring of a table/function (address dependent)".into(),
                    }),
                }
            }
            Builtin::Type => {
                if args.is_empty() {
                    return self.rt(line, "bad argument #1 to 'type' (value expected)");
                }
                one(Value::str(args[0].type_name().as_bytes()))
            }
            Builtin::Ipairs => {
                let t = self.arg_table(&args, 0, "ipairs", line)?;
                Ok(vec![
                    Value::Builtin(Builtin::IpairsIter),
                    Value::Table(t),
                    Value::Num(0.0),
                ])
            }
            Builtin::IpairsIter => {
                let t = self.arg_table(&args, 0, "ipairs", line)?;
                let i = self.arg_num(&args, 1, "ipairs", line)? + 1.0;
                let v = t.borrow().get(&Value::Num(i));
                if matches!(v, Value::Nil) {
                    one(Value::Nil)
                } else {
                    Ok(vec![Value::Num(i), v])
                }
            }
            Builtin::Pairs => {
                let t = self.arg_table(&args, 0, "pairs", line)?;
                Ok(vec![Value::Builtin(Builtin::Next), Value::Table(t), Value::Nil])
            }
            Builtin::Next => {
                // traversal order: array part, then hash part in insertion order.
                // (Lua leaves the order unspecified.)
                let t = self.arg_table(&args, 0, "next", line)?;
                let t = t.borrow();
                let k = args.get(1).cloned().unwrap_or(Value::Nil);
                let mut idx: usize = match &k {
                    Value::Nil => 0,
                    Value::Num(n) if (*n as usize) as f64 == *n && *n >= 1.0 && (*n as usize) <= t.arr.len() => {
                        *n as usize
                    }
                    other => match t.hash.iter().position(|(kk, _)| raw_equal(kk, other)) {
                        Some(p) => t.arr.len() + p + 1,
                        None => return self.rt(line, "invalid key to 'next'"),
                    },
                };
                loop {
                    if idx < t.arr.len() {
                        if !matches!(t.arr[idx], Value::Nil) {
                            return Ok(vec![Value::Num((idx + 1) as f64), t.arr[idx].clone()]);
                        }
                        idx += 1;
                        continue;
                    }
                    let h = idx - t.arr.len();
                    if h < t.hash.len() {
                        return Ok(vec![t.hash[h].0.clone(), t.hash[h].1.clone()]);
                    }
                    return one(Value::Nil);
                }
            }
            Builtin::Unpack => {
                let t = self.arg_table(&args, 0, "unpack", line)?;
                let t = t.borrow();
                let i = match args.get(1) {
                    None | Some(Value::Nil) => 1.0,
                    _ => self.arg_num(&args, 1, "unpack", line)?,
                };
                let j = match args.get(2) {
                    None | Some(Value::Nil) => t.len() as f64,
                    _ => self.arg_num(&args, 2, "unpack", line)?,
                };
                let mut out = Vec::new();
                let mut k = i;
                while k <= j {
                    out.push(t.get(&Value::Num(k)));
                    k += 1.0;
                    if out.len() > 1_000_000 {
                        return self.rt(line, "too many results to unpack");
                    }
                }
                Ok(out)
            }
            Builtin::Select => {
                match args.first() {
                    Some(Value::Str(s)) if &**s == b"#" => one(Value::Num((args.len() - 1) as f64)),
                    _ => {
                        let n = self.arg_num(&args, 0, "select", line)?;
                        if n < 1.0 {
                            return Err(LuaError::Unsupported {
                                line,
                                what: "select with a non-positive index".into(),
                            });
                        }
                        Ok(args.into_iter().skip(n as usize).collect())
                    }
                }
            }
            Builtin::Error => {
                let v = args.first().cloned().unwrap_or(Value::Nil);
                match v {
                    Value::Str(s) => self.rt(line, String::from_utf8_lossy(&s).to_string()),
                    Value::Num(n) => self.rt(line, number_to_string(n)),
                    Value::Table(t) => {
                        // error({err=...}) as produced by redis.error_reply
                        let e = t.borrow().get_str("err");
                        match e {
                            Value::Str(s) => Err(LuaError::Redis {
                                line,
                                err: s.to_vec(),
                            }),
                            _ => Err(LuaError::Unsupported {
                                line,
                                what: "error() with a table without 'err'".into(),
                            }),
                        }
                    }
                    _ => Err(LuaError::Unsupported {
                        line,
                        what: "error() with a non-string value".into(),
                    }),
                }
            }
            Builtin::Assert => {
                if args.first().is_some_and(|v| v.truthy()) {
                    Ok(args)
                } else {
                    let msg = match args.get(1) {
                        Some(Value::Str(s)) => String::from_utf8_lossy(s).to_string(),
                        _ => "assertion failed!".to_string(),
                    };
                    self.rt(line, msg)
                }
            }
            Builtin::TableInsert => {
                let t = self.arg_table(&args, 0, "insert", line)?;
                match args.len() {
                    2 => {
                        let n = t.borrow().len();
                        t.borrow_mut().set(Value::Num((n + 1) as f64), args[1].clone());
                    }
                    3 => {
                        let pos = self.arg_num(&args, 1, "insert", line)?;
                        let n = t.borrow().len();
                        let pos_i = pos as usize;
                        if pos_i as f64 != pos || pos_i < 1 || pos_i > n + 1 {
                            return Err(LuaError::Unsupported {
                                line,
                                what: "table.insert with a position outside 1..n+1".into(),
                            });
                        }
                        let mut tb = t.borrow_mut();
                        let mut i = n;
                        while i >= pos_i {
                            let v = tb.get(&Value::Num(i as f64));
                            tb.set(Value::Num((i + 1) as f64), v);
                            i -= 1;
                        }
                        tb.set(Value::Num(pos), args[2].clone());
                    }
                    _ => return self.rt(line, "wrong number of arguments to 'insert'"),
                }
                Ok(Vec::new())
            }
            Builtin::TableRemove => {
                let t = self.arg_table(&args, 0, "remove", line)?;
                let n = t.borrow().len();
                if n == 0 {
                    return one(Value::Nil);
                }
                let pos = match args.get(1) {
                    None | Some(Value::Nil) => n,
                    _ => self.arg_num(&args, 1, "remove", line)? as usize,
                };
                if pos < 1 || pos > n {
                    return one(Value::Nil);
                }
                let mut tb = t.borrow_mut();
                let removed = tb.get(&Value::Num(pos as f64));
                for i in pos..n {
                    let v = tb.get(&Value::Num((i + 1) as f64));
                    tb.set(Value::Num(i as f64), v);
                }
                tb.set(Value::Num(n as f64), Value::Nil);
                one(removed)
            }
            Builtin::TableConcat => {
                let t = self.arg_table(&args, 0, "concat", line)?;
                let sep = match args.get(1) {
                    None | Some(Value::Nil) => Vec::new(),
                    _ => self.arg_str(&args, 1, "concat", line)?,
                };
                let t = t.borrow();
                let n = t.len();
                let mut out = Vec::new();
                for i in 1..=n {
                    match t.get(&Value::Num(i as f64)) {
                        Value::Str(s) => out.extend_from_slice(&s),
                        Value::Num(x) => out.extend_from_slice(number_to_string(x).as_bytes()),
                        _ => return self.rt(line, "invalid value (at index) in table for 'concat'"),
                    }
                    if i != n {
                        out.extend_from_slice(&sep);
                    }
                }
                one(Value::Str(Arc::from(out)))
            }
            Builtin::TableGetn => {
                let t = self.arg_table(&args, 0, "getn", line)?;
                let n = t.borrow().len();
                one(Value::Num(n as f64))
            }
            Builtin::StringLen => {
                let s = self.arg_str(&args, 0, "len", line)?;
                one(Value::Num(s.len() as f64))
            }
            Builtin::StringSub => {
                let s = self.arg_str(&args, 0, "sub", line)?;
                let l = s.len() as i64;
                let mut i = self.arg_num(&args, 1, "sub", line)? as i64;
                let mut j = match args.get(2) {
                    None | Some(Value::Nil) => -1,
                    _ => self.arg_num(&args, 2, "sub", line)? as i64,
                };
                if i < 0 {
                    i = (l + i + 1).max(0);
                }
                if j < 0 {
                    j = l + j + 1;
                }
                if i < 1 {
                    i = 1;
                }
                if j > l {
                    j = l;
                }
                if i > j {
                    return one(Value::str(b""));
                }
                one(Value::str(&s[(i - 1) as usize..j as usize]))
            }
            Builtin::StringLower => {
                let s = self.arg_str(&args, 0, "lower", line)?;
                one(Value::str(&s.to_ascii_lowercase()))
            }
            Builtin::StringUpper => {
                let s = self.arg_str(&args, 0, "upper", line)?;
                one(Value::str(&s.to_ascii_uppercase()))
            }
            Builtin::StringRep => {
                let s = self.arg_str(&args, 0, "rep", line)?;
                let n = self.arg_num(&args, 1, "rep", line)?;
                if n * s.len() as f64 > 64.0 * 1024.0 * 1024.0 {
                    return self.rt(line, "resulting string too large");
                }
                one(Value::str(&s.repeat(n.max(0.0) as usize)))
            }
            Builtin::StringByte => {
                let s = self.arg_str(&args, 0, "byte", line)?;
                let i = match args.get(1) {
                    None | Some(Value::Nil) => 1,
                    _ => self.arg_num(&args, 1, "byte", line)? as i64,
                };
                if args.len() > 2 {
                    return Err(LuaError::Unsupported {
                        line,
                        what: "string.byte with a range".into(),
                    });
                }
                let l = s.len() as i64;
                let i = if i < 0 { l + i + 1 } else { i };
                if i < 1 || i > l {
                    return Ok(Vec::new());
                }
                one(Value::Num(s[(i - 1) as usize] as f64))
            }
            Builtin::StringReverse => {
                let mut s = self.arg_str(&args, 0, "reverse", line)?;
                s.reverse();
                one(Value::str(&s))
            }
            Builtin::MathFloor => one(Value::Num(self.arg_num(&args, 0, "floor", line)?.floor())),
            Builtin::MathCeil => one(Value::Num(self.arg_num(&args, 0, "ceil", line)?.ceil())),
            Builtin::MathAbs => one(Value::Num(self.arg_num(&args, 0, "abs", line)?.abs())),
            Builtin::MathMax | Builtin::MathMin => {
                let name = if b == Builtin::MathMax { "max" } else { "min" };
                let mut acc = self.arg_num(&args, 0, name, line)?;
                for i in 1..args.len() {
                    let v = self.arg_num(&args, i, name, line)?;
                    if (b == Builtin::MathMax && v > acc) || (b == Builtin::MathMin && v < acc) {
                        acc = v;
                    }
                }
                one(Value::Num(acc))
            }
            Builtin::RedisCall | Builtin::RedisPcall => {
                if args.is_empty() {
                    return self.redis_error(
                        b == Builtin::RedisCall,
                        b"ERR Please specify at least one argument for this redis lib call".to_vec(),
                        line,
                    );
                }
                let mut cmd = Vec::with_capacity(args.len());
                for a in &args {
                    match a {
                        Value::Str(s) => cmd.push(s.clone()),
                        // scripting.c: numbers are rendered with "%.17g"
                        Value::Num(n) => cmd.push(bytes(fmt_g(*n, 17).as_bytes())),
                        _ => {
                            return self.redis_error(
                                b == Builtin::RedisCall,
                                b"ERR Lua redis lib command arguments must be strings or integers".to_vec(),
                                line,
                            );
                        }
                    }
                }
                match self.host.call(cmd) {
                    Ok(v) => one(v),
                    Err(e) => self.redis_error(b == Builtin::RedisCall, e, line),
                }
            }
            Builtin::RedisErrorReply => match args.as_slice() {
                [Value::Str(s)] => one(error_table(&normalize_error_reply(s))),
                _ => one(error_table(b"ERR wrong number or type of arguments")),
            },
            Builtin::RedisStatusReply => match args.as_slice() {
                [Value::Str(s)] => {
                    let mut t = Table::default();
                    t.set(Value::str(b"ok"), Value::Str(s.clone()));
                    one(Value::Table(Rc::new(RefCell::new(t))))
                }
                _ => one(error_table(b"ERR wrong number or type of arguments")),
            },
            Builtin::RedisSha1Hex => {
                let s = self.arg_str(&args, 0, "sha1hex", line)?;
                let h = self.host.sha1hex(&s);
                one(Value::str(h.as_bytes()))
            }
            Builtin::RedisLog => Ok(Vec::new()),
        }
    }

    fn redis_error(&self, raise: bool, err: Vec<u8>, line: u32) -> R<Vec<Value>> {
        if raise {
            Err(LuaError::Redis { line, err })
        } else {
            Ok(vec![error_table(&err)])
        }
    }
}

fn describe(e: &Expr) -> String {
    match e {
        Expr::Name(n, _) => format!("global or local '{n}'"),
        Expr::Index(_, k, _) => match &**k {
            Expr::Str(s) => format!("field '{}'", String::from_utf8_lossy(s)),
            _ => "field '?'".into(),
        },
        _ => "?".into(),
    }
}

pub fn error_table(err: &[u8]) -> Value {
    let mut t = Table::default();
    t.set(Value::str(b"err"), Value::str(err));
    Value::Table(Rc::new(RefCell::new(t)))
}

/// Redis 7 `luaPushErrorBuff`: "-CODE msg" → "CODE msg"; "msg without space" gets the
/// generic `ERR` code; a message that already has a first word keeps it as its code.
pub fn normalize_error_reply(s: &[u8]) -> Vec<u8> {
    let s = s.strip_prefix(b"-").unwrap_or(s);
    let mut out: Vec<u8> = if s.contains(&b' ') {
        s.to_vec()
    } else {
        let mut v = b"ERR ".to_vec();
        v.extend_from_slice(s);
        v
    };
    while matches!(out.last(), Some(b'\r') | Some(b'\n')) {
        out.pop();
    }
    out
}
