//! The fake Redis "network": N independent nodes (each a `store::Db` behind a mutex,
//! so every command/script is atomic on its node exactly like in Redis), reachable
//! over real loopback TCP through one listener per (replica, node) *link*. Each link
//! carries a fault mode (partition, request/reply loss, delay, reset) that the seeded
//! director changes over time. Everything observable about the nodes is recorded for
//! the offline oracle.

use crate::{
    lua::Bytes,
    resp::{
        Frame,
        parse_command,
    },
    store::{
        Ctx,
        Db,
        Effect,
        Reply,
    },
};
use rand::{
    Rng,
    rngs::StdRng,
};
use std::{
    collections::{
        BTreeMap,
        HashMap,
    },
    sync::{
        Arc,
        Mutex,
        atomic::{
            AtomicBool,
            AtomicU64,
            Ordering,
        },
    },
    time::{
        Duration,
        Instant,
        SystemTime,
        UNIX_EPOCH,
    },
};
use tokio::{
    io::{
        AsyncReadExt,
        AsyncWriteExt,
    },
    net::{
        TcpListener,
        TcpStream,
    },
    sync::watch,
};

pub struct Clock {
    base_unix_us: u64,
    start: Instant,
}

impl Clock {
    pub fn new() -> Clock {
        Clock {
            base_unix_us: SystemTime::now()
                .duration_since(UNIX_EPOCH)
                .map(|d| d.as_micros() as u64)
                .unwrap_or(1_700_000_000_000_000),
            start: Instant::now(),
        }
    }

    pub fn now_us(&self) -> u64 {
        self.base_unix_us + self.start.elapsed().as_micros() as u64
    }

    pub fn elapsed_ms(&self) -> u64 {
        self.start.elapsed().as_millis() as u64
    }
}

#[derive(Clone, Copy, Debug, PartialEq, Default)]
pub enum AcceptMode {
    #[default]
    Normal,
    /// accept and close at once (what a closed port / RST looks like to the client)
    Refuse,
    /// accept and never answer
    Blackhole,
}

#[derive(Clone, Debug, Default)]
pub struct LinkMode {
    pub accept: AcceptMode,
    /// every request on existing connections is swallowed unexecuted
    pub blackhole: bool,
    /// percentages, rolled per command
    pub p_drop_req: u32,
    pub p_drop_reply: u32,
    pub p_reset_before: u32,
    pub p_reset_after: u32,
    pub p_delay: u32,
    pub delay_ms: (u64, u64),
    /// delay only EVAL/EVALSHA (the connection handshake and SCRIPT LOAD pass at once),
    /// so that a slow link produces late *script executions* rather than failed connects
    pub delay_scripts_only: bool,
    pub p_post_delay: u32,
    pub post_delay_ms: (u64, u64),
}

impl LinkMode {
    pub fn is_calm(&self) -> bool {
        self.accept == AcceptMode::Normal
            && !self.blackhole
            && self.p_drop_req == 0
            && self.p_drop_reply == 0
            && self.p_reset_before == 0
            && self.p_reset_after == 0
            && self.p_delay == 0
            && self.p_post_delay == 0
    }
}

pub struct Link {
    pub replica: usize,
    pub node: usize,
    pub port: u16,
    pub mode: Mutex<LinkMode>,
    pub rng: Mutex<StdRng>,
    pub kill: watch::Sender<u64>,
}

impl Link {
    pub fn set_mode(&self, m: LinkMode) {
        *self.mode.lock().unwrap_or_else(|e| e.into_inner()) = m;
    }

    pub fn kill_connections(&self) {
        self.kill.send_modify(|g| *g += 1);
    }
}

pub struct NodeInner {
    pub db: Db,
    /// number of wipes so far
    pub incarnation: u64,
}

pub struct Node {
    pub idx: usize,
    pub inner: Mutex<NodeInner>,
    pub kill: watch::Sender<u64>,
}

#[derive(Clone, Debug)]
pub struct AppendEvent {
    pub t: u64,
    pub ms: u64,
    pub node: usize,
    pub incarnation: u64,
    pub replica: usize,
    pub height: Option<u32>,
    pub epoch: Option<u64>,
    pub block_id: Option<String>,
    /// executed after the client's timeout had certainly passed
    pub late: bool,
    /// the writing replica was inside `leader_state` (reconciliation/repair), not in
    /// `publish_produced_block`
    pub during_leader_state: bool,
    pub via_script: bool,
    pub stream_pos: usize,
}

#[derive(Clone, Debug)]
pub struct EpochViolation {
    pub t: u64,
    pub node: usize,
    pub incarnation: u64,
    pub before: i64,
    pub after: i64,
    pub command: String,
    pub replica: usize,
}

#[derive(Clone, Debug)]
pub struct StreamItem {
    pub id: String,
    pub height: Option<u32>,
    pub epoch: Option<u64>,
    pub block_id: Option<String>,
}

#[derive(Clone, Debug)]
pub struct NodeDump {
    pub node: usize,
    pub incarnation: u64,
    pub epoch: Option<i64>,
    pub lock_owner: Option<String>,
    pub stream: Vec<StreamItem>,
}

#[derive(Clone, Debug)]
pub struct Dump {
    pub t: u64,
    pub ms: u64,
    pub reason: String,
    pub nodes: Vec<NodeDump>,
}

#[derive(Default)]
pub struct Obs {
    pub appends: Vec<AppendEvent>,
    pub epoch_violations: Vec<EpochViolation>,
    pub dumps: Vec<Dump>,
    pub wipes: Vec<(u64, usize)>,
    pub gaps: Vec<String>,
    /// last epoch value seen per node within its current incarnation (dump chain)
    pub last_dump_epoch: HashMap<usize, (u64, i64)>,
}

pub struct KeyNames {
    pub lock: Vec<u8>,
    pub epoch: Vec<u8>,
    pub stream: Vec<u8>,
}

pub struct Shared {
    pub clock: Clock,
    pub nodes: Vec<Arc<Node>>,
    /// [replica][node]
    pub links: Vec<Vec<Arc<Link>>>,
    pub obs: Mutex<Obs>,
    pub counters: Mutex<BTreeMap<String, u64>>,
    pub shutdown: watch::Sender<bool>,
    pub logical: AtomicU64,
    pub in_leader_state: Vec<AtomicBool>,
    /// the height each replica is currently asking `leader_state` about
    pub next_heights: Vec<std::sync::atomic::AtomicU32>,
    pub keys: KeyNames,
    /// SHA-1 of the six known script texts → short name (classification only)
    pub script_kinds: HashMap<String, &'static str>,
    /// client side per-node timeout; a command delayed by more than this is "late"
    pub client_timeout_ms: u64,
    pub decode_block_id: fn(&[u8]) -> Option<String>,
}

impl Shared {
    pub fn count(&self, key: &str) {
        self.add(key, 1);
    }

    pub fn add(&self, key: &str, n: u64) {
        let mut c = self.counters.lock().unwrap_or_else(|e| e.into_inner());
        *c.entry(key.to_string()).or_insert(0) += n;
    }

    pub fn tick(&self) -> u64 {
        self.logical.fetch_add(1, Ordering::SeqCst)
    }

    fn epoch_of(&self, db: &Db, now_ms: u64) -> Option<i64> {
        match db.peek_string(&self.keys.epoch, now_ms) {
            None => Some(0),
            Some(s) => crate::store::parse_ll(&s),
        }
    }

    fn field<'a>(fields: &'a [Bytes], name: &[u8]) -> Option<&'a Bytes> {
        fields.chunks(2).find(|p| p.len() == 2 && &*p[0] == name).map(|p| &p[1])
    }

    fn parse_num<T: std::str::FromStr>(b: Option<&Bytes>) -> Option<T> {
        std::str::from_utf8(b?).ok()?.parse::<T>().ok()
    }

    /// Execute one client command on a node, atomically, and record what happened.
    pub fn exec(&self, node: &Node, link: &Link, args: &[Bytes], late: bool) -> Reply {
        let name = String::from_utf8_lossy(&args[0]).to_ascii_uppercase();
        let kind: String = if name == "EVALSHA" && args.len() > 1 {
            let sha = String::from_utf8_lossy(&args[1]).to_ascii_lowercase();
            self.script_kinds.get(&sha).map(|s| s.to_string()).unwrap_or_else(|| "script_other".into())
        } else {
            name.to_ascii_lowercase()
        };
        // a write counts as reconciliation/repair traffic only if it happens while the
        // replica is inside `leader_state` AND concerns a height it has not committed
        // (stragglers of the previous, already successful publish are excluded)
        let in_ls = self.in_leader_state[link.replica].load(Ordering::SeqCst);
        let replica_next = self.next_heights[link.replica].load(Ordering::SeqCst);
        let posted_height: Option<u32> = if kind == "write_block" && args.len() > 8 {
            Self::parse_num::<u32>(Some(&args[8]))
        } else {
            None
        };
        let during_ls = in_ls && posted_height.is_some_and(|h| h >= replica_next);
        let now_us = self.clock.now_us();
        let now_ms = now_us / 1000;
        let (reply, effects, incarnation, before, after, stream_len, new_gaps) = {
            let mut g = node.inner.lock().unwrap_or_else(|e| e.into_inner());
            let before = self.epoch_of(&g.db, now_ms);
            g.db.effects.clear();
            let gaps_before = g.db.gaps.len();
            let reply = g.db.exec(
                args,
                Ctx {
                    now_us,
                    in_script: false,
                },
            );
            let after = self.epoch_of(&g.db, now_ms);
            let effects = std::mem::take(&mut g.db.effects);
            let stream_len = g.db.peek_stream(&self.keys.stream).map(|s| s.entries.len()).unwrap_or(0);
            let new_gaps: Vec<String> = g.db.gaps[gaps_before..].to_vec();
            (reply, effects, g.incarnation, before, after, stream_len, new_gaps)
        };
        let t = self.tick();
        // classification (outside the node lock)
        self.count(&format!("srv.cmd.{kind}"));
        if late {
            self.count(&format!("srv.late_exec.{kind}"));
        }
        match (&reply, kind.as_str()) {
            (Reply::Error(e), _) if e.starts_with("NOSCRIPT") => self.count("srv.noscript"),
            (Reply::Error(e), "write_block") => {
                if e.starts_with("HEIGHT_EXISTS:") {
                    self.count("srv.write_block.reject.height_exists");
                } else if e.starts_with("FENCING_ERROR: Lock lost") {
                    self.count("srv.write_block.reject.lost_lease");
                } else if e.starts_with("FENCING_ERROR: Token is stale") {
                    self.count("srv.write_block.reject.stale_token");
                } else {
                    self.count("srv.write_block.error_other");
                }
            }
            (Reply::Bulk(_), "write_block") => {
                self.count("srv.write_block.written");
                if late {
                    self.count("srv.write_block.late_written");
                }
                if during_ls {
                    self.count("srv.write_block.repair_written");
                }
            }
            (Reply::Error(e), "promote_leader") => {
                if e.starts_with("LOCK_HELD:") {
                    self.count("srv.promote.lock_held");
                } else {
                    self.count("srv.promote.error_other");
                }
            }
            (Reply::Int(_), "promote_leader") => {
                self.count("srv.promote.acquired");
                if late {
                    self.count("srv.promote.late_acquired");
                }
            }
            (Reply::Int(1), "release_lock") => self.count("srv.release.released"),
            (Reply::Error(_), _) => self.count(&format!("srv.error.{kind}")),
            _ => {}
        }
        let mut obs = self.obs.lock().unwrap_or_else(|e| e.into_inner());
        for g in new_gaps {
            if obs.gaps.len() < 32 {
                obs.gaps.push(format!("node {}: {g}", node.idx));
            }
        }
        match (before, after) {
            (Some(b), Some(a)) => {
                if a < b {
                    obs.epoch_violations.push(EpochViolation {
                        t,
                        node: node.idx,
                        incarnation,
                        before: b,
                        after: a,
                        command: kind.clone(),
                        replica: link.replica,
                    });
                }
            }
            _ => {
                if obs.gaps.len() < 32 {
                    obs.gaps.push(format!("node {}: epoch key holds a non-integer", node.idx));
                }
            }
        }
        let n_eff = effects.len();
        for (i, eff) in effects.into_iter().enumerate() {
            let Effect::Xadd { key, fields, .. } = eff;
            if key != self.keys.stream {
                continue;
            }
            let height = Self::parse_num::<u32>(Self::field(&fields, b"height"));
            let epoch = Self::parse_num::<u64>(Self::field(&fields, b"epoch"));
            let block_id = Self::field(&fields, b"data").and_then(|d| (self.decode_block_id)(d));
            obs.appends.push(AppendEvent {
                t,
                ms: self.clock.elapsed_ms(),
                node: node.idx,
                incarnation,
                replica: link.replica,
                height,
                epoch,
                block_id,
                late,
                during_leader_state: during_ls,
                via_script: kind == "write_block",
                stream_pos: stream_len.saturating_sub(n_eff - i),
            });
        }
        reply
    }

    /// Atomic snapshot of all nodes (all node locks are taken in index order; script
    /// executions only ever hold one node lock, so this cannot deadlock). With
    /// `wipe = Some(k)` node k loses all its data inside the same critical section, so
    /// the snapshot is exactly the last state before the data loss.
    pub fn dump(&self, reason: &str, wipe: Option<usize>) {
        let now_ms = self.clock.now_us() / 1000;
        let mut guards: Vec<_> = self
            .nodes
            .iter()
            .map(|n| n.inner.lock().unwrap_or_else(|e| e.into_inner()))
            .collect();
        let mut nodes = Vec::new();
        for (idx, g) in guards.iter().enumerate() {
            let stream = match g.db.peek_stream(&self.keys.stream) {
                None => Vec::new(),
                Some(s) => s
                    .entries
                    .iter()
                    .map(|e| StreamItem {
                        id: crate::store::fmt_id(e.id),
                        height: Self::parse_num::<u32>(Self::field(&e.fields, b"height")),
                        epoch: Self::parse_num::<u64>(Self::field(&e.fields, b"epoch")),
                        block_id: Self::field(&e.fields, b"data").and_then(|d| (self.decode_block_id)(d)),
                    })
                    .collect(),
            };
            nodes.push(NodeDump {
                node: idx,
                incarnation: g.incarnation,
                epoch: self.epoch_of(&g.db, now_ms),
                lock_owner: g
                    .db
                    .peek_string(&self.keys.lock, now_ms)
                    .map(|b| String::from_utf8_lossy(&b).to_string()),
                stream,
            });
        }
        if let Some(k) = wipe {
            guards[k].db.wipe();
            guards[k].incarnation += 1;
        }
        let t = self.tick();
        let mut obs = self.obs.lock().unwrap_or_else(|e| e.into_inner());
        if let Some(k) = wipe {
            obs.wipes.push((t, k));
        }
        obs.dumps.push(Dump {
            t,
            ms: self.clock.elapsed_ms(),
            reason: reason.to_string(),
            nodes,
        });
        drop(obs);
        drop(guards);
        if let Some(k) = wipe {
            // a restarting process drops all its connections
            self.nodes[k].kill.send_modify(|g| *g += 1);
        }
    }

    /// height of the newest stream entry of every node
    pub fn latest_heights(&self) -> Vec<Option<u32>> {
        self.nodes
            .iter()
            .map(|n| {
                let g = n.inner.lock().unwrap_or_else(|e| e.into_inner());
                g.db.peek_stream(&self.keys.stream)
                    .and_then(|s| s.entries.last())
                    .and_then(|e| Self::parse_num::<u32>(Self::field(&e.fields, b"height")))
            })
            .collect()
    }

    /// Lease expiry "right now" on a node: equivalent to that node's clock jumping
    /// past the lease deadline (or to all clients pausing for the rest of the TTL).
    pub fn force_expire_lock(&self, node: usize) -> bool {
        let now_ms = self.clock.now_us() / 1000;
        let mut g = self.nodes[node].inner.lock().unwrap_or_else(|e| e.into_inner());
        let has_ttl = g
            .db
            .keys
            .get(&self.keys.lock)
            .is_some_and(|e| e.expire_at.is_some_and(|t| t >= now_ms));
        if has_ttl {
            g.db.keys.remove(&self.keys.lock);
        }
        has_ttl
    }
}

fn roll(link: &Link, pct: u32) -> bool {
    if pct == 0 {
        return false;
    }
    link.rng.lock().unwrap_or_else(|e| e.into_inner()).gen_range(0..100u32) < pct
}

fn pick_ms(link: &Link, range: (u64, u64)) -> u64 {
    let (lo, hi) = range;
    if hi <= lo {
        return lo;
    }
    link.rng.lock().unwrap_or_else(|e| e.into_inner()).gen_range(lo..=hi)
}

/// Sleep unless the node restarts / link is cut meanwhile. Returns false if killed.
async fn sleep_or_kill(ms: u64, k1: &mut watch::Receiver<u64>, k2: &mut watch::Receiver<u64>) -> bool {
    tokio::select! {
        _ = tokio::time::sleep(Duration::from_millis(ms)) => true,
        _ = k1.changed() => false,
        _ = k2.changed() => false,
    }
}

async fn handle_conn(mut sock: TcpStream, shared: Arc<Shared>, link: Arc<Link>, node: Arc<Node>) {
    let _ = sock.set_nodelay(true);
    let mut node_kill = node.kill.subscribe();
    let mut link_kill = link.kill.subscribe();
    let mut shutdown = shared.shutdown.subscribe();
    let mut buf: Vec<u8> = Vec::with_capacity(4096);
    // once a request or reply was "lost in the network" the TCP stream can never
    // deliver anything again: swallow everything until the client gives up
    let mut dead = false;
    loop {
        loop {
            let (args, used) = match parse_command(&buf) {
                Frame::Command(a, u) => (a, u),
                Frame::Incomplete => break,
                Frame::Invalid(why) => {
                    let mut obs = shared.obs.lock().unwrap_or_else(|e| e.into_inner());
                    if obs.gaps.len() < 32 {
                        obs.gaps.push(format!("unparseable request on link {}->{}: {why}", link.replica, link.node));
                    }
                    return;
                }
            };
            buf.drain(..used);
            if dead || args.is_empty() {
                continue;
            }
            let mode = link.mode.lock().unwrap_or_else(|e| e.into_inner()).clone();
            if mode.blackhole || roll(&link, mode.p_drop_req) {
                shared.count("fault.request_lost");
                dead = true;
                continue;
            }
            if roll(&link, mode.p_reset_before) {
                shared.count("fault.reset_before_exec");
                return;
            }
            let mut late = false;
            let is_script = args[0].eq_ignore_ascii_case(b"EVALSHA") || args[0].eq_ignore_ascii_case(b"EVAL");
            if (is_script || !mode.delay_scripts_only) && roll(&link, mode.p_delay) {
                let d = pick_ms(&link, mode.delay_ms);
                shared.count("fault.delayed_request");
                if d > shared.client_timeout_ms + 5 {
                    late = true;
                }
                if !sleep_or_kill(d, &mut node_kill, &mut link_kill).await {
                    shared.count("fault.delayed_request_lost_in_restart");
                    return;
                }
            }
            let reply = shared.exec(&node, &link, &args, late);
            // the fault mode may have changed while the request was in flight
            let mode = link.mode.lock().unwrap_or_else(|e| e.into_inner()).clone();
            if mode.blackhole || roll(&link, mode.p_drop_reply) {
                shared.count("fault.reply_lost");
                dead = true;
                continue;
            }
            if roll(&link, mode.p_reset_after) {
                shared.count("fault.reset_after_exec");
                return;
            }
            if roll(&link, mode.p_post_delay) {
                let d = pick_ms(&link, mode.post_delay_ms);
                shared.count("fault.delayed_reply");
                if !sleep_or_kill(d, &mut node_kill, &mut link_kill).await {
                    return;
                }
            }
            let mut out = Vec::with_capacity(64);
            reply.encode(&mut out);
            if sock.write_all(&out).await.is_err() {
                shared.count("srv.reply_to_closed_socket");
                return;
            }
        }
        tokio::select! {
            r = sock.read_buf(&mut buf) => {
                match r {
                    Ok(0) | Err(_) => return,
                    Ok(_) => {}
                }
            }
            _ = node_kill.changed() => return,
            _ = link_kill.changed() => return,
            _ = shutdown.changed() => return,
        }
    }
}

async fn hold_silently(mut sock: TcpStream, shared: Arc<Shared>, link: Arc<Link>, node: Arc<Node>) {
    let mut node_kill = node.kill.subscribe();
    let mut link_kill = link.kill.subscribe();
    let mut shutdown = shared.shutdown.subscribe();
    let mut sink = [0u8; 4096];
    loop {
        tokio::select! {
            r = sock.read(&mut sink) => {
                match r {
                    Ok(0) | Err(_) => return,
                    Ok(_) => {}
                }
            }
            _ = node_kill.changed() => return,
            _ = link_kill.changed() => return,
            _ = shutdown.changed() => return,
        }
    }
}

pub async fn accept_loop(listener: TcpListener, shared: Arc<Shared>, link: Arc<Link>, node: Arc<Node>) {
    let mut shutdown = shared.shutdown.subscribe();
    loop {
        tokio::select! {
            r = listener.accept() => {
                let Ok((sock, _)) = r else { continue };
                let accept = link.mode.lock().unwrap_or_else(|e| e.into_inner()).accept;
                match accept {
                    AcceptMode::Refuse => {
                        shared.count("fault.connection_refused");
                        drop(sock);
                    }
                    AcceptMode::Blackhole => {
                        shared.count("fault.connection_blackholed");
                        tokio::spawn(hold_silently(sock, shared.clone(), link.clone(), node.clone()));
                    }
                    AcceptMode::Normal => {
                        shared.count("srv.connections");
                        tokio::spawn(handle_conn(sock, shared.clone(), link.clone(), node.clone()));
                    }
                }
            }
            _ = shutdown.changed() => return,
        }
    }
}
