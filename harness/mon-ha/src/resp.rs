//! RESP2 request framing: a client command is an array of bulk strings.

use crate::lua::Bytes;
use std::sync::Arc;

#[derive(Debug)]
pub enum Frame {
    /// a full command and the number of bytes it occupied
    Command(Vec<Bytes>, usize),
    /// need more bytes
    Incomplete,
    /// not something this server understands (inline commands, garbage)
    Invalid(String),
}

fn read_line(buf: &[u8], pos: usize) -> Option<(&[u8], usize)> {
    let rest = &buf[pos..];
    let idx = rest.windows(2).position(|w| w == b"\r\n")?;
    Some((&rest[..idx], pos + idx + 2))
}

fn parse_int(line: &[u8]) -> Option<i64> {
    std::str::from_utf8(line).ok()?.parse::<i64>().ok()
}

pub fn parse_command(buf: &[u8]) -> Frame {
    if buf.is_empty() {
        return Frame::Incomplete;
    }
    if buf[0] != b'*' {
        return Frame::Invalid(format!("expected '*', got byte {:#x}", buf[0]));
    }
    let Some((line, mut pos)) = read_line(buf, 1) else {
        return if buf.len() > 64 {
            Frame::Invalid("oversized array header".into())
        } else {
            Frame::Incomplete
        };
    };
    let Some(n) = parse_int(line) else {
        return Frame::Invalid("bad array length".into());
    };
    if !(0..=1_000_000).contains(&n) {
        return Frame::Invalid("array length out of range".into());
    }
    let mut args = Vec::with_capacity(n as usize);
    for _ in 0..n {
        if pos >= buf.len() {
            return Frame::Incomplete;
        }
        if buf[pos] != b'$' {
            return Frame::Invalid(format!("expected '$', got byte {:#x}", buf[pos]));
        }
        let Some((line, p2)) = read_line(buf, pos + 1) else {
            return if buf.len() - pos > 64 {
                Frame::Invalid("oversized bulk header".into())
            } else {
                Frame::Incomplete
            };
        };
        let Some(len) = parse_int(line) else {
            return Frame::Invalid("bad bulk length".into());
        };
        if !(0..=512 * 1024 * 1024).contains(&len) {
            return Frame::Invalid("bulk length out of range".into());
        }
        let len = len as usize;
        if buf.len() < p2 + len + 2 {
            return Frame::Incomplete;
        }
        if &buf[p2 + len..p2 + len + 2] != b"\r\n" {
            return Frame::Invalid("bulk string not terminated by CRLF".into());
        }
        args.push(Arc::from(&buf[p2..p2 + len]));
        pos = p2 + len + 2;
    }
    Frame::Command(args, pos)
}
