//! One "universe": N fake Redis nodes, R replicas each driving a real
//! `RedisLeaderLeaseAdapter` in a loop that mirrors `MainTask::try_to_produce_block`
//! (+ the importer's publish-then-commit order), and a seeded fault director.

use crate::server::{
    AcceptMode,
    Clock,
    KeyNames,
    Link,
    LinkMode,
    Node,
    NodeInner,
    Obs,
    Shared,
    accept_loop,
};
use fuel_core::service::adapters::consensus_module::poa::RedisLeaderLeaseAdapter;
use fuel_core_importer::ports::BlockReconciliationWritePort;
use fuel_core_poa::ports::{
    BlockReconciliationReadPort,
    LeaderState,
};
use fuel_core_types::{
    blockchain::{
        SealedBlock,
        block::Block,
        consensus::Consensus,
    },
    tai64::Tai64,
};
use std::{
    collections::{
        BTreeMap,
        HashMap,
    },
    sync::{
        Arc,
        Mutex,
        atomic::{
            AtomicBool,
            AtomicI64,
            AtomicU8,
            AtomicU64,
            Ordering,
        },
    },
    time::{
        Duration,
        Instant,
    },
};
use vcommon::{
    chance,
    rand::{
        Rng,
        SeedableRng,
        rngs::StdRng,
    },
    rng_for,
    serde_json::{
        Value as Json,
        json,
    },
    tag,
};

#[derive(Clone, Debug)]
pub struct UniverseCfg {
    pub seed: u64,
    pub shard: usize,
    pub n_nodes: usize,
    pub n_replicas: usize,
    pub budget: u32,
    /// the only nodes that may ever lose data (|wipeable| <= budget)
    pub wipeable: Vec<usize>,
    pub lease_ttl_ms: u64,
    pub node_timeout_ms: u64,
    pub retry_delay_ms: u64,
    pub retry_jitter_ms: u64,
    pub max_attempts: u32,
    pub block_time_ms: u64,
    pub follower_sleep_ms: u64,
    pub gossip_pct: u32,
    pub duration_ms: u64,
    pub max_ops: u64,
    /// server-side script substitution (self-test / triage only)
    pub script_patches: Vec<(String, String)>,
}

impl UniverseCfg {
    pub fn quorum(&self) -> usize {
        (self.n_nodes / 2 + 1 + self.budget as usize).min(self.n_nodes)
    }

    pub fn to_json(&self) -> Json {
        json!({
            "seed": self.seed, "shard": self.shard, "nodes": self.n_nodes, "replicas": self.n_replicas,
            "budget": self.budget, "quorum": self.quorum(), "wipeable": self.wipeable,
            "lease_ttl_ms": self.lease_ttl_ms, "node_timeout_ms": self.node_timeout_ms,
            "retry_delay_ms": self.retry_delay_ms, "retry_jitter_ms": self.retry_jitter_ms,
            "max_attempts": self.max_attempts, "block_time_ms": self.block_time_ms,
            "follower_sleep_ms": self.follower_sleep_ms, "gossip_pct": self.gossip_pct,
            "duration_ms": self.duration_ms,
            "script_patches": self.script_patches.iter().map(|(a, _)| a.clone()).collect::<Vec<_>>(),
        })
    }
}

pub fn gen_cfg(seed: u64, shard: usize, duration_ms: u64) -> UniverseCfg {
    let mut rng = rng_for(seed, &[tag("cfg"), shard as u64]);
    // (nodes, budget): shapes rotate with the shard index so that every run has both
    // budget-0 universes and universes where data loss is allowed
    let shapes: [(usize, u32); 8] = [(3, 0), (5, 1), (3, 0), (3, 1), (5, 0), (4, 1), (3, 0), (5, 2)];
    let (n_nodes, budget) = shapes[(shard + (seed % 8) as usize) % shapes.len()];
    let n_replicas = if rng.gen_range(0..100) < 60 { 3 } else { 2 };
    let mut wipeable = Vec::new();
    while wipeable.len() < budget as usize {
        let k = rng.gen_range(0..n_nodes);
        if !wipeable.contains(&k) {
            wipeable.push(k);
        }
    }
    wipeable.sort();
    let node_timeout_ms = rng.gen_range(30..=50);
    UniverseCfg {
        seed,
        shard,
        n_nodes,
        n_replicas,
        budget,
        wipeable,
        lease_ttl_ms: rng.gen_range(150..=300),
        node_timeout_ms,
        retry_delay_ms: rng.gen_range(10..=30),
        retry_jitter_ms: rng.gen_range(0..=20),
        max_attempts: rng.gen_range(1..=3),
        block_time_ms: rng.gen_range(4..=20),
        follower_sleep_ms: rng.gen_range(10..=40),
        gossip_pct: *vcommon::pick(&mut rng, &[0u32, 30, 70, 100]),
        duration_ms,
        max_ops: 200_000,
        script_patches: Vec::new(),
    }
}

// ---------------------------------------------------------------------------
// fault schedule
// ---------------------------------------------------------------------------

#[derive(Clone, Debug)]
pub enum Target {
    Fixed(usize),
    Leader,
    NonLeader,
}

#[derive(Clone, Copy, Debug, PartialEq)]
pub enum CutStyle {
    Refuse,
    Blackhole,
    ReplyLoss,
}

#[derive(Clone, Copy, Debug, PartialEq)]
pub enum CrashKind {
    Hard = 1,
    Graceful = 2,
    AfterPublish = 3,
}

#[derive(Clone, Debug)]
pub enum Pattern {
    Calm,
    SlowLink { replica: Target, node: usize, pct: u32, lo: u64, hi: u64, scripts_only: bool },
    SlowNode { node: usize, pct: u32, lo: u64, hi: u64, scripts_only: bool },
    Jitter { pct: u32, hi: u64 },
    Partition { replica: Target, nodes: Vec<usize>, style: CutStyle },
    Isolate { replica: Target, style: CutStyle },
    Expire { nodes: Vec<usize>, repeats: u32 },
    Wipe { node: usize },
    Crash { replica: Target, how: CrashKind },
    Reset { replica: Target, pct: u32 },
    Flaky { drop_req: u32, drop_reply: u32, reset: u32 },
    /// adaptive: cut the current leader off, expire all leases and let the other
    /// replicas see only the quorum-sized set of nodes whose streams end lowest
    LaggingView { style: CutStyle },
}

impl Pattern {
    pub fn kind(&self) -> &'static str {
        match self {
            Pattern::Calm => "calm",
            Pattern::SlowLink { .. } => "slow_link",
            Pattern::SlowNode { .. } => "slow_node",
            Pattern::Jitter { .. } => "jitter",
            Pattern::Partition { .. } => "partition",
            Pattern::Isolate { .. } => "isolate",
            Pattern::Expire { .. } => "expire",
            Pattern::Wipe { .. } => "wipe",
            Pattern::Crash { .. } => "crash",
            Pattern::Reset { .. } => "reset",
            Pattern::Flaky { .. } => "flaky",
            Pattern::LaggingView { .. } => "lagging_view",
        }
    }

    /// shape descriptor used for "distinct fault patterns" (no raw delays)
    pub fn shape(&self) -> String {
        match self {
            Pattern::Calm => "calm".into(),
            Pattern::SlowLink { replica, pct, scripts_only, .. } => {
                format!("slow_link({replica:?},p{},s{})", pct / 25, *scripts_only as u8)
            }
            Pattern::SlowNode { pct, scripts_only, .. } => format!("slow_node(p{},s{})", pct / 25, *scripts_only as u8),
            Pattern::Jitter { pct, .. } => format!("jitter(p{})", pct / 25),
            Pattern::Partition { replica, nodes, style } => {
                format!("partition({replica:?},n{},{style:?})", nodes.len())
            }
            Pattern::Isolate { replica, style } => format!("isolate({replica:?},{style:?})"),
            Pattern::Expire { nodes, repeats } => format!("expire(n{},x{repeats})", nodes.len()),
            Pattern::Wipe { .. } => "wipe".into(),
            Pattern::Crash { replica, how } => format!("crash({replica:?},{how:?})"),
            Pattern::Reset { replica, .. } => format!("reset({replica:?})"),
            Pattern::Flaky { .. } => "flaky".into(),
            Pattern::LaggingView { style } => format!("lagging_view({style:?})"),
        }
    }
}

#[derive(Clone, Debug)]
pub struct Phase {
    pub dur_ms: u64,
    pub patterns: Vec<Pattern>,
}

fn gen_target(rng: &mut StdRng, n_replicas: usize) -> Target {
    match rng.gen_range(0..10) {
        0..=4 => Target::Leader,
        5..=6 => Target::NonLeader,
        _ => Target::Fixed(rng.gen_range(0..n_replicas)),
    }
}

fn gen_subset(rng: &mut StdRng, n: usize, min: usize, max: usize) -> Vec<usize> {
    let want = rng.gen_range(min..=max.min(n));
    let mut v: Vec<usize> = (0..n).collect();
    for i in 0..n {
        let j = rng.gen_range(i..n);
        v.swap(i, j);
    }
    v.truncate(want);
    v.sort();
    v
}

fn gen_style(rng: &mut StdRng) -> CutStyle {
    match rng.gen_range(0..3) {
        0 => CutStyle::Refuse,
        1 => CutStyle::Blackhole,
        _ => CutStyle::ReplyLoss,
    }
}

fn gen_pattern(rng: &mut StdRng, cfg: &UniverseCfg) -> Pattern {
    let to = cfg.node_timeout_ms;
    let n = cfg.n_nodes;
    loop {
        return match rng.gen_range(0..100) {
            0..=7 => Pattern::Calm,
            8..=25 => Pattern::SlowLink {
                replica: gen_target(rng, cfg.n_replicas),
                node: rng.gen_range(0..n),
                pct: *vcommon::pick(rng, &[30u32, 60, 100]),
                lo: to + to / 4,
                hi: to * rng.gen_range(2..=5),
                scripts_only: rng.gen_range(0..100) < 75,
            },
            26..=32 => Pattern::SlowNode {
                node: rng.gen_range(0..n),
                pct: *vcommon::pick(rng, &[30u32, 60, 100]),
                lo: to + to / 4,
                hi: to * rng.gen_range(2..=4),
                scripts_only: rng.gen_range(0..100) < 75,
            },
            33..=39 => Pattern::Jitter {
                pct: *vcommon::pick(rng, &[30u32, 60, 90]),
                hi: (to * 8 / 10).max(2),
            },
            40..=50 => Pattern::Partition {
                replica: gen_target(rng, cfg.n_replicas),
                nodes: gen_subset(rng, n, 1, n - 1),
                style: gen_style(rng),
            },
            51..=57 => Pattern::Isolate {
                replica: gen_target(rng, cfg.n_replicas),
                style: gen_style(rng),
            },
            58..=68 => Pattern::Expire {
                nodes: gen_subset(rng, n, 1, n),
                repeats: rng.gen_range(1..=3),
            },
            69..=74 => {
                if cfg.wipeable.is_empty() {
                    continue;
                }
                Pattern::Wipe {
                    node: *vcommon::pick(rng, &cfg.wipeable),
                }
            }
            75..=82 => Pattern::Crash {
                replica: gen_target(rng, cfg.n_replicas),
                how: match rng.gen_range(0..3) {
                    0 => CrashKind::Hard,
                    1 => CrashKind::Graceful,
                    _ => CrashKind::AfterPublish,
                },
            },
            83..=86 => Pattern::Reset {
                replica: gen_target(rng, cfg.n_replicas),
                pct: *vcommon::pick(rng, &[5u32, 20]),
            },
            87..=90 => Pattern::Flaky {
                drop_req: rng.gen_range(0..=6),
                drop_reply: rng.gen_range(0..=6),
                reset: rng.gen_range(0..=4),
            },
            91..=95 => Pattern::LaggingView {
                style: if rng.gen_range(0..2) == 0 { CutStyle::Refuse } else { CutStyle::Blackhole },
            },
            _ => Pattern::Calm,
        };
    }
}

pub fn gen_phases(cfg: &UniverseCfg) -> Vec<Phase> {
    let mut rng = rng_for(cfg.seed, &[tag("phases"), cfg.shard as u64]);
    let mut phases = Vec::new();
    let mut total = 0u64;
    // warm-up: let somebody get elected and produce a few blocks
    phases.push(Phase {
        dur_ms: 400,
        patterns: vec![Pattern::Calm],
    });
    total += 400;
    while total < cfg.duration_ms {
        let dur = rng.gen_range(120..=(cfg.lease_ttl_ms * 3).max(200));
        let prev_slow = phases
            .last()
            .is_some_and(|p: &Phase| p.patterns.iter().any(|x| matches!(x, Pattern::SlowLink { .. } | Pattern::SlowNode { .. })));
        if prev_slow && rng.gen_range(0..100) < 20 {
            // a reordering phase directly followed by a partial-view takeover
            phases.push(Phase {
                dur_ms: dur,
                patterns: vec![Pattern::LaggingView {
                    style: if rng.gen_range(0..2) == 0 { CutStyle::Refuse } else { CutStyle::Blackhole },
                }],
            });
            total += dur;
            continue;
        }
        let mut patterns = vec![gen_pattern(&mut rng, cfg)];
        if rng.gen_range(0..100) < 45 {
            patterns.push(gen_pattern(&mut rng, cfg));
        }
        if rng.gen_range(0..100) < 15 {
            patterns.push(gen_pattern(&mut rng, cfg));
        }
        phases.push(Phase { dur_ms: dur, patterns });
        total += dur;
    }
    phases
}

// ---------------------------------------------------------------------------
// universe state
// ---------------------------------------------------------------------------

#[derive(Clone, Copy, Debug, PartialEq)]
pub enum Via {
    Publish,
    Reconcile,
    Gossip,
}

#[derive(Clone, Debug)]
pub struct Commit {
    pub t: u64,
    pub ms: u64,
    pub replica: usize,
    pub height: u32,
    pub block_id: String,
    pub via: Via,
    pub adapter_gen: u32,
}

pub struct Universe {
    pub cfg: UniverseCfg,
    pub shared: Arc<Shared>,
    pub commits: Mutex<Vec<Commit>>,
    /// "p2p": first block id committed through the adapter path at each height
    pub gossip: Mutex<BTreeMap<u32, String>>,
    pub crash_req: Vec<AtomicU8>,
    pub leader_hint: AtomicI64,
    pub stop: AtomicBool,
    pub harness_errors: Mutex<Vec<String>>,
    pub block_ids_built: Mutex<HashMap<String, (usize, u32)>>,
    pub attempt_counter: AtomicU64,
}

pub fn decode_block_id(data: &[u8]) -> Option<String> {
    postcard::from_bytes::<SealedBlock>(data)
        .ok()
        .map(|b| hex::encode(&b.entity.id().as_slice()[..10]))
}

fn build_block(height: u32, unique: u64) -> SealedBlock {
    let mut block = Block::default();
    block.header_mut().set_block_height(height.into());
    block.header_mut().set_time(Tai64(unique));
    block.header_mut().recalculate_metadata();
    SealedBlock {
        entity: block,
        consensus: Consensus::PoA(Default::default()),
    }
}

pub fn block_id_of(b: &SealedBlock) -> String {
    hex::encode(&b.entity.id().as_slice()[..10])
}

pub struct Setup {
    pub universe: Arc<Universe>,
    pub phases: Vec<Phase>,
}

const LEASE_KEY: &str = "poa:verif:lock";

pub fn setup(cfg: UniverseCfg, server_rt: &tokio::runtime::Handle) -> Result<Setup, String> {
    let (shutdown, _) = tokio::sync::watch::channel(false);
    let mut nodes = Vec::new();
    for idx in 0..cfg.n_nodes {
        let mut db = crate::store::Db::new();
        for (sha, text) in &cfg.script_patches {
            db.script_patches.insert(sha.clone(), crate::lua::bytes(text.as_bytes()));
        }
        let (kill, _) = tokio::sync::watch::channel(0u64);
        nodes.push(Arc::new(Node {
            idx,
            inner: Mutex::new(NodeInner { db, incarnation: 0 }),
            kill,
        }));
    }
    // bind one listener per (replica, node)
    let mut listeners = Vec::new();
    let mut links: Vec<Vec<Arc<Link>>> = Vec::new();
    for r in 0..cfg.n_replicas {
        let mut row = Vec::new();
        for k in 0..cfg.n_nodes {
            let listener = server_rt
                .block_on(tokio::net::TcpListener::bind("127.0.0.1:0"))
                .map_err(|e| format!("bind: {e}"))?;
            let port = listener.local_addr().map_err(|e| format!("local_addr: {e}"))?.port();
            let (kill, _) = tokio::sync::watch::channel(0u64);
            let link = Arc::new(Link {
                replica: r,
                node: k,
                port,
                mode: Mutex::new(LinkMode::default()),
                rng: Mutex::new(StdRng::seed_from_u64(vcommon::mix(
                    cfg.seed,
                    &[tag("link"), cfg.shard as u64, r as u64, k as u64],
                ))),
                kill,
            });
            listeners.push((listener, link.clone(), k));
            row.push(link);
        }
        links.push(row);
    }
    let mut script_kinds = HashMap::new();
    for (name, text) in [
        ("check_lease_owner", crate::conform::CHECK_LEASE_OWNER),
        ("release_lock", crate::conform::RELEASE_LOCK),
        ("promote_leader", crate::conform::PROMOTE_LEADER),
        ("write_block", crate::conform::WRITE_BLOCK),
        ("read_stream_entries", crate::conform::READ_STREAM_ENTRIES),
        ("read_latest_stream_entry", crate::conform::READ_LATEST_STREAM_ENTRY),
    ] {
        script_kinds.insert(crate::sha1::sha1_hex(text.as_bytes()), name);
    }
    let shared = Arc::new(Shared {
        clock: Clock::new(),
        nodes: nodes.clone(),
        links,
        obs: Mutex::new(Obs::default()),
        counters: Mutex::new(BTreeMap::new()),
        shutdown,
        logical: AtomicU64::new(0),
        in_leader_state: (0..cfg.n_replicas).map(|_| AtomicBool::new(false)).collect(),
        next_heights: (0..cfg.n_replicas).map(|_| std::sync::atomic::AtomicU32::new(1)).collect(),
        keys: KeyNames {
            lock: LEASE_KEY.as_bytes().to_vec(),
            epoch: format!("{LEASE_KEY}:epoch:token").into_bytes(),
            stream: format!("{LEASE_KEY}:block:stream").into_bytes(),
        },
        script_kinds,
        client_timeout_ms: cfg.node_timeout_ms,
        decode_block_id,
    });
    for (listener, link, k) in listeners {
        server_rt.spawn(accept_loop(listener, shared.clone(), link, nodes[k].clone()));
    }
    let phases = gen_phases(&cfg);
    let universe = Arc::new(Universe {
        crash_req: (0..cfg.n_replicas).map(|_| AtomicU8::new(0)).collect(),
        cfg,
        shared,
        commits: Mutex::new(Vec::new()),
        gossip: Mutex::new(BTreeMap::new()),
        leader_hint: AtomicI64::new(-1),
        stop: AtomicBool::new(false),
        harness_errors: Mutex::new(Vec::new()),
        block_ids_built: Mutex::new(HashMap::new()),
        attempt_counter: AtomicU64::new(1),
    });
    Ok(Setup { universe, phases })
}

impl Universe {
    pub fn new_adapter(&self, r: usize) -> Result<RedisLeaderLeaseAdapter, String> {
        let urls: Vec<String> = self.shared.links[r]
            .iter()
            .map(|l| format!("redis://127.0.0.1:{}/", l.port))
            .collect();
        let c = &self.cfg;
        RedisLeaderLeaseAdapter::new(
            urls,
            LEASE_KEY.to_string(),
            Duration::from_millis(c.lease_ttl_ms),
            Duration::from_millis(c.node_timeout_ms),
            Duration::from_millis(c.retry_delay_ms),
            Duration::from_millis(c.retry_jitter_ms),
            c.max_attempts,
            // far above anything a universe can produce: XTRIM never removes entries,
            // which is the only regime in which the emulation of `MAXLEN ~` is exact
            1_000_000,
        )
        .map(|a| a.with_quorum_disruption_budget(c.budget))
        .map_err(|e| format!("adapter construction failed: {e}"))
    }

    pub fn harness_error(&self, s: String) {
        let mut l = self.harness_errors.lock().unwrap_or_else(|e| e.into_inner());
        if l.len() < 10 {
            l.push(s);
        }
    }

    pub fn commit(&self, replica: usize, height: u32, block_id: String, via: Via, adapter_gen: u32) {
        let t = self.shared.tick();
        let ms = self.shared.clock.elapsed_ms();
        if via != Via::Gossip {
            self.gossip
                .lock()
                .unwrap_or_else(|e| e.into_inner())
                .entry(height)
                .or_insert_with(|| block_id.clone());
        }
        self.commits.lock().unwrap_or_else(|e| e.into_inner()).push(Commit {
            t,
            ms,
            replica,
            height,
            block_id,
            via,
            adapter_gen,
        });
    }
}

pub fn sleep_ms(ms: u64) {
    std::thread::sleep(Duration::from_millis(ms));
}

/// Local state of one replica (what survives an adapter crash: the chain database).
pub struct ReplicaState {
    pub r: usize,
    pub next: u32,
    pub was_leader: bool,
    pub adapter_gen: u32,
    pub crash_after_publish: bool,
}

#[derive(Debug, Clone, PartialEq)]
pub enum StepOutcome {
    Follower,
    LeaderStateErr(String),
    Published(u32, String),
    PublishedThenCrashed(u32, String),
    PublishFailed(u32, String),
    Reconciled(Vec<(u32, String)>),
    Watchdog,
}

pub const WATCHDOG: Duration = Duration::from_secs(30);

impl Universe {
    /// Replace a replica's adapter by a fresh one (new lease-owner token), as a process
    /// restart does. `graceful` drops the old adapter inside the runtime, which makes
    /// its `Drop` spawn the bounded asynchronous lease release (clean shutdown);
    /// otherwise nothing of the old instance runs any more (kill -9) and the lease
    /// stays until it expires.
    pub fn recreate_adapter(
        &self,
        r: usize,
        adapter: &mut RedisLeaderLeaseAdapter,
        graceful: bool,
        rt: &tokio::runtime::Runtime,
    ) -> bool {
        match self.new_adapter(r) {
            Ok(fresh) => {
                let old = std::mem::replace(adapter, fresh);
                if graceful {
                    let _g = rt.enter();
                    drop(old);
                } else {
                    std::mem::forget(old);
                }
                true
            }
            Err(e) => {
                self.harness_error(e);
                false
            }
        }
    }

    pub fn gossip_import(&self, st: &mut ReplicaState, max_blocks: u32) -> u32 {
        let mut n = 0;
        while n < max_blocks {
            let id = self.gossip.lock().unwrap_or_else(|e| e.into_inner()).get(&st.next).cloned();
            let Some(id) = id else { break };
            self.commit(st.r, st.next, id, Via::Gossip, st.adapter_gen);
            self.shared.count("replica.gossip_import");
            st.next += 1;
            n += 1;
        }
        n
    }

    /// One iteration of the replica loop. Mirrors, in this order, what the PoA
    /// `MainTask::try_to_produce_block` and the importer do: ask the reconciliation
    /// port for the leader state at `next_height`; as follower idle; as reconciled
    /// leader produce a fresh block for `next_height`, publish it and commit it locally
    /// **only if** the publish succeeded (on failure release the lease); as
    /// unreconciled leader import the returned blocks in order, skipping heights the
    /// local chain already has. `before_publish` lets a directed scenario change the
    /// network between the two calls; it is a no-op in the random universes.
    pub fn replica_step(
        &self,
        st: &mut ReplicaState,
        adapter: &mut RedisLeaderLeaseAdapter,
        rt: &tokio::runtime::Runtime,
        before_publish: &mut dyn FnMut(),
    ) -> StepOutcome {
        let sh = &self.shared;
        let r = st.r;
        sh.next_heights[r].store(st.next, Ordering::SeqCst);
        sh.in_leader_state[r].store(true, Ordering::SeqCst);
        let state = rt.block_on(async { tokio::time::timeout(WATCHDOG, adapter.leader_state(st.next.into())).await });
        sh.in_leader_state[r].store(false, Ordering::SeqCst);
        let state = match state {
            Err(_) => {
                self.harness_error(format!("replica {r}: leader_state exceeded the {WATCHDOG:?} watchdog"));
                return StepOutcome::Watchdog;
            }
            Ok(s) => s,
        };
        match state {
            Err(e) => {
                let msg = e.to_string();
                let class = if msg.contains("Backlog unresolved") {
                    "backlog_unresolved"
                } else if msg.contains("Cannot reconcile") {
                    "cannot_reconcile"
                } else {
                    "other"
                };
                sh.count(&format!("replica.leader_state.err.{class}"));
                StepOutcome::LeaderStateErr(msg)
            }
            Ok(LeaderState::ReconciledFollower) => {
                sh.count("replica.leader_state.follower");
                if st.was_leader {
                    sh.count("replica.lost_leadership");
                    let _ = self.leader_hint.compare_exchange(r as i64, -1, Ordering::SeqCst, Ordering::SeqCst);
                }
                st.was_leader = false;
                StepOutcome::Follower
            }
            Ok(LeaderState::ReconciledLeader) => {
                sh.count("replica.leader_state.leader");
                if !st.was_leader {
                    sh.count("replica.elections");
                    st.was_leader = true;
                }
                self.leader_hint.store(r as i64, Ordering::SeqCst);
                let unique = self.attempt_counter.fetch_add(1, Ordering::SeqCst);
                let block = build_block(st.next, unique);
                let id = block_id_of(&block);
                {
                    let mut built = self.block_ids_built.lock().unwrap_or_else(|e| e.into_inner());
                    if built.insert(id.clone(), (r, st.next)).is_some() {
                        self.harness_error(format!("block id {id} built twice"));
                    }
                }
                before_publish();
                sh.count("replica.publish.attempt");
                match adapter.publish_produced_block(&block) {
                    Ok(()) => {
                        sh.count("replica.publish.ok");
                        let h = st.next;
                        if st.crash_after_publish {
                            // the process dies between the quorum publish and the local
                            // database commit: the block is *not* in the local chain
                            st.crash_after_publish = false;
                            sh.count("replica.crash.after_publish");
                            if self.recreate_adapter(r, adapter, false, rt) {
                                st.adapter_gen += 1;
                            }
                            st.was_leader = false;
                            StepOutcome::PublishedThenCrashed(h, id)
                        } else {
                            self.commit(r, h, id.clone(), Via::Publish, st.adapter_gen);
                            st.next += 1;
                            StepOutcome::Published(h, id)
                        }
                    }
                    Err(_) => {
                        sh.count("replica.publish.err");
                        let rel = rt.block_on(async { tokio::time::timeout(WATCHDOG, adapter.release()).await });
                        match rel {
                            Err(_) => {
                                self.harness_error(format!("replica {r}: release exceeded the watchdog"));
                                return StepOutcome::Watchdog;
                            }
                            Ok(Ok(())) => sh.count("replica.release.ok"),
                            Ok(Err(_)) => sh.count("replica.release.err"),
                        }
                        StepOutcome::PublishFailed(st.next, id)
                    }
                }
            }
            Ok(LeaderState::UnreconciledBlocks(blocks)) => {
                sh.count("replica.leader_state.unreconciled");
                if !st.was_leader {
                    sh.count("replica.elections");
                    st.was_leader = true;
                }
                self.leader_hint.store(r as i64, Ordering::SeqCst);
                let mut imported = Vec::new();
                for b in blocks {
                    let h = u32::from(*b.entity.header().height());
                    if h < st.next {
                        sh.count("replica.reconcile.skip_already_have");
                        continue;
                    }
                    if h != st.next {
                        // the importer rejects a block that does not extend the chain
                        sh.count("replica.reconcile.skip_not_next");
                        continue;
                    }
                    let id = block_id_of(&b);
                    self.commit(r, h, id.clone(), Via::Reconcile, st.adapter_gen);
                    sh.count("replica.reconcile.imported");
                    imported.push((h, id));
                    st.next += 1;
                }
                StepOutcome::Reconciled(imported)
            }
        }
    }
}

pub fn new_replica_runtime() -> Result<tokio::runtime::Runtime, String> {
    tokio::runtime::Builder::new_multi_thread()
        .worker_threads(1)
        .enable_all()
        .build()
        .map_err(|e| format!("replica runtime: {e}"))
}

/// Free-running replica of the random universes.
pub fn replica_main(u: Arc<Universe>, r: usize) {
    let rt = match new_replica_runtime() {
        Ok(rt) => rt,
        Err(e) => {
            u.harness_error(e);
            return;
        }
    };
    let mut adapter = match u.new_adapter(r) {
        Ok(a) => a,
        Err(e) => {
            u.harness_error(e);
            return;
        }
    };
    let sh = u.shared.clone();
    let cfg = u.cfg.clone();
    let mut rng = rng_for(cfg.seed, &[tag("replica"), cfg.shard as u64, r as u64]);
    let mut st = ReplicaState {
        r,
        next: 1,
        was_leader: false,
        adapter_gen: 0,
        crash_after_publish: false,
    };
    let started = Instant::now();
    for _op in 0..cfg.max_ops {
        if u.stop.load(Ordering::SeqCst) || started.elapsed().as_millis() as u64 > cfg.duration_ms {
            break;
        }
        match u.crash_req[r].swap(0, Ordering::SeqCst) {
            1 => {
                sh.count("replica.crash.hard");
                if !u.recreate_adapter(r, &mut adapter, false, &rt) {
                    break;
                }
                st.adapter_gen += 1;
                st.was_leader = false;
                sleep_ms(rng.gen_range(0..=cfg.lease_ttl_ms));
            }
            2 => {
                sh.count("replica.crash.graceful");
                if !u.recreate_adapter(r, &mut adapter, true, &rt) {
                    break;
                }
                st.adapter_gen += 1;
                st.was_leader = false;
                sleep_ms(rng.gen_range(0..=cfg.block_time_ms * 3));
            }
            3 => st.crash_after_publish = true,
            _ => {}
        }
        // p2p: blocks committed elsewhere may reach the local chain at any time
        if cfg.gossip_pct > 0 && chance(&mut rng, cfg.gossip_pct) {
            let burst = if chance(&mut rng, 70) { u32::MAX } else { rng.gen_range(1..=3) };
            u.gossip_import(&mut st, burst);
        }
        match u.replica_step(&mut st, &mut adapter, &rt, &mut || {}) {
            StepOutcome::Watchdog => break,
            StepOutcome::Follower => sleep_ms(cfg.follower_sleep_ms),
            StepOutcome::LeaderStateErr(_) | StepOutcome::PublishFailed(..) => sleep_ms(cfg.block_time_ms.max(5)),
            StepOutcome::Published(..) => sleep_ms(cfg.block_time_ms),
            StepOutcome::PublishedThenCrashed(..) => sleep_ms(rng.gen_range(0..=cfg.lease_ttl_ms)),
            StepOutcome::Reconciled(_) => {}
        }
    }
    // shutdown: graceful drop inside the runtime, give the release task a moment
    {
        let _g = rt.enter();
        drop(adapter);
    }
    rt.shutdown_timeout(Duration::from_millis(300));
}

// ---------------------------------------------------------------------------
// director
// ---------------------------------------------------------------------------

fn resolve(t: &Target, u: &Universe, rng: &mut StdRng) -> usize {
    let n = u.cfg.n_replicas;
    let leader = u.leader_hint.load(Ordering::SeqCst);
    match t {
        Target::Fixed(r) => *r % n,
        Target::Leader => {
            if leader >= 0 {
                leader as usize % n
            } else {
                rng.gen_range(0..n)
            }
        }
        Target::NonLeader => {
            let cands: Vec<usize> = (0..n).filter(|r| *r as i64 != leader).collect();
            if cands.is_empty() { 0 } else { cands[rng.gen_range(0..cands.len())] }
        }
    }
}

fn cut(mode: &mut LinkMode, style: CutStyle) {
    match style {
        CutStyle::Refuse => {
            mode.accept = AcceptMode::Refuse;
            mode.blackhole = true;
        }
        CutStyle::Blackhole => {
            mode.accept = AcceptMode::Blackhole;
            mode.blackhole = true;
        }
        CutStyle::ReplyLoss => {
            // requests get through and are executed, replies never come back
            mode.p_drop_reply = 100;
        }
    }
}

/// number of lease promotions and block writes executed by the nodes so far
fn activity(sh: &Shared) -> u64 {
    let c = sh.counters.lock().unwrap_or_else(|e| e.into_inner());
    c.get("srv.cmd.write_block").copied().unwrap_or(0) + c.get("srv.cmd.promote_leader").copied().unwrap_or(0)
}

pub struct DirectorLog {
    pub applied: Vec<Json>,
    pub shapes: Vec<String>,
}

/// Runs the fault schedule; returns what was applied. Every loop is bounded by the
/// pre-generated phase list.
pub fn direct(u: &Arc<Universe>, phases: &[Phase], report: &vcommon::Report) -> DirectorLog {
    let sh = &u.shared;
    let cfg = &u.cfg;
    let mut rng = rng_for(cfg.seed, &[tag("director"), cfg.shard as u64]);
    let mut log = DirectorLog {
        applied: Vec::new(),
        shapes: Vec::new(),
    };
    let start = Instant::now();
    let mut last_dump = Instant::now();
    for (pi, phase) in phases.iter().enumerate() {
        if start.elapsed().as_millis() as u64 >= cfg.duration_ms {
            break;
        }
        // build the complete link-mode matrix for this phase
        let mut modes: Vec<Vec<LinkMode>> = (0..cfg.n_replicas)
            .map(|_| (0..cfg.n_nodes).map(|_| LinkMode::default()).collect())
            .collect();
        let mut expire: Vec<(Vec<usize>, u32)> = Vec::new();
        let mut kill_links: Vec<(usize, usize)> = Vec::new();
        let mut descr = Vec::new();
        for p in &phase.patterns {
            report.count(&format!("fault.pattern.{}", p.kind()));
            sh.count(&format!("director.pattern.{}", p.kind()));
            match p {
                Pattern::Calm => {}
                Pattern::SlowLink { replica, node, pct, lo, hi, scripts_only } => {
                    let r = resolve(replica, u, &mut rng);
                    let m = &mut modes[r][*node];
                    m.p_delay = *pct;
                    m.delay_ms = (*lo, *hi);
                    m.delay_scripts_only = *scripts_only;
                    descr.push(json!({"slow_link": [r, node], "pct": pct, "ms": [lo, hi], "scripts_only": scripts_only}));
                }
                Pattern::SlowNode { node, pct, lo, hi, scripts_only } => {
                    for row in modes.iter_mut() {
                        row[*node].p_delay = *pct;
                        row[*node].delay_ms = (*lo, *hi);
                        row[*node].delay_scripts_only = *scripts_only;
                    }
                    descr.push(json!({"slow_node": node, "pct": pct, "ms": [lo, hi], "scripts_only": scripts_only}));
                }
                Pattern::Jitter { pct, hi } => {
                    for row in modes.iter_mut() {
                        for m in row.iter_mut() {
                            if m.p_delay == 0 {
                                m.p_delay = *pct;
                                m.delay_ms = (0, *hi);
                            }
                        }
                    }
                    descr.push(json!({"jitter": pct, "max_ms": hi}));
                }
                Pattern::Partition { replica, nodes, style } => {
                    let r = resolve(replica, u, &mut rng);
                    for k in nodes {
                        cut(&mut modes[r][*k], *style);
                        if *style != CutStyle::ReplyLoss {
                            kill_links.push((r, *k));
                        }
                    }
                    sh.count("director.partitions");
                    descr.push(json!({"partition": r, "nodes": nodes, "style": format!("{style:?}")}));
                }
                Pattern::Isolate { replica, style } => {
                    let r = resolve(replica, u, &mut rng);
                    for k in 0..cfg.n_nodes {
                        cut(&mut modes[r][k], *style);
                        if *style != CutStyle::ReplyLoss {
                            kill_links.push((r, k));
                        }
                    }
                    sh.count("director.partitions");
                    descr.push(json!({"isolate": r, "style": format!("{style:?}")}));
                }
                Pattern::Expire { nodes, repeats } => {
                    expire.push((nodes.clone(), *repeats));
                    descr.push(json!({"expire": nodes, "repeats": repeats}));
                }
                Pattern::Wipe { node } => {
                    // only nodes of the fixed wipeable set (|set| <= budget) ever lose data
                    if cfg.wipeable.contains(node) {
                        sh.dump(&format!("before wipe of node {node}"), Some(*node));
                        sh.count("director.wipes");
                        descr.push(json!({"wipe": node}));
                    }
                }
                Pattern::Crash { replica, how } => {
                    let r = resolve(replica, u, &mut rng);
                    u.crash_req[r].store(*how as u8, Ordering::SeqCst);
                    descr.push(json!({"crash": r, "how": format!("{how:?}")}));
                }
                Pattern::Reset { replica, pct } => {
                    let r = resolve(replica, u, &mut rng);
                    for k in 0..cfg.n_nodes {
                        modes[r][k].p_reset_before = *pct;
                        modes[r][k].p_reset_after = *pct;
                        kill_links.push((r, k));
                    }
                    descr.push(json!({"reset": r, "pct": pct}));
                }
                Pattern::LaggingView { style } => {
                    let mut tails: Vec<(u32, u32, usize)> = sh
                        .latest_heights()
                        .into_iter()
                        .enumerate()
                        .map(|(k, h)| (h.unwrap_or(0), rng.gen_range(0..1000u32), k))
                        .collect();
                    tails.sort();
                    let view: Vec<usize> = tails.iter().take(cfg.quorum()).map(|t| t.2).collect();
                    let leader = u.leader_hint.load(Ordering::SeqCst);
                    for r in 0..cfg.n_replicas {
                        for k in 0..cfg.n_nodes {
                            if r as i64 == leader || !view.contains(&k) {
                                cut(&mut modes[r][k], *style);
                                kill_links.push((r, k));
                            }
                        }
                    }
                    expire.push(((0..cfg.n_nodes).collect(), 1));
                    sh.count("director.partitions");
                    descr.push(json!({"lagging_view": view, "cut_leader": leader, "tails": tails.iter().map(|t| (t.2, t.0)).collect::<Vec<_>>()}));
                }
                Pattern::Flaky { drop_req, drop_reply, reset } => {
                    for row in modes.iter_mut() {
                        for m in row.iter_mut() {
                            m.p_drop_req = m.p_drop_req.max(*drop_req);
                            m.p_drop_reply = m.p_drop_reply.max(*drop_reply);
                            m.p_reset_before = m.p_reset_before.max(*reset);
                        }
                    }
                    descr.push(json!({"flaky": [drop_req, drop_reply, reset]}));
                }
            }
        }
        for (r, row) in modes.into_iter().enumerate() {
            for (k, m) in row.into_iter().enumerate() {
                sh.links[r][k].set_mode(m);
            }
        }
        for (r, k) in kill_links {
            sh.links[r][k].kill_connections();
        }
        let shape: Vec<String> = phase.patterns.iter().map(|p| p.shape()).collect();
        let shape = format!("N{}R{}b{}:{}", cfg.n_nodes, cfg.n_replicas, cfg.budget, shape.join("+"));
        let all_calm = phase.patterns.iter().all(|p| matches!(p, Pattern::Calm));
        let activity_before = activity(sh);
        log.applied.push(json!({"phase": pi, "at_ms": start.elapsed().as_millis() as u64, "dur_ms": phase.dur_ms, "faults": descr}));

        // let the phase run; forced expiries are spread over it
        let phase_start = Instant::now();
        let slices = 6u64;
        for s in 0..slices {
            for (nodes, repeats) in &expire {
                if s < *repeats as u64 {
                    for k in nodes {
                        if sh.force_expire_lock(*k) {
                            sh.count("director.forced_expiries");
                        }
                    }
                }
            }
            let target = phase.dur_ms * (s + 1) / slices;
            let done = phase_start.elapsed().as_millis() as u64;
            if target > done {
                sleep_ms(target - done);
            }
            if last_dump.elapsed() > Duration::from_millis(400) {
                sh.dump("periodic", None);
                last_dump = Instant::now();
            }
        }
        // a fault phase is a non-trivial case only if the protocol was active under it
        if !all_calm && activity(sh) > activity_before {
            log.shapes.push(shape);
        }
    }
    // heal everything and let the replicas finish their current step
    for row in &sh.links {
        for l in row {
            l.set_mode(LinkMode::default());
        }
    }
    log
}
