//! C41 — services start and stop cleanly under any interleaving.
//!
//! Drives the real `fuel_core_services::ServiceRunner` over a scripted
//! `RunnableService`/`RunnableTask` with 1–3 client tasks issuing
//! start/stop/await requests in seeded orders, in two modes:
//!   * deterministic: current-thread runtime, paused (virtual) time, seeded yields;
//!   * stress: 4-thread runtime, real time, distinct interleaving signatures counted.
//! The oracle (`judge`) works offline on the recorded event history.

use fuel_core_services::{
    EmptyShared,
    RunnableService,
    RunnableTask,
    Service,
    ServiceRunner,
    State,
    StateWatcher,
    TaskNextAction,
};
use serde_json::{
    Value,
    json,
};
use std::{
    collections::{
        BTreeMap,
        HashSet,
    },
    sync::{
        Arc,
        Mutex,
        atomic::{
            AtomicU64,
            Ordering,
        },
    },
    time::Duration,
};
use vcommon::{
    rand::Rng,
    *,
};

// ---------------------------------------------------------------------------
// scripted behaviours
// ---------------------------------------------------------------------------

#[derive(Clone, Debug, PartialEq, Eq, Hash)]
enum InitB {
    Ok,
    Err,
    Panic,
    /// sleep (virtual ms in deterministic mode) then succeed
    Slow(u32),
    /// yield n times then succeed
    Yields(u8),
    /// sleep then fail
    SlowErr(u32),
}

#[derive(Clone, Debug, PartialEq, Eq, Hash)]
enum RunB {
    /// yield + short sleep, then `Continue`
    Continue(u32),
    /// `Stop` on its own (no stop request needed)
    Stop,
    /// `ErrorContinue`
    Error,
    Panic,
    /// `watcher.while_started().await` then `Stop`
    BlockUntilStop,
    /// waits for stop or a sleep, whichever first, then returns `Continue`
    /// (the runner must notice the state on its own)
    WaitThenContinue(u32),
    /// ignores the stop signal for the given time, then `Continue`
    SlowContinue(u32),
}

#[derive(Clone, Debug, PartialEq, Eq, Hash)]
enum ShutB {
    Ok,
    Err,
    Panic,
    Slow(u32),
}

#[derive(Clone, Debug, PartialEq, Eq, Hash)]
struct Script {
    init: InitB,
    runs: Vec<RunB>,
    tail: RunB,
    shut: ShutB,
    hook_yields: u8,
}

#[derive(Clone, Debug, PartialEq, Eq, Hash)]
enum Op {
    Start,
    StartAndAwait,
    AwaitStartOrStop,
    Stop,
    StopAndAwait,
    AwaitStop,
    Yield(u8),
    Sleep(u32),
    Poll,
}

impl Op {
    fn name(&self) -> &'static str {
        match self {
            Op::Start => "start",
            Op::StartAndAwait => "start_and_await",
            Op::AwaitStartOrStop => "await_start_or_stop",
            Op::Stop => "stop",
            Op::StopAndAwait => "stop_and_await",
            Op::AwaitStop => "await_stop",
            Op::Yield(_) => "yield",
            Op::Sleep(_) => "sleep",
            Op::Poll => "poll",
        }
    }
}

#[derive(Clone, Debug, PartialEq, Eq, Hash)]
struct Case {
    script: Script,
    clients: Vec<Vec<Op>>,
    /// spawn a `StateWatcher::wait_stopping_or_stopped` probe (deterministic mode)
    watcher_probe: bool,
    /// virtual ms before the probe is started
    probe_delay: u32,
}

fn gen_case<R: Rng>(rng: &mut R, det: bool, allow_probe: bool) -> Case {
    let init = match rng.gen_range(0..100) {
        0..=44 => InitB::Ok,
        45..=54 => InitB::Err,
        55..=64 => InitB::Panic,
        65..=79 => InitB::Slow(*pick(rng, &[1, 5, 50, 500])),
        80..=92 => InitB::Yields(rng.gen_range(1..5)),
        _ => InitB::SlowErr(*pick(rng, &[1, 50])),
    };
    let gen_run = |rng: &mut R| match rng.gen_range(0..100) {
        0..=29 => RunB::Continue(*pick(rng, &[1, 1, 5, 50])),
        30..=39 => RunB::Stop,
        40..=51 => RunB::Error,
        52..=61 => RunB::Panic,
        62..=79 => RunB::BlockUntilStop,
        80..=89 => RunB::WaitThenContinue(*pick(rng, &[1, 20, 300])),
        _ => RunB::SlowContinue(*pick(rng, &[5, 100])),
    };
    let n_runs = rng.gen_range(0..4);
    let runs = (0..n_runs).map(|_| gen_run(rng)).collect();
    let tail = match rng.gen_range(0..100) {
        0..=49 => RunB::BlockUntilStop,
        50..=69 => RunB::Continue(1000),
        70..=84 => RunB::WaitThenContinue(1000),
        85..=92 => RunB::Stop,
        _ => RunB::Panic,
    };
    let shut = match rng.gen_range(0..100) {
        0..=54 => ShutB::Ok,
        55..=69 => ShutB::Err,
        70..=84 => ShutB::Panic,
        _ => ShutB::Slow(*pick(rng, &[1, 50, 2000])),
    };
    let script = Script {
        init,
        runs,
        tail,
        shut,
        hook_yields: rng.gen_range(0..3),
    };
    let n_clients = rng.gen_range(1..=3usize);
    let mut clients = Vec::new();
    for c in 0..n_clients {
        let n_ops = rng.gen_range(1..=5usize);
        let mut ops = Vec::new();
        for i in 0..n_ops {
            let op = if c == 0 && i == 0 && chance(rng, 60) {
                if chance(rng, 50) { Op::Start } else { Op::StartAndAwait }
            } else {
                match rng.gen_range(0..100) {
                    0..=11 => Op::Start,
                    12..=21 => Op::StartAndAwait,
                    22..=29 => Op::AwaitStartOrStop,
                    30..=43 => Op::Stop,
                    44..=57 => Op::StopAndAwait,
                    58..=69 => Op::AwaitStop,
                    70..=84 => Op::Yield(rng.gen_range(1..6)),
                    85..=94 => Op::Sleep(*pick(rng, &[1, 3, 50, 400])),
                    _ => Op::Poll,
                }
            };
            ops.push(op);
        }
        clients.push(ops);
    }
    Case {
        script,
        clients,
        watcher_probe: det && allow_probe && chance(rng, 20),
        probe_delay: *pick(rng, &[0, 0, 2, 60]),
    }
}

// ---------------------------------------------------------------------------
// scripted service
// ---------------------------------------------------------------------------

struct Ctx {
    log: EventLog,
    det: bool,
    run_events: AtomicU64,
}

impl Ctx {
    /// A scripted pause: virtual milliseconds when time is paused, a few dozen real
    /// microseconds in stress mode (so that cases stay short).
    async fn pause(&self, ms: u32) {
        if self.det {
            tokio::time::sleep(Duration::from_millis(ms as u64)).await;
        } else if ms < 10 {
            // tokio timers have 1 ms granularity: short pauses are yields
            for _ in 0..=ms {
                tokio::task::yield_now().await;
            }
        } else {
            tokio::time::sleep(Duration::from_millis(1)).await;
        }
    }

    async fn yields(&self, n: u8) {
        for _ in 0..n {
            tokio::task::yield_now().await;
        }
    }

    fn obs(&self, who: &str, s: &State) {
        let msg = match s {
            State::StoppedWithError(m) => Some(hash64(m)),
            _ => None,
        };
        self.log.push("obs", json!({"who": who, "s": sname(s), "r": rank(s), "m": msg}));
    }
}

fn rank(s: &State) -> u8 {
    match s {
        State::NotStarted => 0,
        State::Starting => 1,
        State::Started => 2,
        State::Stopping => 3,
        State::Stopped => 4,
        State::StoppedWithError(_) => 4,
    }
}

fn sname(s: &State) -> &'static str {
    match s {
        State::NotStarted => "NotStarted",
        State::Starting => "Starting",
        State::Started => "Started",
        State::Stopping => "Stopping",
        State::Stopped => "Stopped",
        State::StoppedWithError(_) => "StoppedWithError",
    }
}

struct Svc {
    ctx: Arc<Ctx>,
    script: Script,
}

struct Tsk {
    ctx: Arc<Ctx>,
    script: Script,
    i: usize,
}

#[async_trait::async_trait]
impl RunnableService for Svc {
    const NAME: &'static str = "VerifScripted";
    type SharedData = EmptyShared;
    type Task = Tsk;
    type TaskParams = ();

    fn shared_data(&self) -> EmptyShared {
        EmptyShared
    }

    async fn into_task(self, _w: &StateWatcher, _p: ()) -> anyhow::Result<Tsk> {
        let ctx = self.ctx.clone();
        ctx.log.push("init.enter", json!({"b": format!("{:?}", self.script.init)}));
        ctx.yields(self.script.hook_yields).await;
        let out = match &self.script.init {
            InitB::Ok => "ok",
            InitB::Err => "err",
            InitB::Panic => "panic",
            InitB::Slow(ms) => {
                ctx.pause(*ms).await;
                "ok"
            }
            InitB::Yields(n) => {
                ctx.yields(*n).await;
                "ok"
            }
            InitB::SlowErr(ms) => {
                ctx.pause(*ms).await;
                "err"
            }
        };
        ctx.log.push("init.exit", json!({"out": out}));
        match out {
            "ok" => Ok(Tsk {
                ctx,
                script: self.script,
                i: 0,
            }),
            "err" => Err(anyhow::anyhow!("scripted init error")),
            _ => panic!("scripted init panic"),
        }
    }
}

const MAX_LOGGED_RUNS: u64 = 64;

impl RunnableTask for Tsk {
    async fn run(&mut self, watcher: &mut StateWatcher) -> TaskNextAction {
        let b = self
            .script
            .runs
            .get(self.i)
            .cloned()
            .unwrap_or_else(|| self.script.tail.clone());
        let n = self.ctx.run_events.fetch_add(1, Ordering::SeqCst);
        let logged = n < MAX_LOGGED_RUNS;
        if logged {
            self.ctx.log.push("run.enter", json!({"i": self.i, "b": format!("{b:?}")}));
        }
        self.i += 1;
        self.ctx.yields(self.script.hook_yields).await;
        let out = match &b {
            RunB::Continue(ms) => {
                // always park on a timer so that virtual time can advance
                self.ctx.pause(*ms).await;
                "continue"
            }
            RunB::Stop => "stop",
            RunB::Error => {
                self.ctx.pause(1).await;
                "error"
            }
            RunB::Panic => "panic",
            RunB::BlockUntilStop => {
                let _ = watcher.while_started().await;
                "stop"
            }
            RunB::WaitThenContinue(ms) => {
                let ctx = self.ctx.clone();
                tokio::select! {
                    _ = watcher.while_started() => {}
                    _ = ctx.pause(*ms) => {}
                }
                // never a busy loop: park at least once
                self.ctx.pause(1).await;
                "continue"
            }
            RunB::SlowContinue(ms) => {
                self.ctx.pause(*ms).await;
                "continue"
            }
        };
        if logged {
            self.ctx.log.push("run.exit", json!({"out": out}));
        }
        match out {
            "continue" => TaskNextAction::Continue,
            "stop" => TaskNextAction::Stop,
            "error" => TaskNextAction::ErrorContinue(anyhow::anyhow!("scripted run error")),
            _ => panic!("scripted run panic"),
        }
    }

    async fn shutdown(self) -> anyhow::Result<()> {
        self.ctx
            .log
            .push("shutdown.enter", json!({"b": format!("{:?}", self.script.shut)}));
        self.ctx.yields(self.script.hook_yields).await;
        let out = match &self.script.shut {
            ShutB::Ok => "ok",
            ShutB::Err => "err",
            ShutB::Panic => "panic",
            ShutB::Slow(ms) => {
                self.ctx.pause(*ms).await;
                "ok"
            }
        };
        self.ctx.log.push("shutdown.exit", json!({"out": out}));
        match out {
            "ok" => Ok(()),
            "err" => Err(anyhow::anyhow!("scripted shutdown error")),
            _ => panic!("scripted shutdown panic"),
        }
    }
}

type Runner = ServiceRunner<Svc>;

fn res_state(r: &anyhow::Result<State>) -> Value {
    match r {
        Ok(s) => json!({"ok": true, "s": sname(s), "r": rank(s)}),
        Err(e) => json!({"ok": false, "e": e.to_string()}),
    }
}

async fn client(ctx: Arc<Ctx>, svc: Arc<Runner>, id: usize, ops: Vec<Op>, selftest_hang: bool) {
    let who = format!("c{id}");
    for (i, op) in ops.iter().enumerate() {
        ctx.obs(&who, &svc.state());
        ctx.log.push("op.call", json!({"who": who, "i": i, "op": op.name()}));
        let res = match op {
            Op::Start => match svc.start() {
                Ok(()) => json!({"ok": true}),
                Err(e) => json!({"ok": false, "e": e.to_string()}),
            },
            Op::StartAndAwait => res_state(&svc.start_and_await().await),
            Op::AwaitStartOrStop => res_state(&svc.await_start_or_stop().await),
            Op::Stop => json!({"ok": true, "was_running": svc.stop()}),
            Op::StopAndAwait => res_state(&svc.stop_and_await().await),
            Op::AwaitStop => {
                if selftest_hang {
                    // deliberately wrong wrapper (oracle self-test): never resolves
                    std::future::pending::<()>().await;
                }
                res_state(&svc.await_stop().await)
            }
            Op::Yield(n) => {
                ctx.yields(*n).await;
                json!({"ok": true})
            }
            Op::Sleep(ms) => {
                ctx.pause(*ms).await;
                json!({"ok": true})
            }
            Op::Poll => json!({"ok": true}),
        };
        ctx.log
            .push("op.ret", json!({"who": who, "i": i, "op": op.name(), "res": res}));
        ctx.obs(&who, &svc.state());
    }
    ctx.log.push("client.done", json!({"who": who}));
}

/// follows every state change through a `StateWatcher` until the service stopped
async fn observer(ctx: Arc<Ctx>, mut w: StateWatcher) {
    loop {
        let s = w.borrow_and_update().clone();
        ctx.obs("watch", &s);
        if s.stopped() {
            break;
        }
        if w.changed().await.is_err() {
            ctx.log.push("watch.closed", json!({}));
            break;
        }
    }
    ctx.log.push("watch.done", json!({}));
}

async fn probe(ctx: Arc<Ctx>, svc: Arc<Runner>, delay: u32) {
    ctx.pause(delay).await;
    let mut w = svc.state_watcher();
    let s = w.borrow().clone();
    ctx.log
        .push("probe.call", json!({"who": "probe", "s": sname(&s), "r": rank(&s)}));
    let r = w.wait_stopping_or_stopped().await;
    ctx.log.push("probe.ret", json!({"who": "probe", "ok": r.is_ok()}));
}

// virtual-time budgets (deterministic mode)
const SCRIPT_BUDGET_MS: u64 = 10_000;
const LIVENESS_BUDGET_MS: u64 = 3_600_000;

struct Outcome {
    events: Vec<Value>,
    /// client index -> finished
    clients_done: Vec<bool>,
    observer_done: bool,
    probe_done: Option<bool>,
    final_state: State,
    /// stress mode only: the wall-clock watchdog fired
    watchdog: bool,
}

async fn drive(case: &Case, det: bool, selftest_hang: bool, rng_seed: u64) -> Outcome {
    let mut rng = rng_for(rng_seed, &[7]);
    let ctx = Arc::new(Ctx {
        log: EventLog::new(),
        det,
        run_events: AtomicU64::new(0),
    });
    let svc = Arc::new(ServiceRunner::new(Svc {
        ctx: ctx.clone(),
        script: case.script.clone(),
    }));
    ctx.obs("main", &svc.state());
    let mut obs_h = tokio::spawn(observer(ctx.clone(), svc.state_watcher()));
    let mut handles = Vec::new();
    for (id, ops) in case.clients.iter().enumerate() {
        // seeded yields between the spawns change the initial task order
        ctx.yields(rng.gen_range(0..3)).await;
        handles.push(tokio::spawn(client(
            ctx.clone(),
            svc.clone(),
            id,
            ops.clone(),
            selftest_hang,
        )));
    }
    let probe_h = if case.watcher_probe {
        Some(tokio::spawn(probe(ctx.clone(), svc.clone(), case.probe_delay)))
    } else {
        None
    };

    let mut watchdog = false;
    if det {
        // let the script play; poll the state at seeded virtual times
        let mut left = SCRIPT_BUDGET_MS;
        for _ in 0..6 {
            let d = (*pick(&mut rng, &[0u64, 1, 2, 7, 60, 500, 3000])).min(left);
            left -= d;
            tokio::time::sleep(Duration::from_millis(d)).await;
            ctx.yields(rng.gen_range(0..3)).await;
            ctx.obs("main", &svc.state());
        }
        tokio::time::sleep(Duration::from_millis(left)).await;
        ctx.obs("main", &svc.state());
        // final stop request by the harness: from here on every await must resolve
        ctx.log.push("op.call", json!({"who": "main", "i": 0, "op": "stop"}));
        let was = svc.stop();
        ctx.log.push(
            "op.ret",
            json!({"who": "main", "i": 0, "op": "stop", "res": {"ok": true, "was_running": was}}),
        );
        ctx.obs("main", &svc.state());
        tokio::time::sleep(Duration::from_millis(LIVENESS_BUDGET_MS)).await;
        // anything woken at the very same instant gets its turn
        for _ in 0..4 {
            ctx.yields(8).await;
            tokio::time::sleep(Duration::from_millis(1)).await;
        }
        ctx.obs("main", &svc.state());
    } else {
        // tokio timers have 1 ms granularity: short waits are yield loops
        let k = *pick(&mut rng, &[0u32, 0, 1, 3, 10, 50, 200, 1000]);
        if k == 1000 {
            tokio::time::sleep(Duration::from_millis(1)).await;
        } else {
            for _ in 0..k {
                tokio::task::yield_now().await;
            }
        }
        ctx.obs("main", &svc.state());
        ctx.log.push("op.call", json!({"who": "main", "i": 0, "op": "stop"}));
        let was = svc.stop();
        ctx.log.push(
            "op.ret",
            json!({"who": "main", "i": 0, "op": "stop", "res": {"ok": true, "was_running": was}}),
        );
        ctx.obs("main", &svc.state());
        // wall-clock watchdog: its firing is *inconclusive*, never a violation
        let joined = tokio::time::timeout(Duration::from_secs(10), async {
            for h in handles.iter_mut() {
                let _ = h.await;
            }
            let _ = (&mut obs_h).await;
        })
        .await;
        watchdog = joined.is_err();
        ctx.obs("main", &svc.state());
    }
    let clients_done: Vec<bool> = handles.iter().map(|h| h.is_finished()).collect();
    let observer_done = obs_h.is_finished();
    let probe_done = probe_h.as_ref().map(|h| h.is_finished());
    for h in handles {
        h.abort();
    }
    obs_h.abort();
    if let Some(h) = probe_h {
        h.abort();
    }
    let final_state = svc.state();
    Outcome {
        events: ctx.log.snapshot(),
        clients_done,
        observer_done,
        probe_done,
        final_state,
        watchdog,
    }
}

// ---------------------------------------------------------------------------
// oracle (offline over the recorded history)
// ---------------------------------------------------------------------------

fn s<'a>(e: &'a Value, k: &str) -> &'a str {
    e.get(k).and_then(|v| v.as_str()).unwrap_or("")
}

fn u(e: &Value, k: &str) -> u64 {
    e.get(k).and_then(|v| v.as_u64()).unwrap_or(0)
}

const RANK_NAMES: [&str; 5] = ["NotStarted", "Starting", "Started", "Stopping", "Stopped*"];

/// Returns (signature, detail) for every refutation found in the history.
///
/// `det`: the history comes from the single-threaded paused-time mode, i.e. log order is
/// real order and the liveness verdict is meaningful.
fn judge(
    events: &[Value],
    det: bool,
    out: &Outcome,
    case: &Case,
) -> (Vec<(String, String)>, Option<String>) {
    let mut v: Vec<(String, String)> = Vec::new();
    let mut not_judged: Option<String> = None;
    let mut evs: Vec<&Value> = events.iter().collect();
    evs.sort_by_key(|e| u(e, "t"));

    // --- state observations -------------------------------------------------
    let mut last_rank: BTreeMap<String, u64> = BTreeMap::new();
    let mut last_stopped: BTreeMap<String, (String, Value)> = BTreeMap::new();
    // max rank over all observations logged before the observer's previous event
    let mut snap: BTreeMap<String, u64> = BTreeMap::new();
    let mut global_max = 0u64;
    let mut global_stopped: Option<(String, Value)> = None;
    // first time at which a completed stop request / a state >= Stopping is on record
    let mut t_stop: Option<u64> = None;
    // first time at which a stopped state was observed
    let mut t_stopped: Option<u64> = None;
    let mut last_hook_exit: Option<u64> = None;
    let mut init_enters = 0u64;
    let mut shutdown_enters = 0u64;
    let mut open_hook: Option<(&str, String)> = None;

    for e in &evs {
        let t = u(e, "t");
        let kind = s(e, "kind");
        let who = s(e, "who").to_string();
        match kind {
            "obs" => {
                let r = u(e, "r");
                let name = s(e, "s").to_string();
                if let Some(prev) = last_rank.get(&who)
                    && r < *prev
                {
                    v.push((
                        format!(
                            "state_regressed {}->{}",
                            RANK_NAMES[*prev as usize], RANK_NAMES[r as usize]
                        ),
                        format!("observer {who} saw rank {prev} and later {name} (t={t})"),
                    ));
                }
                let reference = if det {
                    global_max
                } else {
                    snap.get(&who).copied().unwrap_or(0)
                };
                if r < reference && last_rank.get(&who).is_none_or(|p| r >= *p) {
                    v.push((
                        format!(
                            "state_regressed {}->{}",
                            RANK_NAMES[reference as usize], RANK_NAMES[r as usize]
                        ),
                        format!(
                            "observer {who} read {name} at t={t} although another observer had \
                             read rank {reference} strictly earlier"
                        ),
                    ));
                }
                if r == 4 {
                    let ident = (name.clone(), e.get("m").cloned().unwrap_or(Value::Null));
                    if let Some(prev) = last_stopped.get(&who)
                        && *prev != ident
                    {
                        v.push((
                            format!("left_stopped_state {}->{}", prev.0, ident.0),
                            format!("observer {who}: stopped state changed at t={t}"),
                        ));
                    }
                    if det {
                        if let Some(prev) = &global_stopped
                            && *prev != ident
                            && last_stopped.get(&who).is_none_or(|p| *p == ident)
                        {
                            v.push((
                                format!("left_stopped_state {}->{}", prev.0, ident.0),
                                format!("stopped state changed between observers at t={t}"),
                            ));
                        }
                        global_stopped = Some(ident.clone());
                    }
                    last_stopped.insert(who.clone(), ident);
                    t_stopped.get_or_insert(t);
                }
                if r >= 3 {
                    t_stop.get_or_insert(t);
                }
                last_rank.insert(who.clone(), r);
                global_max = global_max.max(r);
                snap.insert(who, global_max);
            }
            "op.ret" => {
                let op = s(e, "op");
                let res = e.get("res").cloned().unwrap_or(Value::Null);
                let ok = res.get("ok").and_then(|x| x.as_bool()).unwrap_or(false);
                match op {
                    "stop" | "stop_and_await" => {
                        t_stop.get_or_insert(t);
                    }
                    _ => {}
                }
                if ok && matches!(op, "stop_and_await" | "await_stop") {
                    let r = u(&res, "r");
                    if r != 4 {
                        v.push((
                            format!("await_stop_returned_unstopped op={op}"),
                            format!("{who} {op} returned {} at t={t}", s(&res, "s")),
                        ));
                    }
                    // a returned stopped state is an observation, too
                    t_stopped.get_or_insert(t);
                }
                if ok && matches!(op, "start_and_await" | "await_start_or_stop") && u(&res, "r") == 1 {
                    v.push((
                        format!("await_start_returned_starting op={op}"),
                        format!("{who} {op} returned Starting at t={t}"),
                    ));
                }
                // the observer's next read happens after this event
                snap.insert(who, global_max);
            }
            "op.call" => {
                snap.insert(who, global_max);
            }
            "init.enter" | "run.enter" | "shutdown.enter" => {
                let hook = kind.split('.').next().unwrap_or("");
                if let Some(ts) = t_stopped
                    && ts < t
                {
                    v.push((
                        format!("ran_after_stopped hook={hook}"),
                        format!(
                            "{kind} at t={t} although a stopped state was observed at t={ts}"
                        ),
                    ));
                }
                match hook {
                    "init" => {
                        init_enters += 1;
                        if init_enters > 1 {
                            v.push(("init_twice".into(), format!("second into_task at t={t}")));
                        }
                        if det
                            && let Some(ts) = t_stop
                            && ts < t
                        {
                            v.push((
                                "init_after_stop".into(),
                                format!(
                                    "into_task entered at t={t} although a stop request had \
                                     completed at t={ts}"
                                ),
                            ));
                        }
                    }
                    "run" => {
                        if shutdown_enters > 0 {
                            v.push((
                                "run_after_shutdown".into(),
                                format!("run entered at t={t} after shutdown"),
                            ));
                        }
                        if let (Some(ts), Some(ex)) = (t_stop, last_hook_exit)
                            && ts < ex
                        {
                            v.push((
                                "run_after_stop_observed".into(),
                                format!(
                                    "run entered at t={t}; the previous hook had returned at \
                                     t={ex}, after a stop was on record at t={ts}"
                                ),
                            ));
                        }
                    }
                    _ => {
                        shutdown_enters += 1;
                        if shutdown_enters > 1 {
                            v.push((
                                "shutdown_twice".into(),
                                format!("second shutdown at t={t}"),
                            ));
                        }
                    }
                }
                if let Some((h, _)) = &open_hook {
                    v.push((
                        format!("hooks_overlap {h}+{hook}"),
                        format!("{kind} at t={t} while {h} had not returned"),
                    ));
                }
                open_hook = Some((hook, s(e, "b").to_string()));
            }
            "init.exit" | "run.exit" | "shutdown.exit" => {
                last_hook_exit = Some(t);
                open_hook = None;
            }
            _ => {}
        }
    }

    // --- liveness: deterministic paused-time mode only ------------------------
    if det {
        // open operations per client
        let mut open: BTreeMap<String, (String, u64)> = BTreeMap::new();
        for e in &evs {
            match s(e, "kind") {
                "op.call" => {
                    open.insert(s(e, "who").to_string(), (s(e, "op").to_string(), u(e, "t")));
                }
                "op.ret" => {
                    open.remove(s(e, "who"));
                }
                _ => {}
            }
        }
        let fin = &out.final_state;
        let hook_blocked = open_hook.clone();
        for (who, (op, t)) in &open {
            let sig = match op.as_str() {
                "await_stop" | "stop_and_await" => "await_stop_never_resolved",
                "start_and_await" | "await_start_or_stop" => "await_start_never_resolved",
                _ => "client_op_never_returned",
            };
            match &hook_blocked {
                None => v.push((
                    format!("{sig} op={op} final_state={}", sname(fin)),
                    format!(
                        "{who} called {op} at t={t}; the harness requested stop, all task hooks \
                         returned, {} ms of virtual time passed with every task idle, and the \
                         call is still pending (final state {})",
                        LIVENESS_BUDGET_MS,
                        sname(fin)
                    ),
                )),
                Some((h, b)) if *h == "run" && b.contains("BlockUntilStop") => v.push((
                    format!("{sig} op={op} cause=while_started_pending"),
                    format!(
                        "{who} called {op} at t={t}; stop was requested but \
                         StateWatcher::while_started inside run never resolved (final state {})",
                        sname(fin)
                    ),
                )),
                // a scripted hook that did not return is a harness problem → not judged
                Some((h, b)) => {
                    not_judged = Some(format!(
                        "scripted hook {h} ({b}) did not return within the virtual budget; \
                         pending {op} of {who} not judged"
                    ));
                }
            }
        }
        if !out.observer_done && hook_blocked.is_none() {
            v.push((
                format!("watcher_never_saw_stopped final_state={}", sname(fin)),
                "a StateWatcher subscribed before start never observed a stopped state".into(),
            ));
        }
        if out.probe_done == Some(false) && hook_blocked.is_none() && fin.stopped() {
            v.push((
                "watcher_wait_stopping_or_stopped_never_resolves".into(),
                format!(
                    "StateWatcher::wait_stopping_or_stopped (called {} ms after spawn while the \
                     state was below Stopping) is still pending although the service reached {} \
                     and {} ms of virtual time passed",
                    case.probe_delay,
                    sname(fin),
                    LIVENESS_BUDGET_MS
                ),
            ));
        }
    }
    (v, not_judged)
}

// ---------------------------------------------------------------------------
// self-test perturbations (harness side)
// ---------------------------------------------------------------------------

fn perturb(events: &mut Vec<Value>, which: u64) -> bool {
    match which {
        // swap the first observation of a higher rank behind a later lower one:
        // re-insert a copy of the first observation at the end of the history
        1 => {
            let first = events.iter().find(|e| s(e, "kind") == "obs" && u(e, "r") <= 2).cloned();
            let max_t = events.iter().map(|e| u(e, "t")).max().unwrap_or(0);
            let has_high = events.iter().any(|e| s(e, "kind") == "obs" && u(e, "r") >= 3);
            if let (Some(mut f), true) = (first, has_high) {
                f["t"] = json!(max_t + 1);
                f["who"] = json!("main");
                events.push(f);
                true
            } else {
                false
            }
        }
        // duplicate the shutdown hook entry
        2 => {
            let sh = events.iter().find(|e| s(e, "kind") == "shutdown.exit").cloned();
            let en = events.iter().find(|e| s(e, "kind") == "shutdown.enter").cloned();
            if let (Some(mut ex), Some(mut en)) = (sh, en) {
                let t = u(&ex, "t");
                // place the duplicate right after the real shutdown returned
                for e in events.iter_mut() {
                    let te = u(e, "t");
                    if te > t {
                        e["t"] = json!(te + 2);
                    }
                }
                en["t"] = json!(t + 1);
                ex["t"] = json!(t + 2);
                events.push(en);
                events.push(ex);
                true
            } else {
                false
            }
        }
        // a run recorded after the stopped state was observed
        4 => {
            let max_t = events.iter().map(|e| u(e, "t")).max().unwrap_or(0);
            let stopped = events.iter().any(|e| s(e, "kind") == "obs" && u(e, "r") == 4);
            if stopped {
                events.push(json!({"t": max_t + 1, "kind": "run.enter", "i": 99, "b": "Injected"}));
                events.push(json!({"t": max_t + 2, "kind": "run.exit", "out": "continue"}));
                true
            } else {
                false
            }
        }
        _ => false,
    }
}

// ---------------------------------------------------------------------------
// driver
// ---------------------------------------------------------------------------

fn interleaving_signature(events: &[Value]) -> u64 {
    let mut evs: Vec<&Value> = events.iter().collect();
    evs.sort_by_key(|e| u(e, "t"));
    let seq: Vec<(String, String, String)> = evs
        .iter()
        .map(|e| {
            (
                s(e, "kind").to_string(),
                s(e, "who").to_string(),
                format!("{}{}", s(e, "op"), s(e, "s")),
            )
        })
        .collect();
    hash64(&seq)
}

fn case_json(case: &Case) -> Value {
    json!({
        "init": format!("{:?}", case.script.init),
        "runs": case.script.runs.iter().map(|r| format!("{r:?}")).collect::<Vec<_>>(),
        "tail": format!("{:?}", case.script.tail),
        "shutdown": format!("{:?}", case.script.shut),
        "hook_yields": case.script.hook_yields,
        "clients": case.clients.iter().map(|c| c.iter().map(|o| format!("{o:?}")).collect::<Vec<_>>()).collect::<Vec<_>>(),
        "watcher_probe": case.watcher_probe,
    })
}

struct Shared {
    stress_sigs: Mutex<HashSet<u64>>,
    det_sigs: Mutex<HashSet<u64>>,
}

#[allow(clippy::too_many_arguments)]
fn account(
    report: &Report,
    shared: &Shared,
    args: &Args,
    case: &Case,
    out: &Outcome,
    det: bool,
    shard: usize,
    shard_seed: u64,
    iteration: u64,
    selftest: u64,
) {
    let mode = if det { "det" } else { "stress" };
    report.eval();
    report.count(&format!("{mode}.cases"));
    let mut events = out.events.clone();
    if selftest != 0 && selftest != 3 && !perturb(&mut events, selftest) {
        report.count("selftest.not_applicable");
        return;
    }
    // evidence
    for e in &events {
        let kind = s(e, "kind");
        match kind {
            "obs" => report.count(&format!("obs.{}", s(e, "s"))),
            "op.call" => report.count(&format!("op.{}.called", s(e, "op"))),
            "op.ret" => {
                let op = s(e, "op");
                report.count(&format!("op.{op}.returned"));
                if matches!(op, "await_stop" | "stop_and_await") {
                    report.count("await_for_stop.resolved");
                }
            }
            "init.enter" | "shutdown.enter" | "run.enter" => {
                report.count(&format!("hook.{kind}.{}", s(e, "b").split('(').next().unwrap_or("")))
            }
            "init.exit" | "shutdown.exit" | "run.exit" => {
                report.count(&format!("hook.{kind}.{}", s(e, "out")))
            }
            "probe.call" => report.count(&format!("probe.called_in.{}", s(e, "s"))),
            "probe.ret" => report.count("probe.returned"),
            _ => {}
        }
    }
    report.count(&format!("final.{}", sname(&out.final_state)));
    // situations of interest
    let mut evs: Vec<&Value> = events.iter().collect();
    evs.sort_by_key(|e| u(e, "t"));
    let mut in_hook: Option<&str> = None;
    let mut stop_seen = false;
    for e in &evs {
        match s(e, "kind") {
            "init.enter" => in_hook = Some("init"),
            "run.enter" => in_hook = Some("run"),
            "shutdown.enter" => in_hook = Some("shutdown"),
            "init.exit" | "run.exit" | "shutdown.exit" => in_hook = None,
            "op.ret" if matches!(s(e, "op"), "stop" | "stop_and_await") && !stop_seen => {
                stop_seen = true;
                report.count(&format!("situation.first_stop_during.{}", in_hook.unwrap_or("no_hook")));
            }
            "op.call" if s(e, "op") == "stop_and_await" && !stop_seen => {
                // the stop inside stop_and_await takes effect at the call
                stop_seen = true;
                report.count(&format!("situation.first_stop_during.{}", in_hook.unwrap_or("no_hook")));
            }
            _ => {}
        }
    }
    let sig = interleaving_signature(&events);
    if det {
        shared.det_sigs.lock().unwrap().insert(sig);
    } else {
        shared.stress_sigs.lock().unwrap().insert(sig);
    }
    // non-trivial: the service was started and a stop request raced with a hook, or a hook
    // failed/panicked, with at least two clients' events interleaved
    let started = events.iter().any(|e| s(e, "kind") == "init.enter");
    let failed = events.iter().any(|e| {
        matches!(s(e, "kind"), "init.exit" | "run.exit" | "shutdown.exit")
            && matches!(s(e, "out"), "err" | "panic" | "error")
    });
    if started && (failed || case.clients.len() > 1) {
        report.distinct_hash(mix(sig, &[hash64(case), det as u64]));
    }
    if out.watchdog {
        report.count("stress.watchdog_fired");
        report.inconclusive(format!(
            "stress case shard {shard} iteration {iteration}: wall-clock watchdog fired (not judged for liveness)"
        ));
    }
    if det {
        report.count("liveness.cases_judged");
        let pending = out.clients_done.iter().filter(|d| !**d).count();
        if pending > 0 {
            report.count("liveness.pending_clients");
        }
    }
    let (violations, not_judged) = judge(&events, det, out, case);
    if let Some(n) = not_judged {
        report.count("liveness.not_judged");
        report.inconclusive(format!("{mode} shard {shard} iteration {iteration}: {n}"));
    }
    if report.wants_sample() && started && failed {
        report.sample(json!({"mode": mode, "case": case_json(case), "events": events.len(),
            "history_head": evs.iter().take(40).map(|e| format!("{} {} {} {}{}{}", u(e,"t"), s(e,"kind"), s(e,"who"), s(e,"op"), s(e,"s"), s(e,"out"))).collect::<Vec<_>>() }));
    }
    let mut seen = HashSet::new();
    for (sig, detail) in violations {
        if !seen.insert(sig.clone()) {
            continue;
        }
        let sig = if selftest != 0 { format!("selftest:{sig}") } else { sig };
        // the recorded history is the witness; keep it only for the first few reports
        let history: Vec<String> = if report.violation_count() < 40 {
            evs.iter().take(400).map(|e| e.to_string()).collect()
        } else {
            Vec::new()
        };
        report.violation(
            sig,
            format!("{detail}; mode={mode}; case={}", case_json(case)),
            json!({"seed": args.seed, "shard": shard, "shard_seed": shard_seed, "iteration": iteration,
                   "mode": mode, "case": case_json(case), "history": history}),
        );
    }
}

/// `ServiceRunner::new` registers two new Prometheus counters in fuel-core's process-wide
/// metrics registry and, to do so, text-encodes the whole registry under its lock — the
/// cost grows with every runner ever created. Metrics are not part of the property, so
/// the harness empties that registry between cases (nothing of /repo is modified).
fn reset_metrics_registry() {
    *fuel_core_metrics::global_registry().registry.lock() = Default::default();
}

fn run_det_case(case: &Case, selftest_hang: bool, seed: u64) -> Result<Outcome, String> {
    reset_metrics_registry();
    let rt = tokio::runtime::Builder::new_current_thread()
        .enable_time()
        .start_paused(true)
        .build()
        .map_err(|e| e.to_string())?;
    let out = catch(|| rt.block_on(drive(case, true, selftest_hang, seed)));
    // dropping the runtime drops every leftover task
    drop(rt);
    out
}

fn c41(args: &Args, report: &Report) {
    let selftest: u64 = args
        .extra
        .get("selftest")
        .and_then(|v| v.parse().ok())
        .unwrap_or(0);
    let allow_probe = args.extra.get("watcher-probe").map(|v| v != "off").unwrap_or(true);
    let shared = Arc::new(Shared {
        stress_sigs: Mutex::new(HashSet::new()),
        det_sigs: Mutex::new(HashSet::new()),
    });

    if let Some(rep) = read_replay(args) {
        let shard_seed = rep.get("shard_seed").and_then(|v| v.as_u64()).unwrap_or(0);
        let iteration = rep.get("iteration").and_then(|v| v.as_u64()).unwrap_or(0);
        let shard = rep.get("shard").and_then(|v| v.as_u64()).unwrap_or(0) as usize;
        let det = rep.get("mode").and_then(|v| v.as_str()).unwrap_or("det") == "det";
        let mut rng = rng_for(shard_seed, &[det as u64, iteration]);
        let case = gen_case(&mut rng, det, allow_probe);
        if det {
            match run_det_case(&case, false, mix(shard_seed, &[iteration])) {
                Ok(out) => account(report, &shared, args, &case, &out, true, shard, shard_seed, iteration, 0),
                Err(p) => report.inconclusive(format!("replay panicked in harness: {p}")),
            }
        } else {
            // the schedule cannot be forced: repeat the case many times
            let rt = tokio::runtime::Builder::new_multi_thread()
                .worker_threads(4)
                .enable_time()
                .build()
                .expect("rt");
            for k in 0..2000u64 {
                reset_metrics_registry();
                let out = rt.block_on(drive(&case, false, false, mix(shard_seed, &[iteration, k])));
                account(report, &shared, args, &case, &out, false, shard, shard_seed, iteration, 0);
            }
        }
        return;
    }

    let shards = 16usize;
    let det_cases: u64 = args.by_tier(2500, 40_000);
    let stress_cases: u64 = args.by_tier(1500, 30_000);
    let (det_cases, stress_cases) = if selftest != 0 {
        (300, if selftest == 3 { 0 } else { 100 })
    } else {
        (det_cases, stress_cases)
    };
    // experimentation only (not used by the driver)
    let det_cases = args.extra.get("det-cases").and_then(|v| v.parse().ok()).unwrap_or(det_cases);
    let stress_cases = args.extra.get("stress-cases").and_then(|v| v.parse().ok()).unwrap_or(stress_cases);
    {
        let report = report.clone();
        let shared = shared.clone();
        let args2 = args.clone();
        run_shards(&report.clone(), args, shards, move |shard, shard_seed| {
            // deterministic mode
            for it in 0..det_cases {
                let mut rng = rng_for(shard_seed, &[1, it]);
                let case = gen_case(&mut rng, true, allow_probe);
                match run_det_case(&case, selftest == 3, mix(shard_seed, &[it])) {
                    Ok(out) => account(&report, &shared, &args2, &case, &out, true, shard, shard_seed, it, selftest),
                    Err(p) => report.inconclusive(format!(
                        "deterministic case shard {shard} iteration {it} panicked in harness: {p}"
                    )),
                }
            }
            // stress mode: one 4-thread runtime per shard, reused over the cases
            if stress_cases > 0 {
                let rt = tokio::runtime::Builder::new_multi_thread()
                    .worker_threads(4)
                    .enable_time()
                    .build()
                    .expect("rt");
                let mut watchdogs = 0u32;
                for it in 0..stress_cases {
                    let mut rng = rng_for(shard_seed, &[0, it]);
                    let case = gen_case(&mut rng, false, allow_probe);
                    let h = rt.handle().clone();
                    reset_metrics_registry();
                    // `drive` runs on a worker thread so that all 4 workers take part
                    let res = catch(|| {
                        let c2 = case.clone();
                        rt.block_on(async move {
                            h.spawn(async move { drive(&c2, false, false, mix(shard_seed, &[it])).await })
                                .await
                        })
                    });
                    match res {
                        Ok(Ok(out)) => {
                            if out.watchdog {
                                watchdogs += 1;
                            }
                            account(&report, &shared, &args2, &case, &out, false, shard, shard_seed, it, selftest);
                            if watchdogs >= 2 {
                                // do not spend the whole budget waiting for hung cases
                                report.count("stress.shards_aborted_after_watchdogs");
                                break;
                            }
                        }
                        Ok(Err(e)) => report.inconclusive(format!("stress case join error: {e}")),
                        Err(p) => report.inconclusive(format!("stress case panicked in harness: {p}")),
                    }
                }
                rt.shutdown_timeout(Duration::from_millis(200));
            }
        });
    }
    let n_stress = shared.stress_sigs.lock().unwrap().len() as u64;
    let n_det = shared.det_sigs.lock().unwrap().len() as u64;
    report.add("stress.distinct_interleaving_signatures", n_stress);
    report.add("det.distinct_interleaving_signatures", n_det);
    report.info("distinct_interleaving_signatures", json!({"stress": n_stress, "deterministic": n_det}));

    if selftest == 0 {
        let k = args.by_tier(1u64, 8);
        report.require("det.cases", 20_000 * k);
        report.require("stress.cases", 12_000 * k);
        report.require("det.distinct_interleaving_signatures", 5_000);
        report.require("stress.distinct_interleaving_signatures", 3_000);
        report.require("await_for_stop.resolved", 20_000);
        report.require("hook.shutdown.exit.ok", 5_000);
        report.require("hook.shutdown.exit.panic", 1_000);
        report.require("hook.run.exit.panic", 1_000);
        report.require("hook.init.exit.panic", 1_000);
        report.require("hook.init.exit.err", 1_000);
        report.require("final.Stopped", 5_000);
        report.require("final.StoppedWithError", 5_000);
        report.require("situation.first_stop_during.init", 500);
        report.require("situation.first_stop_during.run", 2_000);
        report.require("situation.first_stop_during.no_hook", 2_000);
        report.require("obs.Starting", 1_000);
        report.require("obs.Stopping", 1_000);
        report.require("liveness.cases_judged", 20_000 * k);
    }
}

fn main() {
    let args = Args::parse();
    install_quiet_panic_hook();
    let report = Report::new(&args.property);
    let rule = "case = scripted service (init ok/err/panic/slow/yields; per-iteration run behaviour \
        continue/stop/error/panic/block-until-stop/wait-then-continue/slow; shutdown ok/err/panic/slow) x 1-3 \
        client tasks of 1-5 ops from {start, start_and_await, await_start_or_stop, stop, stop_and_await, \
        await_stop, yield(k), sleep, poll} drawn from the seed; every case runs on the real ServiceRunner, \
        deterministic cases on a paused current-thread runtime, stress cases on a 4-thread runtime. A case is \
        counted distinct/non-trivial when into_task was entered and (a hook failed or panicked, or >=2 clients \
        took part); the key is (case, mode, observed interleaving signature = hash of the ordered event kinds).";
    let assumptions = [
        "scripted hooks always return in bounded virtual time (no hook ignores the stop signal forever)",
        "liveness (every await-for-stop resolves) is judged only in deterministic paused-time mode: stop requested, all hooks returned, 1 h of virtual time elapsed with all tasks idle; in stress mode a 10 s wall watchdog only yields 'inconclusive'",
        "state monotonicity across different observers in stress mode is judged only for reads ordered by the shared logical clock (read A logged before observer B's previous event)",
    ];
    // outer wall-clock watchdog: firing is inconclusive
    {
        let report = report.clone();
        let args = args.clone();
        let limit = if args.is_thorough() { 1500 } else { 110 };
        std::thread::spawn(move || {
            std::thread::sleep(Duration::from_secs(limit));
            report.inconclusive(format!("outer wall-clock watchdog fired after {limit}s"));
            report.finish(&args, "exploration", "watchdog", false, &[]);
            std::process::exit(0);
        });
    }
    match args.property.as_str() {
        "C41" => c41(&args, &report),
        other => report.inconclusive(format!("property {other} not implemented in this monitor")),
    }
    report.finish(&args, "exploration", rule, false, &assumptions);
}
