//! C32 (a): whatever was requested before and however the chain grew, the
//! request/response `CachedView` answers a height range exactly like the database
//! does at that moment.
//!
//! Driver: the real `CachedView` (hook `VerifCachedView`) in front of the real
//! on-chain database view (`OnChainIterableKeyValueView`, the production `P2pDb`)
//! over a generated, growing chain; a fresh latest view per request, like
//! `Task::handle_db_request` takes one.
//! Oracle: (1) the view's own direct answer for the same range at the same moment;
//! (2) the harness' record of what it wrote (independent of the database): all
//! heights of the range exist -> exactly those headers / transaction lists in
//! order, empty range -> empty list, otherwise -> nothing.

use crate::chain::Chain;
use fuel_core::database::OnChainIterableKeyValueView;
use fuel_core_p2p::{
    ports::P2pDb,
    verif_hooks::VerifCachedView,
};
use fuel_core_storage::{
    Result as StorageResult,
    transactional::AtomicView,
};
use fuel_core_types::{
    blockchain::{
        SealedBlockHeader,
        consensus::Genesis,
    },
    fuel_tx::{
        TxId,
        UniqueIdentifier,
    },
    services::p2p::Transactions,
};
use serde_json::json;
use std::{
    ops::Range,
    sync::{
        Arc,
        Mutex,
    },
};
use vcommon::{
    rand::{
        Rng,
        rngs::StdRng,
    },
    *,
};

/// The production view, with a log of the ranges the cache layer fetched from it.
pub struct LoggingView {
    inner: OnChainIterableKeyValueView,
    fetched: Mutex<Vec<(bool, Range<u32>)>>,
}

impl P2pDb for LoggingView {
    fn get_sealed_headers(&self, r: Range<u32>) -> StorageResult<Option<Vec<SealedBlockHeader>>> {
        self.fetched.lock().unwrap().push((true, r.clone()));
        self.inner.get_sealed_headers(r)
    }

    fn get_transactions(&self, r: Range<u32>) -> StorageResult<Option<Vec<Transactions>>> {
        self.fetched.lock().unwrap().push((false, r.clone()));
        self.inner.get_transactions(r)
    }

    fn get_genesis(&self) -> StorageResult<Genesis> {
        self.inner.get_genesis()
    }
}

#[derive(Clone, Debug)]
enum Op {
    Headers(Range<u32>),
    Txs(Range<u32>),
    Grow(u32),
}

impl Op {
    fn to_json(&self) -> serde_json::Value {
        match self {
            Op::Headers(r) => json!({"headers": [r.start, r.end]}),
            Op::Txs(r) => json!({"txs": [r.start, r.end]}),
            Op::Grow(k) => json!({"grow": k}),
        }
    }
}

fn gen_range(rng: &mut StdRng, tip: u32, prev: &Option<Range<u32>>) -> (Range<u32>, &'static str) {
    let small = |rng: &mut StdRng| rng.gen_range(1..=10u32);
    match rng.gen_range(0..13) {
        0..=3 if tip > 0 => {
            let s = rng.gen_range(0..tip);
            let e = rng.gen_range(s + 1..=tip);
            (s..e, "within")
        }
        4 if tip > 0 => {
            let s = rng.gen_range(0..tip);
            (s..tip, "up_to_tip")
        }
        5 | 6 if tip > 0 => {
            let s = rng.gen_range(0..tip);
            (s..tip + small(rng), "across_tip")
        }
        7 => {
            let s = tip + rng.gen_range(0..3);
            (s..s + small(rng), "beyond_tip")
        }
        8 => {
            let s = rng.gen_range(0..=tip + 2);
            (s..s, "empty")
        }
        9 => {
            let s = rng.gen_range(1..=tip + 3);
            (s..rng.gen_range(0..s), "reversed")
        }
        10 => {
            let s = rng.gen_range(0..=tip + 1);
            (s..u32::MAX, "huge")
        }
        _ => match prev {
            // overlap with what the previous request put into the cache
            Some(p) if p.start < p.end => {
                let s = rng.gen_range(p.start.saturating_sub(2)..=p.end.min(p.start + 12));
                let e = s + rng.gen_range(0..=6);
                (s..e, "overlap_previous")
            }
            _ => (0..tip.min(12), "from_genesis"),
        },
    }
}

#[derive(Clone, PartialEq, Debug)]
enum Answer {
    /// block ids of sealed headers / per-block tx id lists; enough to name the content
    Headers(Option<Vec<SealedBlockHeader>>),
    Txs(Option<Vec<Vec<TxId>>>),
    Err(String),
}

impl Answer {
    fn brief(&self) -> String {
        match self {
            Answer::Headers(None) | Answer::Txs(None) => "None".into(),
            Answer::Headers(Some(v)) => format!("Some(heights {:?})", v.iter().map(|h| **h.entity.height()).collect::<Vec<u32>>()),
            Answer::Txs(Some(v)) => format!("Some(tx counts {:?})", v.iter().map(|t| t.len()).collect::<Vec<_>>()),
            Answer::Err(e) => format!("Err({e})"),
        }
    }
}

fn tx_ids(chain: &Chain, t: StorageResult<Option<Vec<Transactions>>>) -> Answer {
    match t {
        Ok(o) => Answer::Txs(o.map(|v| v.iter().map(|t| t.0.iter().map(|tx| tx.id(&chain.chain_id)).collect()).collect())),
        Err(e) => Answer::Err(format!("{e:?}")),
    }
}

fn headers(t: StorageResult<Option<Vec<SealedBlockHeader>>>) -> Answer {
    match t {
        Ok(o) => Answer::Headers(o),
        Err(e) => Answer::Err(format!("{e:?}")),
    }
}

/// independent expectation from the harness' own record
fn model_answer(chain: &Chain, headers_kind: bool, r: &Range<u32>) -> Answer {
    let all_exist = r.start >= r.end || r.end <= chain.len();
    if !all_exist {
        return if headers_kind { Answer::Headers(None) } else { Answer::Txs(None) };
    }
    let blocks: Vec<_> = if r.start >= r.end {
        vec![]
    } else {
        chain.model[r.start as usize..r.end as usize].to_vec()
    };
    if headers_kind {
        Answer::Headers(Some(blocks.iter().map(|b| b.sealed_header.clone()).collect()))
    } else {
        Answer::Txs(Some(blocks.iter().map(|b| b.tx_ids.clone()).collect()))
    }
}

pub struct Params {
    pub selftest: u32,
    pub ops_per_session: usize,
}

pub fn session(report: &Report, p: &Params, shard_seed: u64, shard: usize, it: u64) {
    let mut rng = rng_for(shard_seed, &[it]);
    let prefix = if p.selftest == 0 { "" } else { "selftest:" };
    let capacity = rng.gen_range(1..=8usize);
    let cache = VerifCachedView::new(capacity, false);
    let mut chain = Chain::new();
    // selftest 2: a second chain with different content plays a "stale" database
    let mut fork = Chain::new();
    let max_txs = *pick(&mut rng, &[0usize, 1, 3]);
    for _ in 0..*pick(&mut rng, &[0u32, 1, 3, 8]) {
        chain.grow(&mut rng, max_txs);
        fork.grow(&mut rng, max_txs);
    }
    report.count(&format!("c32.cache.capacity.{capacity}"));

    let mut ops: Vec<serde_json::Value> = Vec::new();
    let mut prev: Option<Range<u32>> = None;
    for step in 0..p.ops_per_session {
        let op = match rng.gen_range(0..100) {
            0..=9 => Op::Grow(rng.gen_range(1..=3)),
            10..=54 => Op::Headers(gen_range(&mut rng, chain.len(), &prev).0),
            _ => Op::Txs(gen_range(&mut rng, chain.len(), &prev).0),
        };
        ops.push(op.to_json());
        let (is_headers, range) = match &op {
            Op::Grow(k) => {
                for _ in 0..*k {
                    chain.grow(&mut rng, max_txs);
                    fork.grow(&mut rng, max_txs);
                }
                report.count("c32.ops.grow");
                continue;
            }
            Op::Headers(r) => (true, r.clone()),
            Op::Txs(r) => (false, r.clone()),
        };
        let tip = chain.len();
        let kind = if range.start >= range.end {
            "empty"
        } else if range.end <= tip {
            "within"
        } else if range.start < tip {
            "across_tip"
        } else {
            "beyond_tip"
        };
        report.count(&format!("c32.range.{kind}"));
        report.count(if is_headers { "c32.requests.headers" } else { "c32.requests.transactions" });

        // a fresh latest view per request (what handle_db_request does)
        let stale = p.selftest == 2 && step % 3 == 0;
        let source = if stale { &fork } else { &chain };
        let view = LoggingView {
            inner: source.db.latest_view().expect("latest view"),
            fetched: Mutex::new(Vec::new()),
        };
        let observed = catch(|| {
            if is_headers {
                headers(cache.get_sealed_headers(&view, range.clone()))
            } else {
                tx_ids(&chain, cache.get_transactions(&view, range.clone()))
            }
        });
        let mut observed = match observed {
            Ok(a) => a,
            Err(panic) => {
                report.inconclusive(format!("panic in CachedView for range {range:?}: {panic}"));
                continue;
            }
        };
        if p.selftest == 1 {
            // corrupt the observation: swap the first two items
            match &mut observed {
                Answer::Headers(Some(v)) if v.len() >= 2 => v.swap(0, 1),
                Answer::Txs(Some(v)) if v.len() >= 2 && v[0] != v[1] => v.swap(0, 1),
                _ => {}
            }
        }
        let fetched = view.fetched.lock().unwrap().clone();
        // the database's own answer, same moment, same kind of view
        let direct_view = chain.db.latest_view().expect("latest view");
        let direct = if is_headers {
            headers(direct_view.get_sealed_headers(range.clone()))
        } else {
            tx_ids(&chain, direct_view.get_transactions(range.clone()))
        };
        let model = model_answer(&chain, is_headers, &range);
        report.eval();

        let what = if is_headers { "headers" } else { "transactions" };
        let replay = json!({"seed": shard_seed, "shard": shard, "iteration": it, "capacity": capacity, "ops": ops});
        if observed != direct {
            let shape = match (&observed, &direct) {
                (Answer::Err(_), _) => "error",
                (Answer::Headers(Some(_)), Answer::Headers(None)) | (Answer::Txs(Some(_)), Answer::Txs(None)) => "served_what_db_lacks",
                (Answer::Headers(None), _) | (Answer::Txs(None), _) => "nothing_although_db_has_range",
                (Answer::Headers(Some(a)), Answer::Headers(Some(b))) if a.len() != b.len() => "wrong_length",
                (Answer::Txs(Some(a)), Answer::Txs(Some(b))) if a.len() != b.len() => "wrong_length",
                _ => "wrong_content",
            };
            report.violation(
                format!("{prefix}cached_view_differs_from_db kind={what} {shape}"),
                format!(
                    "range {range:?} (chain length {tip}, cache capacity {capacity}): CachedView answered {}, the database answers {}; fetched from db: {fetched:?}; history: {}",
                    observed.brief(),
                    direct.brief(),
                    serde_json::Value::Array(ops.clone())
                ),
                replay.clone(),
            );
        }
        if direct != model {
            report.violation(
                format!("{prefix}db_answer_differs_from_written_chain kind={what}"),
                format!(
                    "range {range:?} (chain length {tip}): database answers {}, the harness wrote {}",
                    direct.brief(),
                    model.brief()
                ),
                replay.clone(),
            );
        }

        // evidence: how the cache was involved
        let hit_kind = if range.start >= range.end {
            "empty_range"
        } else if fetched.is_empty() {
            "full_hit"
        } else if fetched.iter().any(|(_, f)| f.start > range.start) {
            "partial_hit"
        } else {
            "miss"
        };
        report.count(&format!("c32.cache.{hit_kind}"));
        match &observed {
            Answer::Headers(Some(_)) | Answer::Txs(Some(_)) => report.count("c32.answers.some"),
            Answer::Headers(None) | Answer::Txs(None) => report.count("c32.answers.none"),
            Answer::Err(_) => report.count("c32.answers.err"),
        }
        if hit_kind == "partial_hit" || hit_kind == "full_hit" {
            // non-trivial: the answer depended on earlier requests
            report.distinct(&(is_headers, capacity, range.start, range.end, tip, fetched.first().map(|f| f.1.start)));
        }
        if hit_kind == "partial_hit" && kind == "across_tip" {
            report.count("c32.cache.partial_hit_across_tip");
        }
        if report.wants_sample() && hit_kind == "partial_hit" && ops.len() < 25 {
            report.sample(json!({"capacity": capacity, "history": ops, "last_request_fetched_from_db": format!("{fetched:?}"), "answer": observed.brief()}));
        }
        if range.start < range.end {
            prev = Some(range);
        }
    }
}

/// several threads share one CachedView over a static chain (the service shares it
/// across its database thread pool)
pub fn concurrent_phase(report: &Report, seed: u64, selftest: u32) {
    let prefix = if selftest == 0 { "" } else { "selftest:" };
    let mut rng = rng_for(seed, &[tag("concurrent")]);
    let mut chain = Chain::new();
    for _ in 0..24 {
        chain.grow(&mut rng, 2);
    }
    let chain = Arc::new(chain);
    for capacity in [1usize, 2, 5, 8, 64] {
        let cache = Arc::new(VerifCachedView::new(capacity, false));
        let mut handles = Vec::new();
        for t in 0..4u64 {
            let chain = chain.clone();
            let cache = cache.clone();
            let report = report.clone();
            handles.push(std::thread::spawn(move || {
                let mut rng = rng_for(seed, &[tag("concurrent-thread"), t, capacity as u64]);
                let mut prev = None;
                for _ in 0..150 {
                    let (range, _) = gen_range(&mut rng, chain.len(), &prev);
                    let is_headers = rng.gen_bool(0.5);
                    let view = chain.db.latest_view().expect("view");
                    let r = catch(|| {
                        if is_headers {
                            (
                                headers(cache.get_sealed_headers(&view, range.clone())),
                                headers(view.get_sealed_headers(range.clone())),
                            )
                        } else {
                            (
                                tx_ids(&chain, cache.get_transactions(&view, range.clone())),
                                tx_ids(&chain, view.get_transactions(range.clone())),
                            )
                        }
                    });
                    match r {
                        Ok((observed, direct)) => {
                            report.eval();
                            report.count("c32.concurrent.requests");
                            if observed != direct {
                                report.violation(
                                    format!(
                                        "{prefix}cached_view_differs_from_db concurrent kind={}",
                                        if is_headers { "headers" } else { "transactions" }
                                    ),
                                    format!(
                                        "4 threads, capacity {capacity}, static chain of 24: range {range:?} answered {}, database answers {}",
                                        observed.brief(),
                                        direct.brief()
                                    ),
                                    json!({"seed": seed, "phase": "concurrent", "capacity": capacity, "thread": t}),
                                );
                            }
                        }
                        Err(p) => report.inconclusive(format!("panic in concurrent CachedView use: {p}")),
                    }
                    if range.start < range.end {
                        prev = Some(range);
                    }
                }
            }));
        }
        for h in handles {
            let _ = h.join();
        }
    }
}
