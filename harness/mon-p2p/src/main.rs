//! C32 — peers are served exactly what the database holds, within limits.
//!   cached.rs : (a) CachedView == database for any request history / chain growth
//!   codec.rs  : (b) request/response codec round trip and size limit
//!   net.rs    : (c) range-length limit through two real p2p services over loopback
//!   chain.rs  : generated chain in a real on-chain database + message generators

use serde_json::json;
use vcommon::*;

mod cached;
mod chain;
mod codec;
mod net;

const RULE: &str = "(a) sessions: a real CachedView (capacity 1..=8) in front of the real on-chain database view of a generated chain; 120-300 ops per session drawn from {headers(range), transactions(range), grow 1-3 blocks}; ranges within / up to / across / beyond the tip, empty, reversed, up to u32::MAX, and overlapping the previous request; every answer is compared with the database's own answer at that moment and with the harness' record of what it wrote; plus 4 threads sharing one cache. Distinct non-trivial = a request that was (partly) answered from the cache (key: kind, capacity, range, chain length, first height fetched from the database). (b) generated request/response messages of all variants, Ok and all 4 serializable error codes, protocols V1/V2, read back with the size limit at L-1, L, L+1, L/2, u32::MAX around the encoded length L. (c) two real p2p services over loopback: ranges of length {1,max-1,max,max+1,2max,1000} at 3 offsets requested from a server with max_headers_per_request=4.";

fn main() {
    let args = Args::parse();
    install_quiet_panic_hook();
    let report = Report::new(&args.property);
    match args.property.as_str() {
        "C32" => c32(&args, &report),
        other => report.inconclusive(format!("property {other} not implemented in this monitor")),
    }
    report.finish(
        &args,
        "exploration",
        RULE,
        false,
        &[
            "the chain only grows (no rollback / reorg while the cache is alive), as in a running node",
            "the database view is taken fresh per request, as Task::handle_db_request does",
            "protocol V1 cannot carry error codes: an error response is expected back as ProtocolV1EmptyResponse",
            "NetworkableTransactionPool is generated in its `Transaction` form only (the `PoolTransaction` form needs checked pool transactions)",
            "part (c) judges only replies actually received; if the loopback connection does not come up the run is inconclusive, never a violation",
        ],
    );
}

fn c32(args: &Args, report: &Report) {
    let selftest: u32 = args.extra.get("selftest").and_then(|s| s.parse().ok()).unwrap_or(0);

    if let Some(rep) = read_replay(args) {
        if rep["phase"] == "net" {
            net::run(report, args.seed, selftest);
        } else if rep.get("ops").is_some() {
            // (a): the session is a pure function of (seed, iteration)
            let p = cached::Params {
                selftest,
                ops_per_session: args.by_tier(120, 300),
            };
            cached::session(
                report,
                &p,
                rep["seed"].as_u64().unwrap_or(0),
                rep["shard"].as_u64().unwrap_or(0) as usize,
                rep["iteration"].as_u64().unwrap_or(0),
            );
        } else {
            // (b): one generated message pair, again a pure function of (seed, iteration)
            let seed = rep["seed"].as_u64().unwrap_or(0);
            let it = rep["iteration"].as_u64().unwrap_or(0);
            codec::run_shard(report, selftest, seed, rep["shard"].as_u64().unwrap_or(0) as usize, it + 1);
        }
        return;
    }

    // (c) runs on its own thread, overlapping with (a) and (b)
    let net_thread = {
        let report = report.clone();
        let seed = args.seed;
        std::thread::spawn(move || net::run(&report, seed, selftest))
    };

    // (a)
    let shards = args.by_tier(64usize, 256usize);
    let sessions_per_shard = args.by_tier(40u64, 80u64);
    let ops = args.by_tier(120usize, 300usize);
    {
        let report2 = report.clone();
        run_shards(report, args, shards, move |shard, shard_seed| {
            let p = cached::Params {
                selftest,
                ops_per_session: ops,
            };
            for it in 0..sessions_per_shard {
                cached::session(&report2, &p, shard_seed, shard, it);
            }
        });
    }
    report.info("c32.phase_a_sessions_done_s", json!(report.start.elapsed().as_secs_f64()));
    cached::concurrent_phase(report, args.seed, selftest);
    report.info("c32.phase_a_concurrent_done_s", json!(report.start.elapsed().as_secs_f64()));

    // (b)
    let codec_iters = args.by_tier(400u64, 1500u64);
    {
        let report2 = report.clone();
        let mut a2 = args.clone();
        a2.property = "C32-codec".into(); // different shard seeds than (a)
        run_shards(report, &a2, shards, move |shard, shard_seed| {
            codec::run_shard(&report2, selftest, shard_seed, shard, codec_iters);
        });
    }
    codec::probe_unknown_code(report);
    report.info("c32.phase_b_done_s", json!(report.start.elapsed().as_secs_f64()));

    let _ = net_thread.join();
    report.info("c32.phase_c_joined_s", json!(report.start.elapsed().as_secs_f64()));

    let sessions = shards as u64 * sessions_per_shard;
    report.info("c32.sessions", json!(sessions));
    let requests = sessions * ops as u64;
    report.require("c32.requests.headers", requests / 4);
    report.require("c32.requests.transactions", requests / 4);
    report.require("c32.ops.grow", requests / 20);
    report.require("c32.cache.partial_hit", requests / 50);
    report.require("c32.cache.full_hit", requests / 50);
    report.require("c32.cache.miss", requests / 20);
    report.require("c32.cache.partial_hit_across_tip", requests / 1000);
    report.require("c32.range.within", requests / 8);
    report.require("c32.range.across_tip", requests / 20);
    report.require("c32.range.beyond_tip", requests / 20);
    report.require("c32.range.empty", requests / 20);
    report.require("c32.answers.some", requests / 8);
    report.require("c32.answers.none", requests / 8);
    for c in 1..=8 {
        report.require(&format!("c32.cache.capacity.{c}"), sessions / 20);
    }
    report.require("c32.concurrent.requests", 5 * 4 * 150 * 9 / 10);
    let msgs = shards as u64 * codec_iters;
    for v in ["SealedHeaders", "Transactions", "TxPoolAllTransactionsIds", "TxPoolFullTransactions"] {
        report.require(&format!("c32.codec.request.{v}"), msgs / 8);
        for p in ["v1", "v2"] {
            report.require(&format!("c32.codec.response.{p}.{v}.ok"), msgs / 10);
            report.require(&format!("c32.codec.response.{p}.{v}.err"), msgs / 40);
        }
    }
    report.require("c32.codec.oversize_rejected", msgs);
    report.require("c32.codec.response.limit_at", msgs);
    report.require("c32.codec.response.larger_than_10k", msgs / 100);
    // (c): the limit must actually have been exercised on both sides of the boundary
    report.require("c32.net.refused_over_limit", 6);
    report.require("c32.net.served_within_limit", 6);
    report.require("c32.net.judged.transactions.len_max", 2);
    report.require("c32.net.judged.transactions.len_max+1", 2);
}
