//! C32 (b): every request / response message survives the request-response codec
//! unchanged within the size limit, and an encoding above the limit is not accepted.
//!
//! Driver: the real `RequestResponseMessageHandler<PostcardCodec>` (`write_request` /
//! `read_request` / `write_response` / `read_response`, protocols V1 and V2) on
//! generated messages of every variant, with the size limit placed at L-1, L, L+1
//! around the encoded length L (and far above / below).
//! Oracle: limit >= L  -> decode(encode(m)) == m (structural equality; for protocol V1
//! an error code travels as "empty response" and comes back as
//! `ProtocolV1EmptyResponse`, which is the documented V1 behaviour);
//! limit < L -> the read must fail.

use crate::chain::{
    gen_sealed_header,
    gen_tx,
};
use fuel_core_p2p::{
    codecs::{
        RequestResponseProtocols,
        postcard::PostcardCodec,
        request_response::RequestResponseMessageHandler,
    },
    request_response::{
        messages::{
            RequestMessage,
            ResponseMessageErrorCode,
            V2ResponseMessage,
        },
        protocols::RequestResponseProtocol,
    },
};
use fuel_core_types::{
    blockchain::SealedBlockHeader,
    fuel_tx::TxId,
    services::p2p::{
        NetworkableTransactionPool,
        Transactions,
    },
};
use serde_json::json;
use std::num::NonZeroU32;
use vcommon::{
    rand::{
        Rng,
        rngs::StdRng,
    },
    *,
};

/// All calls go through the `libp2p::request_response::Codec` implementation of the
/// handler; the bound on the type parameter makes its methods callable here.
async fn write_req<C>(c: &mut C, m: RequestMessage) -> std::io::Result<Vec<u8>>
where
    C: RequestResponseProtocols<Protocol = RequestResponseProtocol, Request = RequestMessage, Response = V2ResponseMessage> + Send,
{
    let mut buf = Vec::new();
    c.write_request(&RequestResponseProtocol::V2, &mut buf, m).await?;
    Ok(buf)
}

async fn read_req<C>(c: &mut C, proto: &RequestResponseProtocol, mut bytes: &[u8]) -> std::io::Result<RequestMessage>
where
    C: RequestResponseProtocols<Protocol = RequestResponseProtocol, Request = RequestMessage, Response = V2ResponseMessage> + Send,
{
    c.read_request(proto, &mut bytes).await
}

async fn write_resp<C>(c: &mut C, proto: &RequestResponseProtocol, m: V2ResponseMessage) -> std::io::Result<Vec<u8>>
where
    C: RequestResponseProtocols<Protocol = RequestResponseProtocol, Request = RequestMessage, Response = V2ResponseMessage> + Send,
{
    let mut buf = Vec::new();
    c.write_response(proto, &mut buf, m).await?;
    Ok(buf)
}

async fn read_resp<C>(c: &mut C, proto: &RequestResponseProtocol, mut bytes: &[u8]) -> std::io::Result<V2ResponseMessage>
where
    C: RequestResponseProtocols<Protocol = RequestResponseProtocol, Request = RequestMessage, Response = V2ResponseMessage> + Send,
{
    c.read_response(proto, &mut bytes).await
}

fn handler(limit: u32) -> RequestResponseMessageHandler<PostcardCodec> {
    RequestResponseMessageHandler::new(NonZeroU32::new(limit.max(1)).unwrap())
}

fn gen_request(rng: &mut StdRng) -> (RequestMessage, &'static str) {
    let range = |rng: &mut StdRng| -> std::ops::Range<u32> {
        match rng.gen_range(0..6) {
            0 => 0..0,
            1 => 0..u32::MAX,
            2 => u32::MAX..0,
            3 => u32::MAX..u32::MAX,
            4 => {
                let s = rng.gen_range(0..1000);
                s..s + rng.gen_range(0..200)
            }
            _ => rng.r#gen()..rng.r#gen(),
        }
    };
    match rng.gen_range(0..4) {
        0 => (RequestMessage::SealedHeaders(range(rng)), "SealedHeaders"),
        1 => (RequestMessage::Transactions(range(rng)), "Transactions"),
        2 => (RequestMessage::TxPoolAllTransactionsIds, "TxPoolAllTransactionsIds"),
        _ => {
            let n = *pick(rng, &[0usize, 1, 2, 17, 300]);
            (
                RequestMessage::TxPoolFullTransactions((0..n).map(|_| rng.r#gen::<TxId>()).collect()),
                "TxPoolFullTransactions",
            )
        }
    }
}

const CODES: [ResponseMessageErrorCode; 4] = [
    ResponseMessageErrorCode::ProtocolV1EmptyResponse,
    ResponseMessageErrorCode::RequestedRangeTooLarge,
    ResponseMessageErrorCode::Timeout,
    ResponseMessageErrorCode::SyncProcessorOutOfCapacity,
];

fn gen_response(rng: &mut StdRng) -> (V2ResponseMessage, &'static str) {
    let err = rng.gen_range(0..100) < 25;
    let code = CODES[rng.gen_range(0..4)].clone();
    let n = *pick(rng, &[0usize, 1, 2, 5, 20]);
    match rng.gen_range(0..4) {
        0 => {
            let payload: Vec<SealedBlockHeader> = (0..n).map(|i| gen_sealed_header(rng, i as u32 * 7)).collect();
            (V2ResponseMessage::SealedHeaders(if err { Err(code) } else { Ok(payload) }), "SealedHeaders")
        }
        1 => {
            let payload: Vec<Transactions> = (0..n)
                .map(|_| Transactions((0..rng.gen_range(0..4)).map(|_| gen_tx(rng)).collect()))
                .collect();
            (V2ResponseMessage::Transactions(if err { Err(code) } else { Ok(payload) }), "Transactions")
        }
        2 => {
            let payload: Vec<TxId> = (0..n * 10).map(|_| rng.r#gen()).collect();
            (
                V2ResponseMessage::TxPoolAllTransactionsIds(if err { Err(code) } else { Ok(payload) }),
                "TxPoolAllTransactionsIds",
            )
        }
        _ => {
            let payload: Vec<Option<NetworkableTransactionPool>> = (0..n)
                .map(|_| {
                    if rng.gen_bool(0.25) {
                        None
                    } else {
                        Some(NetworkableTransactionPool::Transaction(gen_tx(rng)))
                    }
                })
                .collect();
            (
                V2ResponseMessage::TxPoolFullTransactions(if err { Err(code) } else { Ok(payload) }),
                "TxPoolFullTransactions",
            )
        }
    }
}

fn same_code(a: &ResponseMessageErrorCode, b: &ResponseMessageErrorCode) -> bool {
    format!("{a:?}") == format!("{b:?}")
}

fn same_result<T: PartialEq>(
    a: &Result<Vec<T>, ResponseMessageErrorCode>,
    b: &Result<Vec<T>, ResponseMessageErrorCode>,
) -> bool {
    match (a, b) {
        (Ok(x), Ok(y)) => x == y,
        (Err(x), Err(y)) => same_code(x, y),
        _ => false,
    }
}

/// structural equality of responses (the type has no PartialEq)
fn same_response(a: &V2ResponseMessage, b: &V2ResponseMessage) -> bool {
    use V2ResponseMessage::*;
    match (a, b) {
        (SealedHeaders(x), SealedHeaders(y)) => same_result(x, y),
        (Transactions(x), Transactions(y)) => match (x, y) {
            (Ok(x), Ok(y)) => x.len() == y.len() && x.iter().zip(y.iter()).all(|(p, q)| p.0 == q.0),
            (Err(x), Err(y)) => same_code(x, y),
            _ => false,
        },
        (TxPoolAllTransactionsIds(x), TxPoolAllTransactionsIds(y)) => same_result(x, y),
        (TxPoolFullTransactions(x), TxPoolFullTransactions(y)) => same_result(x, y),
        _ => false,
    }
}

/// what protocol V1 can carry: the payload, or "empty"
fn v1_expectation(m: &V2ResponseMessage) -> V2ResponseMessage {
    use V2ResponseMessage::*;
    let e = || ResponseMessageErrorCode::ProtocolV1EmptyResponse;
    match m {
        SealedHeaders(r) => SealedHeaders(r.clone().map_err(|_| e())),
        Transactions(r) => Transactions(r.clone().map_err(|_| e())),
        TxPoolAllTransactionsIds(r) => TxPoolAllTransactionsIds(r.clone().map_err(|_| e())),
        TxPoolFullTransactions(r) => TxPoolFullTransactions(r.clone().map_err(|_| e())),
    }
}

fn brief(m: &V2ResponseMessage) -> String {
    let s = format!("{m:?}");
    if s.len() > 300 {
        format!("{}... ({} chars)", s.chars().take(300).collect::<String>(), s.len())
    } else {
        s
    }
}

pub fn run_shard(report: &Report, selftest: u32, shard_seed: u64, shard: usize, iters: u64) {
    let prefix = if selftest == 0 { "" } else { "selftest:" };
    let rt = tokio::runtime::Builder::new_current_thread().enable_all().build().expect("rt");
    for it in 0..iters {
        let mut rng = rng_for(shard_seed, &[it]);
        let replay = json!({"seed": shard_seed, "shard": shard, "iteration": it});

        // ---------------- requests ----------------
        let (req, variant) = gen_request(&mut rng);
        let bytes = match rt.block_on(write_req(&mut handler(u32::MAX), req.clone())) {
            Ok(b) => b,
            Err(e) => {
                report.violation(
                    format!("{prefix}request_not_encodable variant={variant}"),
                    format!("write_request failed for {req:?}: {e}"),
                    replay.clone(),
                );
                continue;
            }
        };
        let len = bytes.len() as u32;
        report.count(&format!("c32.codec.request.{variant}"));
        for (limit, where_) in [(len, "at"), (len + 1, "above"), (u32::MAX, "far_above"), (len.saturating_sub(1), "below"), (len / 2, "far_below")] {
            if limit == 0 {
                continue;
            }
            let proto = if rng.gen_bool(0.5) { RequestResponseProtocol::V1 } else { RequestResponseProtocol::V2 };
            let got = rt.block_on(read_req(&mut handler(limit), &proto, &bytes));
            let got = if selftest == 3 {
                // corrupt the observation
                got.map(|m| match m {
                    RequestMessage::SealedHeaders(r) => RequestMessage::SealedHeaders(r.start..r.end.wrapping_add(1)),
                    RequestMessage::Transactions(r) => RequestMessage::Transactions(r.start.wrapping_add(1)..r.end),
                    RequestMessage::TxPoolAllTransactionsIds => RequestMessage::TxPoolFullTransactions(vec![]),
                    RequestMessage::TxPoolFullTransactions(mut v) => {
                        v.push(TxId::zeroed());
                        RequestMessage::TxPoolFullTransactions(v)
                    }
                })
            } else {
                got
            };
            report.eval();
            let fits = limit >= len && limit >= 1;
            report.count(&format!("c32.codec.request.limit_{where_}"));
            match (fits, got) {
                (true, Ok(m)) => {
                    if m != req {
                        report.violation(
                            format!("{prefix}request_changed_by_roundtrip variant={variant}"),
                            format!("sent {req:?}, decoded {m:?} (encoded {len} bytes, limit {limit})"),
                            replay.clone(),
                        );
                    }
                }
                (true, Err(e)) => report.violation(
                    format!("{prefix}request_within_limit_rejected variant={variant}"),
                    format!("{req:?} encodes to {len} bytes, limit {limit}, read_request failed: {e}"),
                    replay.clone(),
                ),
                (false, Ok(m)) => {
                    if len > 0 {
                        report.violation(
                            format!("{prefix}request_above_size_limit_accepted variant={variant}"),
                            format!("{req:?} encodes to {len} bytes, limit {limit}, read_request accepted it as {m:?}"),
                            replay.clone(),
                        );
                    }
                }
                (false, Err(_)) => report.count("c32.codec.oversize_rejected"),
            }
        }

        // ---------------- responses ----------------
        let (resp, variant) = gen_response(&mut rng);
        let is_err = matches!(
            &resp,
            V2ResponseMessage::SealedHeaders(Err(_))
                | V2ResponseMessage::Transactions(Err(_))
                | V2ResponseMessage::TxPoolAllTransactionsIds(Err(_))
                | V2ResponseMessage::TxPoolFullTransactions(Err(_))
        );
        for proto in [RequestResponseProtocol::V2, RequestResponseProtocol::V1] {
            let pname = match proto {
                RequestResponseProtocol::V1 => "v1",
                RequestResponseProtocol::V2 => "v2",
            };
            let expected = match proto {
                RequestResponseProtocol::V2 => resp.clone(),
                RequestResponseProtocol::V1 => v1_expectation(&resp),
            };
            let bytes = match rt.block_on(write_resp(&mut handler(u32::MAX), &proto, resp.clone())) {
                Ok(b) => b,
                Err(e) => {
                    report.violation(
                        format!("{prefix}response_not_encodable variant={variant} proto={pname}"),
                        format!("write_response failed for {}: {e}", brief(&resp)),
                        replay.clone(),
                    );
                    continue;
                }
            };
            let len = bytes.len() as u32;
            report.count(&format!("c32.codec.response.{pname}.{variant}.{}", if is_err { "err" } else { "ok" }));
            report.add("c32.codec.response.bytes", len as u64);
            if len > 10_000 {
                report.count("c32.codec.response.larger_than_10k");
            }
            for (limit, where_) in [(len, "at"), (len + 1, "above"), (u32::MAX, "far_above"), (len.saturating_sub(1), "below"), (len / 2, "far_below")] {
                if limit == 0 {
                    continue;
                }
                let got = rt.block_on(read_resp(&mut handler(limit), &proto, &bytes));
                let got = if selftest == 4 {
                    // corrupt the observation: pretend an oversize message was accepted /
                    // a fitting one came back as something else
                    match got {
                        Err(_) => Ok(resp.clone()),
                        Ok(_) => Ok(V2ResponseMessage::TxPoolAllTransactionsIds(Ok(vec![TxId::zeroed()]))),
                    }
                } else {
                    got
                };
                report.eval();
                let fits = limit >= len && limit >= 1;
                report.count(&format!("c32.codec.response.limit_{where_}"));
                match (fits, got) {
                    (true, Ok(m)) => {
                        if !same_response(&m, &expected) {
                            report.violation(
                                format!("{prefix}response_changed_by_roundtrip variant={variant} proto={pname}"),
                                format!("sent {}, expected back {}, decoded {} (encoded {len} bytes, limit {limit})", brief(&resp), brief(&expected), brief(&m)),
                                replay.clone(),
                            );
                        }
                        report.distinct(&(variant, pname, is_err, len));
                    }
                    (true, Err(e)) => report.violation(
                        format!("{prefix}response_within_limit_rejected variant={variant} proto={pname}"),
                        format!("{} encodes to {len} bytes, limit {limit}, read_response failed: {e}", brief(&resp)),
                        replay.clone(),
                    ),
                    (false, Ok(m)) => {
                        if len > 0 {
                            report.violation(
                                format!("{prefix}response_above_size_limit_accepted variant={variant} proto={pname}"),
                                format!("{} encodes to {len} bytes, limit {limit}, read_response accepted it as {}", brief(&resp), brief(&m)),
                                replay.clone(),
                            );
                        }
                    }
                    (false, Err(_)) => report.count("c32.codec.oversize_rejected"),
                }
            }
        }
        if report.wants_sample() && it == 0 && shard < 3 {
            report.sample(json!({"request": format!("{req:?}"), "response": brief(&resp)}));
        }
    }
}

/// `ResponseMessageErrorCode::Unknown` is by design not serializable; observed only.
pub fn probe_unknown_code(report: &Report) {
    let rt = tokio::runtime::Builder::new_current_thread().enable_all().build().expect("rt");
    let m = V2ResponseMessage::SealedHeaders(Err(ResponseMessageErrorCode::Unknown));
    match rt.block_on(write_resp(&mut handler(u32::MAX), &RequestResponseProtocol::V2, m)) {
        Ok(_) => report.count("c32.codec.unknown_code.encoded"),
        Err(_) => report.count("c32.codec.unknown_code.refused_by_encoder"),
    }
}
