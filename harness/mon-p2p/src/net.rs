//! C32 (c): a request for more heights than allowed is refused; a request within the
//! limit is served exactly what the database holds.
//!
//! Driver: two real p2p services (`fuel_core_p2p::service::new_service`, real libp2p
//! over loopback TCP, mock importer / txpool ports). The "server" owns a generated
//! chain in a real on-chain database and is configured with a small
//! `max_headers_per_request`; the "client" reserves the server as peer and asks for
//! ranges of length {1, max-1, max, max+1, 2*max, 1000} through the public
//! `SharedState` API (`get_transactions_from_peer`, `get_sealed_block_headers`), i.e.
//! through `Task::process_request` -> `handle_db_request` on the server.
//! Oracle: len > max -> no data may come back; len <= max (range inside the chain)
//! -> exactly the server database's content for that range.
//! Anything that depends on the network coming up in time is *not judged* (counted);
//! only answers actually received are judged.

use crate::chain::Chain;
use fuel_core::database::{
    Database,
    database_description::on_chain::OnChain,
};
use fuel_core_p2p::{
    Multiaddr,
    config::{
        Config,
        NotInitialized,
    },
    ports::{
        BlockHeightImporter,
        P2pDb,
        TxPool,
    },
    service::{
        SharedState,
        build_shared_state,
        new_service,
    },
};
use fuel_core_services::{
    Service as _,
    stream::BoxStream,
};
use fuel_core_storage::transactional::AtomicView;
use fuel_core_types::{
    fuel_tx::{
        TxId,
        UniqueIdentifier,
    },
    fuel_types::{
        BlockHeight,
        ChainId,
    },
    services::p2p::{
        NetworkableTransactionPool,
        PeerId as FuelPeerId,
    },
};
use serde_json::json;
use std::{
    net::{
        IpAddr,
        Ipv4Addr,
    },
    ops::Range,
    time::{
        Duration,
        Instant,
    },
};
use vcommon::*;

#[derive(Clone)]
struct NoBlocks;

impl BlockHeightImporter for NoBlocks {
    fn next_block_height(&self) -> BoxStream<BlockHeight> {
        Box::pin(fuel_core_services::stream::pending())
    }
}

#[derive(Clone)]
struct EmptyPool;

impl TxPool for EmptyPool {
    async fn get_tx_ids(&self, _max: usize) -> anyhow::Result<Vec<TxId>> {
        Ok(vec![])
    }

    async fn get_full_txs(&self, tx_ids: Vec<TxId>) -> anyhow::Result<Vec<Option<NetworkableTransactionPool>>> {
        Ok(tx_ids.iter().map(|_| None).collect())
    }
}

fn free_port() -> u16 {
    let l = std::net::TcpListener::bind("127.0.0.1:0").expect("bind");
    l.local_addr().expect("addr").port()
}

fn base_config(name: &str) -> Config<NotInitialized> {
    let mut c = Config::<NotInitialized>::default(name);
    c.address = IpAddr::V4(Ipv4Addr::LOCALHOST);
    c.enable_mdns = false;
    c.database_read_threads = 1;
    c.tx_pool_threads = 1;
    c.random_walk = None;
    c
}

pub const MAX_PER_REQUEST: usize = 4;
pub const CHAIN_LEN: u32 = 16;

pub fn run(report: &Report, seed: u64, selftest: u32) {
    let rt = match tokio::runtime::Builder::new_multi_thread().worker_threads(2).enable_all().build() {
        Ok(rt) => rt,
        Err(e) => {
            report.note(format!("net: no runtime: {e}"));
            report.count("c32.net.not_judged.setup_failed");
            return;
        }
    };
    let r = catch(|| rt.block_on(run_async(report, seed, selftest)));
    if let Err(p) = r {
        report.note(format!("net: harness panic (not judged): {p}"));
        report.count("c32.net.not_judged.setup_failed");
    }
    rt.shutdown_timeout(Duration::from_secs(2));
}

async fn run_async(report: &Report, seed: u64, selftest: u32) {
    let prefix = if selftest == 0 { "" } else { "selftest:" };
    let mut rng = rng_for(seed, &[tag("net")]);
    let mut chain = Chain::new();
    for _ in 0..CHAIN_LEN {
        chain.grow(&mut rng, 2);
    }
    // the client only needs the same genesis (network checksum)
    let mut client_chain = Chain::new();
    client_chain.grow(&mut rng_for(seed, &[tag("net-client")]), 0);

    let port = free_port();
    let mut server_cfg = base_config("verif-c32");
    server_cfg.tcp_port = port;
    server_cfg.max_headers_per_request = MAX_PER_REQUEST;
    let server_peer = server_cfg.keypair.public().to_peer_id();
    let server_addr: Multiaddr = match format!("/ip4/127.0.0.1/tcp/{port}/p2p/{server_peer}").parse() {
        Ok(a) => a,
        Err(e) => {
            report.note(format!("net: bad multiaddr: {e}"));
            report.count("c32.net.not_judged.setup_failed");
            return;
        }
    };
    let mut client_cfg = base_config("verif-c32");
    client_cfg.tcp_port = free_port();
    client_cfg.reserved_nodes = vec![server_addr.clone()];
    client_cfg.bootstrap_nodes = vec![server_addr];

    let (server_shared, server_rx) = build_shared_state(server_cfg.clone());
    let server = new_service(
        ChainId::default(),
        BlockHeight::new(CHAIN_LEN - 1),
        server_cfg,
        server_shared,
        server_rx,
        chain.db.clone(),
        NoBlocks,
        EmptyPool,
    );
    let (client_shared, client_rx) = build_shared_state(client_cfg.clone());
    let client = new_service(
        ChainId::default(),
        BlockHeight::new(0),
        client_cfg,
        client_shared,
        client_rx,
        client_chain.db.clone(),
        NoBlocks,
        EmptyPool,
    );

    for (name, svc_start) in [("server", server.start_and_await().await), ("client", client.start_and_await().await)] {
        match svc_start {
            Ok(s) if s.started() => {}
            other => {
                report.note(format!("net: {name} did not start: {other:?}"));
                report.count("c32.net.not_judged.setup_failed");
                return;
            }
        }
    }
    let shared: SharedState = client.shared.clone();

    // wait for the connection and the server's first heartbeat (its height)
    let t0 = Instant::now();
    let mut connected = false;
    let mut height_known = false;
    while t0.elapsed() < Duration::from_secs(25) {
        if let Ok(peers) = shared.get_all_peers().await {
            if let Some((_, info)) = peers.iter().find(|(id, _)| *id == server_peer) {
                connected = true;
                if info.heartbeat_data.block_height.is_some_and(|h| *h >= CHAIN_LEN - 1) {
                    height_known = true;
                    break;
                }
            }
        }
        tokio::time::sleep(Duration::from_millis(50)).await;
    }
    report.info("c32.net.connect_ms", json!(t0.elapsed().as_millis() as u64));
    if !connected {
        report.note("net: client never saw the server as peer within 25 s (not judged)");
        report.count("c32.net.not_judged.no_connection");
        let _ = client.stop_and_await().await;
        let _ = server.stop_and_await().await;
        return;
    }
    report.count("c32.net.connected");

    let fuel_peer = FuelPeerId::from(server_peer.to_bytes());
    let view = chain.db.latest_view().expect("view");
    let m = MAX_PER_REQUEST as u32;
    let lens: Vec<(u32, &'static str)> = vec![
        (1, "1"),
        (m - 1, "max-1"),
        (m, "max"),
        (m + 1, "max+1"),
        (2 * m, "2*max"),
        (1000, "1000"),
    ];
    for start in [0u32, 1, 5] {
        for (len, len_class) in &lens {
            let range: Range<u32> = start..start + *len;
            let within_chain = range.end <= CHAIN_LEN;
            let allowed = *len <= m;

            // ---- transactions, from the reserved peer
            let mut attempts = 0;
            let answer = loop {
                attempts += 1;
                let t = Instant::now();
                let a = tokio::time::timeout(Duration::from_secs(15), shared.get_transactions_from_peer(fuel_peer.clone(), range.clone())).await;
                let fast = t.elapsed() < Duration::from_secs(5);
                match a {
                    Ok(Ok(Some(v))) => break Some(Some(v)),
                    Ok(Ok(None)) if !allowed || !within_chain || (attempts >= 2 && fast) => break Some(None),
                    Ok(Ok(None)) if attempts < 2 => continue,
                    _ if attempts < 2 => continue,
                    _ => break None,
                }
            };
            judge(
                report,
                prefix,
                selftest,
                "transactions",
                &range,
                len_class,
                allowed,
                within_chain,
                answer.map(|o| {
                    o.map(|v| {
                        v.iter()
                            .map(|t| format!("{:?}", t.0.iter().map(|tx| tx.id(&ChainId::default())).collect::<Vec<_>>()))
                            .collect::<Vec<String>>()
                    })
                }),
                view.get_transactions(range.clone()).ok().flatten().map(|v| {
                    v.iter()
                        .map(|t| format!("{:?}", t.0.iter().map(|tx| tx.id(&ChainId::default())).collect::<Vec<_>>()))
                        .collect::<Vec<String>>()
                }),
            );

            // ---- headers, peer chosen by height (needs the heartbeat)
            if height_known && within_chain {
                let mut attempts = 0;
                let answer = loop {
                    attempts += 1;
                    let t = Instant::now();
                    let a = tokio::time::timeout(Duration::from_secs(15), shared.get_sealed_block_headers(range.clone())).await;
                    let fast = t.elapsed() < Duration::from_secs(5);
                    match a {
                        Ok(Ok((_, Some(v)))) => break Some(Some(v)),
                        Ok(Ok((_, None))) if !allowed || (attempts >= 2 && fast) => break Some(None),
                        _ if attempts < 2 => continue,
                        _ => break None,
                    }
                };
                judge(
                    report,
                    prefix,
                    selftest,
                    "headers",
                    &range,
                    len_class,
                    allowed,
                    within_chain,
                    answer.map(|o| o.map(|v| v.iter().map(|h| format!("{:?}", h.entity.id())).collect::<Vec<String>>())),
                    view.get_sealed_headers(range.clone())
                        .ok()
                        .flatten()
                        .map(|v| v.iter().map(|h| format!("{:?}", h.entity.id())).collect::<Vec<String>>()),
                );
            } else {
                report.count("c32.net.not_judged.headers_no_heartbeat_or_beyond_chain");
            }
        }
    }
    let _ = client.stop_and_await().await;
    let _ = server.stop_and_await().await;
}

/// `answer`: None = the harness got no usable reply (not judged); Some(None) = the
/// peer replied without data; Some(Some(items)) = data (items rendered as ids).
#[allow(clippy::too_many_arguments)]
fn judge(
    report: &Report,
    prefix: &str,
    selftest: u32,
    what: &str,
    range: &Range<u32>,
    len_class: &str,
    allowed: bool,
    within_chain: bool,
    answer: Option<Option<Vec<String>>>,
    db: Option<Vec<String>>,
) {
    let Some(mut answer) = answer else {
        report.count("c32.net.not_judged.no_reply");
        return;
    };
    if selftest == 5 {
        // corrupt the observation: an over-long request "served", a served one altered
        answer = match answer {
            None => Some(vec!["fabricated".into()]),
            Some(mut v) => {
                v.reverse();
                v.push("extra".into());
                Some(v)
            }
        };
    }
    report.eval();
    report.count(&format!("c32.net.judged.{what}.len_{len_class}"));
    let replay = json!({"phase": "net", "what": what, "range": [range.start, range.end], "max_per_request": MAX_PER_REQUEST});
    match (&answer, allowed) {
        (Some(items), false) => report.violation(
            format!("{prefix}range_limit_not_enforced kind={what} len={len_class}"),
            format!(
                "request for {what} {range:?} ({} heights, server limit {MAX_PER_REQUEST}) was answered with {} items",
                range.len(),
                items.len()
            ),
            replay,
        ),
        (None, false) => report.count("c32.net.refused_over_limit"),
        (Some(items), true) => {
            report.count("c32.net.served_within_limit");
            if db.as_ref() != Some(items) {
                report.violation(
                    format!("{prefix}served_range_differs_from_db kind={what}"),
                    format!("request for {what} {range:?}: peer served {items:?}, its database holds {db:?}"),
                    replay,
                );
            } else {
                report.distinct(&(what.to_string(), range.start, range.end));
            }
        }
        (None, true) => {
            if within_chain {
                report.violation(
                    format!("{prefix}request_within_limit_refused kind={what} len={len_class}"),
                    format!(
                        "request for {what} {range:?} ({} heights <= limit {MAX_PER_REQUEST}, all in the server's chain of {CHAIN_LEN}) came back without data twice",
                        range.len()
                    ),
                    replay,
                );
            } else {
                report.count("c32.net.nothing_for_range_beyond_chain");
            }
        }
    }
}

#[allow(dead_code)]
fn _assert_ports(db: &Database<OnChain>) {
    fn is_p2p_db<T: P2pDb>(_: &T) {}
    is_p2p_db(&db.latest_view().unwrap());
}
