//! Generated chain in a real `Database<OnChain>` (in-memory) plus the harness' own
//! record of what was written, and generators for headers / transactions used by
//! the codec part.

use fuel_core::database::{
    Database,
    database_description::on_chain::OnChain,
};
use fuel_core_storage::{
    StorageAsMut,
    tables::{
        FuelBlocks,
        SealedBlockConsensus,
        Transactions,
    },
    transactional::WriteTransaction,
};
use fuel_core_types::{
    blockchain::{
        SealedBlockHeader,
        block::Block,
        consensus::{
            Consensus,
            Genesis,
            poa::PoAConsensus,
        },
        header::BlockHeader,
        primitives::DaBlockHeight,
    },
    fuel_crypto::{
        SecretKey,
        Signature,
    },
    fuel_tx::{
        AssetId,
        Bytes32,
        ContractId,
        Output,
        Transaction,
        TransactionBuilder,
        TxId,
        TxPointer,
        UniqueIdentifier,
        UtxoId,
        input,
        output,
    },
    fuel_types::{
        BlockHeight,
        ChainId,
    },
    tai64::Tai64,
};
use vcommon::rand::{
    Rng,
    rngs::StdRng,
};

pub fn gen_tx(rng: &mut StdRng) -> Transaction {
    match rng.gen_range(0..10) {
        0 => Transaction::default_test_tx(),
        1 | 2 => {
            let h: u32 = rng.r#gen();
            Transaction::mint(
                TxPointer::new(BlockHeight::new(h), rng.r#gen()),
                input::contract::Contract {
                    utxo_id: UtxoId::new(rng.r#gen(), rng.r#gen()),
                    balance_root: rng.r#gen(),
                    state_root: rng.r#gen(),
                    tx_pointer: TxPointer::new(BlockHeight::new(rng.r#gen()), rng.r#gen()),
                    contract_id: rng.r#gen(),
                },
                output::contract::Contract {
                    input_index: 0,
                    balance_root: rng.r#gen(),
                    state_root: rng.r#gen(),
                },
                rng.r#gen(),
                rng.r#gen(),
                rng.r#gen(),
            )
            .into()
        }
        _ => {
            let script_len = *vcommon::pick(rng, &[0usize, 1, 4, 40, 400]);
            let data_len = *vcommon::pick(rng, &[0usize, 1, 33, 300, 3000]);
            let script: Vec<u8> = (0..script_len).map(|_| rng.r#gen::<u8>()).collect();
            let data: Vec<u8> = (0..data_len).map(|_| rng.r#gen::<u8>()).collect();
            let mut b = TransactionBuilder::script(script, data);
            b.script_gas_limit(rng.gen_range(0..1_000_000));
            for _ in 0..rng.gen_range(1..=3) {
                let secret = SecretKey::random(rng);
                b.add_unsigned_coin_input(
                    secret,
                    UtxoId::new(rng.r#gen(), rng.r#gen()),
                    rng.r#gen(),
                    rng.r#gen(),
                    Default::default(),
                );
            }
            for _ in 0..rng.gen_range(0..=3) {
                let asset: AssetId = rng.r#gen();
                b.add_output(Output::coin(rng.r#gen(), rng.r#gen(), asset));
            }
            if rng.gen_bool(0.3) {
                let c: ContractId = rng.r#gen();
                let _ = c;
                b.add_output(Output::change(rng.r#gen(), 0, rng.r#gen()));
            }
            b.finalize_as_transaction()
        }
    }
}

pub fn gen_header(rng: &mut StdRng, height: u32) -> BlockHeader {
    let mut h = BlockHeader::default();
    h.set_block_height(BlockHeight::new(height));
    h.set_time(Tai64(rng.gen_range(0..u32::MAX as u64)));
    h.set_da_height(DaBlockHeight(rng.r#gen()));
    let root: Bytes32 = rng.r#gen();
    h.set_previous_root(root);
    let root: Bytes32 = rng.r#gen();
    h.set_transaction_root(root);
    h.set_message_receipt_count(rng.r#gen());
    h
}

pub fn gen_consensus(rng: &mut StdRng, genesis: bool) -> Consensus {
    if genesis {
        Consensus::Genesis(Genesis::default())
    } else {
        let mut sig = [0u8; 64];
        rng.fill(&mut sig[..]);
        Consensus::PoA(PoAConsensus::new(Signature::from_bytes(sig)))
    }
}

pub fn gen_sealed_header(rng: &mut StdRng, height: u32) -> SealedBlockHeader {
    let genesis = height == 0 && rng.gen_bool(0.5);
    SealedBlockHeader {
        entity: gen_header(rng, height),
        consensus: gen_consensus(rng, genesis),
    }
}

/// What the harness wrote at one height.
#[derive(Clone)]
pub struct ModelBlock {
    pub sealed_header: SealedBlockHeader,
    pub tx_ids: Vec<TxId>,
}

pub struct Chain {
    pub db: Database<OnChain>,
    pub model: Vec<ModelBlock>,
    pub chain_id: ChainId,
}

impl Chain {
    pub fn new() -> Self {
        Chain {
            db: Database::<OnChain>::in_memory(),
            model: Vec::new(),
            chain_id: ChainId::default(),
        }
    }

    pub fn len(&self) -> u32 {
        self.model.len() as u32
    }

    /// append one block (header, consensus, transactions) in one commit, like the importer
    pub fn grow(&mut self, rng: &mut StdRng, max_txs: usize) {
        let height = self.len();
        let mut block = Block::default();
        *block.header_mut() = gen_header(rng, height);
        let n_txs = rng.gen_range(0..=max_txs);
        let txs: Vec<Transaction> = (0..n_txs).map(|_| gen_tx(rng)).collect();
        *block.transactions_mut() = txs.clone();
        let consensus = gen_consensus(rng, height == 0);
        let compressed = block.compress(&self.chain_id);
        let tx_ids: Vec<TxId> = txs.iter().map(|t| t.id(&self.chain_id)).collect();

        let mut tx = self.db.write_transaction();
        tx.storage_as_mut::<FuelBlocks>()
            .insert(&BlockHeight::new(height), &compressed)
            .expect("insert block");
        tx.storage_as_mut::<SealedBlockConsensus>()
            .insert(&BlockHeight::new(height), &consensus)
            .expect("insert consensus");
        for (id, t) in tx_ids.iter().zip(txs.iter()) {
            tx.storage_as_mut::<Transactions>().insert(id, t).expect("insert tx");
        }
        tx.commit().expect("commit block");

        self.model.push(ModelBlock {
            sealed_header: SealedBlockHeader {
                entity: block.header().clone(),
                consensus,
            },
            tx_ids,
        });
    }
}
