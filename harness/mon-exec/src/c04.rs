//! C04: failed (reverted / panicked) scripts and skipped transactions have only
//! their allowed effects.

use crate::{
    common::*,
    model::tx_parts,
};
use chaingen::{
    BlockPlan,
    ChainSession,
    GenOptions,
    PlannedTx,
    Produced,
    SessionConfig,
    SourceKind,
    canon::{
        CanonOp,
        diff_changes,
        first_debug_diff,
        fmt_op,
    },
    fuel_core_storage::column::Column,
    fuel_core_types::{
        fuel_tx::{
            ContractId,
            Input,
            Output,
            Receipt,
            Transaction,
            UtxoId,
        },
        services::executor::TransactionExecutionResult,
    },
    programs::ContractKind,
};
use std::collections::BTreeSet;
use vcommon::{
    Args,
    Report,
    catch,
    chance,
    rand::rngs::StdRng,
    serde_json::json,
};

pub const RULE: &str = "revert-heavy sessions; for every planned transaction of every block the transaction is executed \
*alone* in a block on the uncommitted parent state and compared with the block that contains no L2 transaction at all \
(same header data, same DA range): for a Failed status the differing writes are classified by column against the \
allowed set (inputs removed, outputs created, processed-id, latest-utxo of input contracts, coinbase balance); for a \
skipped transaction nothing may differ. In addition the full block is produced with and without its skipped \
transactions and must be identical. Then the full block is committed. distinct = (script steps, terminal, failure \
reason / skip reason, inputs kinds).";

fn diff_ops(a: &[CanonOp], base: &[CanonOp]) -> Vec<CanonOp> {
    // ops of `a` that are not identically in `base`, plus ops of base missing in a (as seen from a: absent)
    let bs: BTreeSet<&CanonOp> = base.iter().collect();
    let as_: BTreeSet<&CanonOp> = a.iter().collect();
    let mut out: Vec<CanonOp> = a.iter().filter(|o| !bs.contains(o)).cloned().collect();
    for o in base {
        if !as_.contains(o) && !a.iter().any(|x| x.0 == o.0 && x.1 == o.1) {
            // base wrote a key that the tx block does not write at all
            out.push((o.0, o.1.clone(), Some(b"<write of the empty block is missing>".to_vec())));
        }
    }
    out
}

fn col(c: Column) -> u32 {
    c as u32
}

struct Checker<'a> {
    c: &'a Ctx,
    case: &'a Case,
}

impl Checker<'_> {
    fn check_single(
        &self,
        sess: &ChainSession,
        plan: &BlockPlan,
        p: &PlannedTx,
        base: &Produced,
        base_canon: &[CanonOp],
        rng: &mut StdRng,
    ) {
        let c = self.c;
        let single = match catch(|| sess.produce_txs(plan, std::slice::from_ref(p), SourceKind::Once)) {
            Ok(Ok(s)) => s,
            Ok(Err(e)) => {
                c.report.count(&format!("c04.single_production_error.{}", err_variant(&e)));
                return;
            }
            Err(pn) => {
                c.report.inconclusive(format!("panic producing single-tx block: {pn}"));
                return;
            }
        };
        let replay = |what: &str| {
            self.case.replay(
                plan.height,
                json!({"tx": p.label(), "tx_id": format!("{:x}", p.id), "what": what, "gas_price": plan.gas_price,
                       "da": plan.da_height, "recipient": format!("{:x}", plan.coinbase_recipient)}),
            )
        };
        c.report.eval();
        let n_l1 = base.block.transactions().len() - 1;
        let mut canon = single.canon();
        // ------------------------------------------------------------ skipped
        if single.skipped.iter().any(|(id, _)| *id == p.id) && single.block.transactions().len() == n_l1 + 1 {
            let reason = err_variant(&single.skipped[0].1);
            c.report.count(&format!("c04.skipped.{reason}"));
            c.report.count("c04.skipped_checked");
            if c.st(2) {
                canon.push((col(Column::Coins), vec![1, 2, 3], None));
            }
            let mut problems = Vec::new();
            if let Some(d) = diff_changes(&canon, base_canon) {
                problems.push(format!("changes: {d}"));
            }
            if single.block.header() != base.block.header() || single.block.transactions() != base.block.transactions() {
                problems.push("block differs".to_string());
            }
            if let Some(d) = first_debug_diff(&single.events, &base.events) {
                problems.push(format!("events: {d}"));
            }
            if let Some(d) = first_debug_diff(&single.tx_status, &base.tx_status) {
                problems.push(format!("statuses: {d}"));
            }
            if !problems.is_empty() {
                c.violation(
                    &format!("skipped_tx_changed_something {reason}"),
                    format!("block with only the skipped tx ({}) vs block without it: {}", p.label(), problems.join("; ")),
                    replay("skipped"),
                );
            }
            c.report.distinct(&("skipped", reason, p.label()));
            return;
        }
        // ------------------------------------------------------------ executed
        let Some(status) = single.tx_status.iter().find(|s| s.id == p.id) else {
            c.report.count("c04.single_not_executed_not_skipped");
            return
        };
        let TransactionExecutionResult::Failed {
            receipts,
            total_fee,
            total_gas,
            result,
        } = &status.result
        else {
            c.report.count("c04.single_success");
            return
        };
        let reason = TransactionExecutionResult::reason(receipts, result);
        let reason = reason.split('(').next().unwrap_or("").to_string();
        c.report.count(&format!("c04.failed.{reason}"));
        c.report.count("c04.failed_checked");
        let Some(tx) = single.block.transactions().get(n_l1) else { return };
        let Some((inputs, outputs)) = tx_parts(tx) else { return };

        // evidence: did a storage write really execute before the failure?
        let mut wrote = 0;
        for r in receipts.iter() {
            let (id, done) = match r {
                Receipt::Return { id, .. } => (id, "return"),
                Receipt::Revert { id, .. } => (id, "revert"),
                Receipt::Panic { id, .. } => (id, "panic"),
                _ => continue,
            };
            let k = sess.contract_kind(id);
            let w = match (k, done) {
                (Some(ContractKind::Store | ContractKind::Multi | ContractKind::Forwarder), "return") => true,
                (Some(ContractKind::StoreRevert), "revert") => true,
                (Some(ContractKind::StorePanic), "panic") => true,
                _ => false,
            };
            if w {
                wrote += 1;
            }
        }
        let had_balance_effect = receipts.iter().any(|r| {
            matches!(
                r,
                Receipt::Transfer { .. } | Receipt::TransferOut { .. } | Receipt::Mint { .. } | Receipt::Burn { .. } | Receipt::MessageOut { .. }
            )
        });
        if wrote > 0 {
            c.report.count("c04.failed_after_storage_write");
        }
        if had_balance_effect {
            c.report.count("c04.failed_after_balance_or_outbox_effect");
        }
        let data_msgs: Vec<_> = inputs
            .iter()
            .filter(|i| matches!(i, Input::MessageDataSigned(_) | Input::MessageDataPredicate(_)))
            .filter_map(|i| i.nonce().copied())
            .collect();
        let coin_msgs: Vec<_> = inputs
            .iter()
            .filter(|i| matches!(i, Input::MessageCoinSigned(_) | Input::MessageCoinPredicate(_)))
            .filter_map(|i| i.nonce().copied())
            .collect();
        if !data_msgs.is_empty() {
            c.report.count("c04.failed_with_retryable_message_input");
        }
        if !coin_msgs.is_empty() {
            c.report.count("c04.failed_with_message_coin_input");
        }

        // ---- classification of attributable writes
        if c.st(1) {
            canon.push((col(Column::ContractsState), vec![9; 64], Some(vec![1; 32])));
            canon.sort();
        }
        let attributable = diff_ops(&canon, base_canon);
        let coin_inputs: BTreeSet<Vec<u8>> = inputs
            .iter()
            .filter_map(|i| i.utxo_id().filter(|_| i.is_coin()).map(utxo_key))
            .collect();
        let input_contracts: BTreeSet<Vec<u8>> = inputs.iter().filter_map(|i| i.contract_id().map(|c| c.to_vec())).collect();
        let mut removed_coins = BTreeSet::new();
        let mut removed_msgs = BTreeSet::new();
        let mut created_coins = BTreeSet::new();
        let mut bad: Vec<String> = Vec::new();
        for op in &attributable {
            let column = Column::try_from(op.0).ok();
            match column {
                Some(Column::Coins) => match &op.2 {
                    None => {
                        if !coin_inputs.contains(&op.1) {
                            bad.push(format!("coin removed that is not an input: {}", fmt_op(op)));
                        }
                        removed_coins.insert(op.1.clone());
                    }
                    Some(_) => {
                        if op.1.len() < 32 || op.1[..32] != p.id[..] && op.1[..32] != mint_id(&single, sess)[..] {
                            bad.push(format!("coin created under a foreign tx id: {}", fmt_op(op)));
                        }
                        created_coins.insert(op.1.clone());
                    }
                },
                Some(Column::Messages) => match &op.2 {
                    None => {
                        if data_msgs.iter().any(|n| n.as_slice() == op.1.as_slice()) {
                            bad.push(format!("retryable data message removed by a failed tx: {}", fmt_op(op)));
                        } else if !coin_msgs.iter().any(|n| n.as_slice() == op.1.as_slice()) {
                            bad.push(format!("message removed that is not a message-coin input: {}", fmt_op(op)));
                        }
                        removed_msgs.insert(op.1.clone());
                    }
                    Some(_) => bad.push(format!("message written: {}", fmt_op(op))),
                },
                Some(Column::ProcessedTransactions) => {}
                Some(Column::ContractsLatestUtxo) => {
                    let coinbase = plan.coinbase_recipient.to_vec();
                    if !input_contracts.contains(&op.1) && op.1 != coinbase {
                        bad.push(format!("latest utxo of a contract that is not an input: {}", fmt_op(op)));
                    }
                }
                Some(Column::ContractsAssets) => {
                    let mut key = plan.coinbase_recipient.to_vec();
                    key.extend_from_slice(sess.base_asset().as_ref());
                    if op.1 != key || plan.coinbase_recipient == ContractId::zeroed() {
                        bad.push(format!("contract balance changed: {}", fmt_op(op)));
                    }
                }
                Some(Column::ContractsState) => bad.push(format!("contract state changed: {}", fmt_op(op))),
                _ => bad.push(format!("write outside the allowed tables: {}", fmt_op(op))),
            }
        }
        if !bad.is_empty() {
            let kind = if bad.iter().any(|b| b.starts_with("contract state")) {
                "contract_state"
            } else if bad.iter().any(|b| b.starts_with("contract balance")) {
                "contract_balance"
            } else if bad.iter().any(|b| b.starts_with("retryable")) {
                "retryable_message_removed"
            } else {
                "other_table"
            };
            c.violation(
                &format!("failed_tx_leaked_writes {kind}"),
                format!("tx {} failed with {reason} but its block differs from the empty block by: {}", p.label(), bad.join(" | ")),
                replay("failed"),
            );
        }
        // inputs consumed
        let missing: Vec<_> = coin_inputs.iter().filter(|k| !removed_coins.contains(*k)).map(hex::encode).collect();
        if !missing.is_empty() {
            c.violation(
                "failed_tx_coin_input_not_consumed",
                format!("tx {} failed ({reason}) but its coin inputs {missing:?} were not removed", p.label()),
                replay("failed"),
            );
        }
        for n in &coin_msgs {
            if !removed_msgs.contains(n.as_slice()) {
                c.violation(
                    "failed_tx_message_coin_input_not_consumed",
                    format!("tx {} failed ({reason}) but message {n:x} was not removed", p.label()),
                    replay("failed"),
                );
            }
        }
        // created coins == coin/change outputs with amount > 0, variable outputs empty
        let mut expect_created = BTreeSet::new();
        for (i, o) in outputs.iter().enumerate() {
            match o {
                Output::Coin { amount, .. } | Output::Change { amount, .. } if *amount > 0 => {
                    expect_created.insert(utxo_key(&UtxoId::new(p.id, i as u16)));
                }
                Output::Variable { amount, .. } if *amount > 0 => {
                    c.violation(
                        "failed_tx_variable_output_has_value",
                        format!("tx {} failed ({reason}) but variable output {i} carries {amount}", p.label()),
                        replay("failed"),
                    );
                }
                _ => {}
            }
        }
        let created_by_tx: BTreeSet<Vec<u8>> = created_coins.iter().filter(|k| k[..32] == p.id[..]).cloned().collect();
        if created_by_tx != expect_created {
            c.violation(
                "failed_tx_created_coins_differ_from_outputs",
                format!("tx {}: created {:?}, outputs say {:?}", p.label(), created_by_tx.iter().map(hex::encode).collect::<Vec<_>>(), expect_created.iter().map(hex::encode).collect::<Vec<_>>()),
                replay("failed"),
            );
        }
        // no outbox message
        let h = single.block.header();
        let bh = base.block.header();
        if h.message_receipt_count() != bh.message_receipt_count() || h.message_outbox_root() != bh.message_outbox_root() {
            c.violation(
                "failed_tx_produced_outbox_message",
                format!("tx {} failed ({reason}); outbox count {} vs {} without it", p.label(), h.message_receipt_count(), bh.message_receipt_count()),
                replay("failed"),
            );
        }
        // fee paid
        let mut fee = *total_fee;
        if c.st(3) {
            fee = 0;
        }
        if *total_gas == 0 {
            c.violation("failed_tx_used_no_gas", format!("tx {}", p.label()), replay("failed"));
        }
        if plan.gas_price > 0 && fee == 0 {
            c.violation(
                "failed_tx_paid_no_fee",
                format!("tx {} failed ({reason}) at gas price {} with total_gas {total_gas} but total_fee 0", p.label(), plan.gas_price),
                replay("failed"),
            );
        }
        // everything that is not fee goes back: base in == base out + fee (when a base change output exists)
        let base_asset = sess.base_asset();
        let mut inp: u128 = 0;
        for i in inputs {
            if i.is_coin() {
                if i.asset_id(&base_asset) == Some(&base_asset) {
                    inp += i.amount().unwrap_or(0) as u128;
                }
            } else if i.is_message() {
                // retryable messages are not spent, their amount is not available to a failed tx
                if !matches!(i, Input::MessageDataSigned(_) | Input::MessageDataPredicate(_)) {
                    inp += i.amount().unwrap_or(0) as u128;
                }
            }
        }
        let mut out: u128 = 0;
        let mut has_change = false;
        for o in outputs {
            match o {
                Output::Coin { amount, asset_id, .. } | Output::Variable { amount, asset_id, .. } if *asset_id == base_asset => {
                    out += *amount as u128
                }
                Output::Change { amount, asset_id, .. } if *asset_id == base_asset => {
                    out += *amount as u128;
                    has_change = true;
                }
                _ => {}
            }
        }
        let has_pred = inputs.iter().any(|i| i.predicate_gas_used().is_some());
        if has_change && data_msgs.is_empty() {
            if has_pred {
                // the VM refunds predicate gas (known fee discrepancy, judged by C03): only require that a fee left the payer
                c.report.count("c04.failed_fee_balance_excluded_predicate_inputs");
                if plan.gas_price > 0 && inp <= out {
                    c.violation(
                        "failed_tx_nothing_left_the_payer",
                        format!("tx {} failed ({reason}): base in {inp}, base out {out}", p.label()),
                        replay("failed"),
                    );
                }
            } else {
                c.report.count("c04.failed_fee_balance_checked");
                if inp != out + *total_fee as u128 {
                    c.violation(
                        "failed_tx_fee_differs_from_balance_delta",
                        format!("tx {} failed ({reason}): base in {inp}, base out {out}, total_fee {total_fee}", p.label()),
                        replay("failed"),
                    );
                }
            }
        }
        // the coinbase got exactly the fee
        if let Some(Transaction::Mint(m)) = single.block.transactions().last() {
            use chaingen::fuel_core_types::fuel_tx::field::MintAmount;
            let l1_fees: u64 = single.tx_status[..n_l1].iter().map(|s| *s.result.total_fee()).sum();
            let expect = if plan.coinbase_recipient == ContractId::zeroed() { 0 } else { l1_fees + *total_fee };
            if *m.mint_amount() != expect {
                c.violation(
                    "failed_tx_fee_not_minted",
                    format!("mint amount {} expected {expect}", m.mint_amount()),
                    replay("failed"),
                );
            }
        }
        let steps: Vec<&str> = p.script.as_ref().map(|s| s.steps.iter().map(|s| s.name()).collect()).unwrap_or_default();
        c.report.distinct(&("failed", reason.clone(), steps, p.script.as_ref().map(|s| s.terminal), wrote, !data_msgs.is_empty(), !coin_msgs.is_empty()));
        if c.report.wants_sample() && wrote > 0 && chance(rng, 10) {
            c.report.sample(json!({"tx": p.label(), "failed_with": reason, "storage_writes_before_failure": wrote,
                "attributable_writes": attributable.iter().map(fmt_op).collect::<Vec<_>>()}));
        }
    }
}

fn utxo_key(u: &UtxoId) -> Vec<u8> {
    let mut k = u.tx_id().to_vec();
    k.extend_from_slice(&u.output_index().to_be_bytes());
    k
}

fn mint_id(p: &Produced, sess: &ChainSession) -> [u8; 32] {
    use chaingen::fuel_core_types::fuel_tx::UniqueIdentifier;
    p.block
        .transactions()
        .last()
        .map(|t| *t.id(&sess.chain_id))
        .unwrap_or([0u8; 32])
}

pub fn run(args: &Args, report: &Report) {
    let ctx = Ctx::new(args, report);
    let shards = args.by_tier(16, 32);
    let sessions = args.by_tier(20, 240);
    let blocks = args.by_tier(8u32, 12);
    let c = ctx.clone();
    for_each_session(args, report, shards, sessions, move |case, rng| {
        let ck = Checker { c: &c, case };
        let cfg = SessionConfig::random(rng);
        let mut sess = ChainSession::new(rng, cfg);
        let mut opt = GenOptions::default();
        opt.revert_heavy = case.session % 3 != 2;
        opt.twist_permille = 350;
        opt.txs = 4..=10;
        opt.upgrades = false;
        for _ in 0..blocks {
            let plan = sess.gen_block_plan(rng, &opt);
            // the block without any L2 transaction (L1 effects + mint only)
            let base = match catch(|| sess.produce_txs(&plan, &[], SourceKind::Once)) {
                Ok(Ok(b)) => b,
                Ok(Err(e)) => {
                    c.report.count(&format!("c04.production_error.{}", err_variant(&e)));
                    break;
                }
                Err(p) => {
                    c.report.inconclusive(format!("panic during production: {p}"));
                    break;
                }
            };
            let base_canon = base.canon();
            for p in &plan.txs {
                ck.check_single(&sess, &plan, p, &base, &base_canon, rng);
            }
            // full block, then the same block without its skipped transactions
            let full = match catch(|| sess.produce(&plan, SourceKind::Once)) {
                Ok(Ok(b)) => b,
                Ok(Err(e)) => {
                    c.report.count(&format!("c04.production_error.{}", err_variant(&e)));
                    break;
                }
                Err(p) => {
                    c.report.inconclusive(format!("panic during production: {p}"));
                    break;
                }
            };
            let outs = outcomes(&plan.txs, &full);
            count_production(&c.report, "c04", &plan, &outs, &full);
            if !full.skipped.is_empty() {
                let kept: Vec<PlannedTx> = plan
                    .txs
                    .iter()
                    .zip(outs.iter())
                    .filter(|(_, o)| !matches!(o, Outcome::Skipped(_)))
                    .map(|(p, _)| p.clone())
                    .collect();
                if let Ok(Ok(without)) = catch(|| sess.produce_txs(&plan, &kept, SourceKind::Once)) {
                    c.report.eval();
                    c.report.count("c04.block_with_vs_without_skipped");
                    let mut problems = Vec::new();
                    if let Some(d) = diff_changes(&full.canon(), &without.canon()) {
                        problems.push(format!("changes: {d}"));
                    }
                    if full.block.id() != without.block.id() || full.block.transactions() != without.block.transactions() {
                        problems.push("block differs".into());
                    }
                    if let Some(d) = first_debug_diff(&full.events, &without.events) {
                        problems.push(format!("events: {d}"));
                    }
                    if let Some(d) = first_debug_diff(&full.tx_status, &without.tx_status) {
                        problems.push(format!("statuses: {d}"));
                    }
                    if !problems.is_empty() {
                        c.violation(
                            "skipped_txs_changed_block_in_context",
                            format!(
                                "block with skipped txs {:?} vs the same block without them: {}",
                                full.skipped.iter().map(|(_, e)| err_variant(e)).collect::<Vec<_>>(),
                                problems.join("; ")
                            ),
                            case.replay(plan.height, json!({"txs": plan.txs.iter().zip(outs.iter()).map(|(p,o)| format!("{} => {}", p.label(), o.tag())).collect::<Vec<_>>()})),
                        );
                    }
                }
            }
            if let Err(e) = commit_block(&mut sess, &plan, &full) {
                c.report.inconclusive(format!("commit failed: {e}"));
                break;
            }
        }
    });
    if args.replay.is_none() {
        report.require("c04.failed_checked", args.by_tier(2400, 24000));
        report.require("c04.failed_after_storage_write", args.by_tier(1700, 17000));
        report.require("c04.failed_after_balance_or_outbox_effect", args.by_tier(1400, 14000));
        report.require("c04.failed_with_retryable_message_input", args.by_tier(900, 9000));
        report.require("c04.failed_with_message_coin_input", args.by_tier(380, 3800));
        report.require("c04.skipped_checked", args.by_tier(1900, 19000));
        report.require("c04.block_with_vs_without_skipped", args.by_tier(800, 8000));
        report.require("c04.skipped.TransactionIdCollision", args.by_tier(250, 2500));
        report.require("c04.skipped.TransactionValidity.CoinDoesNotExist", args.by_tier(180, 1800));
        report.require("c04.failed.Revert", args.by_tier(1100, 11000));
    }
    report.finish(
        args,
        "exploration",
        RULE,
        false,
        &[
            "attribution: a transaction is executed alone on the uncommitted parent; the block without L2 transactions is the baseline",
            "'storage write before the failure' is evidenced by Return/Revert/Panic receipts of the storing contracts",
        ],
    );
}
