//! C03: exactly one trailing mint with the right index / price / amount; gas,
//! size and count limits hold for every kind of source; validation rejects
//! mutated mints.

use crate::common::*;
use chaingen::{
    BlockPlan,
    ChainSession,
    GenOptions,
    Produced,
    SessionConfig,
    SourceKind,
    fuel_core_executor::executor::max_tx_count,
    fuel_core_types::{
        blockchain::block::Block,
        fuel_tx::{
            AssetId,
            ContractId,
            Input,
            Mint,
            Output,
            Transaction,
            TxPointer,
            field::{
                InputContract,
                MintAmount,
                MintAssetId,
                MintGasPrice,
                OutputContract,
                TxPointer as TxPointerField,
            },
        },
    },
    metered_size,
};
use vcommon::{
    Args,
    Report,
    catch,
    chance,
    pick,
    rand::{
        Rng,
        rngs::StdRng,
    },
    serde_json::json,
};

pub const RULE: &str = "sessions of generated blocks with tight consensus limits, gas prices {0,1,2,700}, coinbase recipient \
{zero, contract}; each block is produced with one of eight source behaviours (honest, chunked, stutter, once, ignoring gas / \
size / count / everything) and judged arithmetically (mint position, index, price, asset, amount = sum of total_fee; sum of \
total_gas, sum of metered sizes, tx count against the limits); then every single-field mutation of the mint (with a \
re-generated consistent header, and with the original header) is offered to validate(), which must refuse. Count-limit \
sessions hand >1024 valid transfers to count-ignoring sources. distinct = (source kind, limit that bound, mint shape).";

fn rebuild_mint(m: &Mint, f: impl FnOnce(&mut MintFields)) -> Transaction {
    let mut fields = MintFields {
        tx_pointer: *m.tx_pointer(),
        amount: *m.mint_amount(),
        asset: *m.mint_asset_id(),
        price: *m.gas_price(),
    };
    f(&mut fields);
    Transaction::mint(
        fields.tx_pointer,
        m.input_contract().clone(),
        *m.output_contract(),
        fields.amount,
        fields.asset,
        fields.price,
    )
    .into()
}

pub struct MintFields {
    pub tx_pointer: TxPointer,
    pub amount: u64,
    pub asset: AssetId,
    pub price: u64,
}

fn base_flow(tx: &Transaction, base: &AssetId) -> Option<(u64, u64, bool)> {
    // (base in, base out, has base change output) for script transactions without script bytes
    let Transaction::Script(s) = tx else { return None };
    use chaingen::fuel_core_types::fuel_tx::field::{
        Inputs,
        Outputs,
        Script as ScriptField,
    };
    if !s.script().is_empty() {
        return None;
    }
    let mut inp = 0u64;
    for i in s.inputs() {
        match i {
            Input::CoinSigned(_) | Input::CoinPredicate(_) => {
                if i.asset_id(base) == Some(base) {
                    inp += i.amount().unwrap_or(0);
                }
            }
            Input::Contract(_) => return None,
            _ => inp += i.amount().unwrap_or(0),
        }
    }
    let mut out = 0u64;
    let mut change = false;
    for o in s.outputs() {
        match o {
            Output::Coin { amount, asset_id, .. } | Output::Variable { amount, asset_id, .. } if asset_id == base => {
                out += amount
            }
            Output::Change { amount, asset_id, .. } if asset_id == base => {
                out += amount;
                change = true;
            }
            _ => {}
        }
    }
    Some((inp, out, change))
}

struct Judge<'a> {
    c: &'a Ctx,
    case: &'a Case,
}

impl Judge<'_> {
    /// arithmetic checks + mutation loop on one produced block
    fn judge(&self, sess: &ChainSession, plan: &BlockPlan, source: SourceKind, produced: &Produced, rng: &mut StdRng) {
        let c = self.c;
        let block = &produced.block;
        let outs = outcomes(&plan.txs, produced);
        let replay = || {
            self.case.replay(
                plan.height,
                json!({"source": source.name(), "gas_price": plan.gas_price, "recipient_zero": plan.coinbase_recipient == ContractId::zeroed(),
                       "txs": plan.txs.iter().zip(outs.iter()).take(40).map(|(p,o)| format!("{} => {}", p.label(), o.tag())).collect::<Vec<_>>(),
                       "n_planned": plan.txs.len()}),
            )
        };
        let txs = block.transactions();
        let params = &sess.params;
        let n = txs.len();
        c.report.eval();
        c.report.count(&format!("c03.source.{}", source.name()));

        // ---- mint structure
        let mints = txs.iter().filter(|t| matches!(t, Transaction::Mint(_))).count();
        let Some(Transaction::Mint(mint)) = txs.last() else {
            c.violation("last_tx_is_not_mint", format!("block {} has {n} txs, last is not a mint", plan.height), replay());
            return
        };
        if mints != 1 {
            c.violation("not_exactly_one_mint", format!("{mints} mints in block {}", plan.height), replay());
        }
        let fee_sum: u64 = produced.tx_status[..produced.tx_status.len().saturating_sub(1)]
            .iter()
            .map(|s| *s.result.total_fee())
            .sum();
        let gas_sum: u64 = produced.tx_status.iter().map(|s| *s.result.total_gas()).sum();
        let mut mint_index = mint.tx_pointer().tx_index() as usize;
        let mut mint_amount = *mint.mint_amount();
        if c.st(1) {
            mint_amount += 1;
        }
        if c.st(2) {
            mint_index += 1;
        }
        if mint_index != n - 1 || u32::from(mint.tx_pointer().block_height()) != plan.height {
            c.violation(
                "mint_index_wrong",
                format!("mint tx_pointer {:?}, but {} transactions precede it in block {}", mint.tx_pointer(), n - 1, plan.height),
                replay(),
            );
        }
        if *mint.gas_price() != plan.gas_price {
            c.violation(
                "mint_gas_price_wrong",
                format!("mint gas price {} but block gas price {}", mint.gas_price(), plan.gas_price),
                replay(),
            );
        }
        if mint.mint_asset_id() != params.base_asset_id() {
            c.violation("mint_asset_wrong", format!("{:?}", mint.mint_asset_id()), replay());
        }
        if mint.input_contract().contract_id != plan.coinbase_recipient {
            c.violation("mint_recipient_wrong", format!("{:?}", mint.input_contract().contract_id), replay());
        }
        let expect_amount = if plan.coinbase_recipient == ContractId::zeroed() { 0 } else { fee_sum };
        if mint_amount != expect_amount {
            c.violation(
                "mint_amount_not_sum_of_fees",
                format!(
                    "mint amount {mint_amount}, sum of total_fee of the {} included txs {fee_sum}, recipient {:?}",
                    n - 1,
                    plan.coinbase_recipient
                ),
                replay(),
            );
        }
        if produced.tx_status.len() != n {
            c.violation("status_count_differs_from_tx_count", format!("{} vs {n}", produced.tx_status.len()), replay());
        }
        // fee actually charged == base asset that left the transaction (simple transfers with a change output)
        for (tx, st) in txs.iter().zip(produced.tx_status.iter()) {
            if let Some((inp, out, true)) = base_flow(tx, params.base_asset_id()) {
                c.report.count("c03.fee_vs_balance_checked");
                if inp.checked_sub(out) != Some(*st.result.total_fee()) {
                    // known discrepancy: the VM refunds as if predicates had used no gas. Classify exactly.
                    let (pred_gas, tip) = match tx {
                        Transaction::Script(s) => {
                            use chaingen::fuel_core_types::fuel_tx::field::{
                                Inputs,
                                Tip,
                            };
                            (
                                s.inputs().iter().filter_map(|i| i.predicate_gas_used()).sum::<u64>(),
                                s.tip(),
                            )
                        }
                        _ => (0, 0),
                    };
                    let has_pred = crate::model::tx_parts(tx)
                        .map(|(i, _)| i.iter().any(|i| i.predicate_gas_used().is_some()))
                        .unwrap_or(false);
                    let factor = params.fee_params().gas_price_factor() as u128;
                    let without_pred = ((st.result.total_gas().saturating_sub(pred_gas)) as u128 * plan.gas_price as u128).div_ceil(factor) + tip as u128;
                    let explained = has_pred && pred_gas > 0 && inp.checked_sub(out).map(|d| d as u128) == Some(without_pred);
                    c.violation(
                        if explained { "fee_differs_from_balance_delta predicate_inputs" } else { "fee_differs_from_balance_delta other" },
                        format!(
                            "tx {:x}: base in {inp}, base out {out}, total_fee {}, total_gas {}, predicate gas {pred_gas}, gas price {}",
                            st.id,
                            st.result.total_fee(),
                            st.result.total_gas(),
                            plan.gas_price
                        ),
                        replay(),
                    );
                }
            }
        }

        // ---- limits
        let size_sum: u64 = txs.iter().map(|t| metered_size(t) as u64).sum();
        let count = n - 1;
        let gas_limit = params.block_gas_limit();
        let size_limit = params.block_transaction_size_limit();
        let by = |respects: bool| if respects { "respecting" } else { "ignoring" };
        if gas_sum > gas_limit {
            c.violation(
                &format!("gas_limit_exceeded_with_gas_{}_source", by(source.respects_gas())),
                format!("sum of total_gas {gas_sum} > block gas limit {gas_limit} (source {})", source.name()),
                replay(),
            );
        }
        if size_sum > size_limit {
            c.violation(
                if source.respects_size() {
                    // a size-respecting source only adds what fits: the excess comes from forced (L1) transactions
                    "size_limit_exceeded_by_forced_transactions"
                } else {
                    "size_limit_exceeded_with_size_ignoring_source"
                },
                format!(
                    "sum of metered transaction sizes {size_sum} > block_transaction_size_limit {size_limit} ({} txs, source {})",
                    count,
                    source.name()
                ),
                replay(),
            );
        }
        if count > max_tx_count() as usize {
            c.violation(
                &format!("count_limit_exceeded_with_count_{}_source", by(source.respects_count())),
                format!("{count} transactions + mint, limit {}", max_tx_count()),
                replay(),
            );
        }
        // gas already used by forced (L1) transactions before the source is asked, and whether the
        // block is sensitive to a stale gas budget (a planned tx fits the full limit but not what is left)
        let plan_ids: std::collections::BTreeSet<_> = plan.txs.iter().map(|p| p.id).collect();
        let n_l1 = produced.tx_status[..n - 1].iter().take_while(|s| !plan_ids.contains(&s.id)).count();
        let l1_gas: u64 = produced.tx_status[..n_l1].iter().map(|s| *s.result.total_gas()).sum();
        if l1_gas.saturating_mul(100) >= gas_limit.saturating_mul(40) {
            c.report.count("c03.forced_txs_used_40pct_of_block_gas");
            let left = gas_limit.saturating_sub(l1_gas);
            let sensitive = plan.txs.iter().any(|p| {
                let g = chaingen::fuel_core_types::blockchain::transaction::TransactionExt::max_gas(&p.tx, params).unwrap_or(0);
                g > left && g <= gas_limit && p.script.as_ref().map(|s| s.steps.iter().any(|st| st.name() == "burn_loop")).unwrap_or(false)
            });
            // the sharpest case: the very first transaction the source offers is such a burner and the gas it
            // really uses would push the block over the limit if it were admitted against a stale budget
            if let Some(p0) = plan.txs.first() {
                let g = chaingen::fuel_core_types::blockchain::transaction::TransactionExt::max_gas(&p0.tx, params).unwrap_or(0);
                let burns = p0
                    .script
                    .as_ref()
                    .filter(|s| s.steps.iter().any(|st| matches!(st, chaingen::programs::Step::Burn { iters } if *iters as u64 * 3_000 >= s.gas_limit)))
                    .map(|s| s.gas_limit)
                    .unwrap_or(0);
                if g > left && g <= gas_limit && burns > 0 && l1_gas.saturating_add(burns) > gas_limit {
                    c.report.count(&format!("c03.first_offered_tx_would_overflow_a_stale_gas_budget.{}", by(source.respects_gas())));
                }
            }
            if sensitive {
                c.report.count(&format!("c03.gas_burner_fits_full_limit_but_not_remaining.{}", by(source.respects_gas())));
            }
        }
        if matches!(source, SourceKind::Stutter) && produced.source_calls.iter().filter(|sc| sc.returned > 0).count() >= 2 {
            c.report.count("c03.stutter_blocks_with_second_batch");
            if gas_sum.saturating_mul(100) >= gas_limit.saturating_mul(60) {
                c.report.count("c03.stutter_blocks_with_second_batch_and_60pct_gas");
            }
        }
        c.report.add("c03.gas_burner_txs_out_of_gas", produced.tx_status.iter().filter(|s| matches!(&s.result, chaingen::fuel_core_types::services::executor::TransactionExecutionResult::Failed { receipts, result, .. } if chaingen::fuel_core_types::services::executor::TransactionExecutionResult::reason(receipts, result).starts_with("OutOfGas"))).count() as u64);
        // which limits were binding (evidence)
        let planned_gas: u64 = plan
            .txs
            .iter()
            .map(|p| chaingen::fuel_core_types::blockchain::transaction::TransactionExt::max_gas(&p.tx, params).unwrap_or(0))
            .fold(0u64, |a, b| a.saturating_add(b));
        let planned_size: u64 = plan.txs.iter().map(|p| metered_size(&p.tx) as u64).sum();
        let gas_bound = planned_gas > gas_limit;
        let size_bound = planned_size > size_limit;
        let count_bound = plan.txs.len() > max_tx_count() as usize;
        if gas_bound {
            c.report.count(&format!("c03.gas_limit_binding.{}", by(source.respects_gas())));
        }
        if size_bound {
            c.report.count(&format!("c03.size_limit_binding.{}", by(source.respects_size())));
        }
        if count_bound {
            c.report.count(&format!("c03.count_limit_binding.{}", by(source.respects_count())));
        }
        if outs.iter().any(|o| matches!(o, Outcome::Skipped(s) if s.starts_with("GasOverflow"))) {
            c.report.count("c03.blocks_with_gas_overflow_skip");
        }
        c.report.count(if expect_amount > 0 { "c03.mint_nonzero" } else { "c03.mint_zero" });
        c.report.count(&format!("c03.gas_price.{}", plan.gas_price));
        c.report.distinct(&(
            source.name(),
            gas_bound,
            size_bound,
            count_bound,
            expect_amount > 0,
            plan.gas_price,
            plan.coinbase_recipient == ContractId::zeroed(),
            count.min(15),
        ));
        if c.report.wants_sample() && (gas_bound || size_bound) && chance(rng, 10) {
            c.report.sample(replay());
        }
        if count > 40 || chance(rng, 50) {
            // mutation loop on huge blocks is pointless and slow; elsewhere every second block is enough
            return;
        }

        // ---- mutation loop
        let statuses = &produced.tx_status;
        let regenerated = reassemble(block, txs.to_vec(), statuses);
        let consistent_ok = regenerated.as_ref().map(|b| b.header() == block.header()).unwrap_or(false);
        if !consistent_ok {
            c.report.count("c03.header_regeneration_mismatch");
        }
        let others: Vec<Transaction> = txs[..n - 1].to_vec();
        let with_mint = |m: Transaction| {
            let mut v = others.clone();
            v.push(m);
            v
        };
        let other_asset = sess.assets[1];
        let mut mutants: Vec<(&'static str, Vec<Transaction>)> = vec![
            ("index_plus", with_mint(rebuild_mint(mint, |f| f.tx_pointer = TxPointer::new(plan.height.into(), (n - 1) as u16 + 1)))),
            ("amount_plus", with_mint(rebuild_mint(mint, |f| f.amount += 1))),
            ("asset", with_mint(rebuild_mint(mint, |f| f.asset = other_asset))),
            ("height", with_mint(rebuild_mint(mint, |f| f.tx_pointer = TxPointer::new((plan.height + 1).into(), (n - 1) as u16)))),
            ("missing", others.clone()),
        ];
        if n - 1 > 0 {
            mutants.push(("index_minus", with_mint(rebuild_mint(mint, |f| f.tx_pointer = TxPointer::new(plan.height.into(), (n - 1) as u16 - 1)))));
            let mut v = vec![txs[n - 1].clone()];
            v.extend(others.iter().cloned());
            mutants.push(("position_first", v));
            let mut v = others.clone();
            v.insert(rng.gen_range(0..others.len()), rebuild_mint(mint, |f| f.tx_pointer = TxPointer::new(plan.height.into(), 0)));
            v.push(txs[n - 1].clone());
            mutants.push(("extra_mint_inside", v));
        }
        if *mint.mint_amount() > 0 {
            mutants.push(("amount_minus", with_mint(rebuild_mint(mint, |f| f.amount -= 1))));
            mutants.push(("amount_zero", with_mint(rebuild_mint(mint, |f| f.amount = 0))));
        }
        {
            let mut v = txs.to_vec();
            v.push(rebuild_mint(mint, |f| f.tx_pointer = TxPointer::new(plan.height.into(), n as u16)));
            mutants.push(("second_mint_appended", v));
        }
        // a different price is a *different valid block* unless fees were charged to a recipient
        if plan.coinbase_recipient != ContractId::zeroed() && fee_sum > 0 && params.fee_params().gas_price_factor() == 1 {
            mutants.push(("price_plus", with_mint(rebuild_mint(mint, |f| f.price += 1))));
            if plan.gas_price > 0 {
                mutants.push(("price_minus", with_mint(rebuild_mint(mint, |f| f.price -= 1))));
            }
        } else {
            c.report.count("c03.price_mutation_not_applicable");
        }
        for (name, mtxs) in mutants {
            // (1) header left as produced
            let mut raw: Block = block.clone();
            *raw.transactions_mut() = mtxs.clone();
            let r = catch(|| sess.validate(&raw));
            self.judge_mutant(name, "original_header", r, c.st(3), &replay);
            // (2) header consistent with the mutated list
            if consistent_ok {
                if let Some(b) = reassemble(block, mtxs, statuses) {
                    let r = catch(|| sess.validate(&b));
                    self.judge_mutant(name, "consistent_header", r, false, &replay);
                }
            }
        }
    }

    fn judge_mutant(
        &self,
        name: &str,
        header: &str,
        r: Result<Result<chaingen::Validated, chaingen::fuel_core_types::services::executor::Error>, String>,
        selftest_flip: bool,
        replay: &dyn Fn() -> vcommon::serde_json::Value,
    ) {
        let c = self.c;
        match r {
            Err(p) => c.report.inconclusive(format!("panic validating mutant {name}: {p}")),
            Ok(Err(e)) if !selftest_flip => {
                c.report.count(&format!("c03.mutant_rejected.{name}.{header}"));
                c.report.count(&format!("c03.mutant_reject_reason.{}", err_variant(&e)));
            }
            Ok(_) => {
                c.violation(
                    &format!("validate_accepts_mutated_mint {name} {header}"),
                    format!("validate() accepted a block whose mint was mutated: {name} ({header})"),
                    replay(),
                );
            }
        }
    }
}

pub fn run(args: &Args, report: &Report) {
    let ctx = Ctx::new(args, report);
    let shards = args.by_tier(16, 32);
    let sessions = args.by_tier(30, 360);
    let blocks = args.by_tier(10u32, 14);
    let c = ctx.clone();
    for_each_session(args, report, shards, sessions, move |case, rng| {
        let j = Judge { c: &c, case };
        // one count-limit session per shard
        if case.session == 0 && case.shard % 4 == 0 {
            let n = max_tx_count() as usize + rng.gen_range(3..60);
            let mut sess = ChainSession::new(rng, SessionConfig::count_stress(n));
            let mut opt = GenOptions::default();
            opt.plain_only = true;
            opt.relayer_events = false;
            opt.max_da_advance = 0;
            opt.txs = n..=n;
            let plan = sess.gen_block_plan(rng, &opt);
            c.report.add("c03.count_stress_planned_txs", plan.txs.len() as u64);
            let source = [SourceKind::IgnoreCount, SourceKind::IgnoreAll, SourceKind::Once][(case.shard / 4) % 3];
            match catch(|| sess.produce(&plan, source)) {
                Ok(Ok(p)) => {
                    c.report.add("c03.count_stress_included_txs", (p.block.transactions().len() - 1) as u64);
                    j.judge(&sess, &plan, source, &p, rng);
                }
                Ok(Err(e)) => c.report.count(&format!("c03.production_error.{}", err_variant(&e))),
                Err(p) => c.report.inconclusive(format!("panic during production: {p}")),
            }
            return;
        }
        let mut cfg = SessionConfig::random(rng);
        if case.session % 2 == 1 {
            // make the size limit bind often
            cfg.block_size_limit = *pick(rng, &[2_500u64, 4_000]);
        }
        let burner_session = case.session % 2 == 0;
        if burner_session {
            // small block gas limit of which forced (relayed) gas burners take a large share
            cfg.block_gas_limit = *pick(rng, &[1_200_000u64, 1_600_000]);
            cfg.max_gas_per_tx = *pick(rng, &[700_000u64, 900_000]);
        }
        let mut sess = ChainSession::new(rng, cfg);
        let mut opt = GenOptions::default();
        opt.txs = 6..=12;
        opt.upgrades = false;
        opt.forced_burners = burner_session;
        for _ in 0..blocks {
            opt.burners_permille = if burner_session && chance(rng, 60) { 600 } else { 120 };
            let plan = sess.gen_block_plan(rng, &opt);
            // produce the same plan with several sources; commit the first
            let kinds = [
                SourceKind::Honest,
                SourceKind::HonestChunked(rng.gen_range(1..4)),
                SourceKind::Stutter,
                SourceKind::Once,
                SourceKind::IgnoreGas,
                SourceKind::IgnoreSize,
                SourceKind::IgnoreCount,
                SourceKind::IgnoreAll,
            ];
            let first = *pick(rng, &kinds);
            let second = *pick(rng, &kinds);
            let mut committed = false;
            for (i, source) in [first, second, SourceKind::IgnoreSize].into_iter().enumerate() {
                if i == 2 && chance(rng, 50) {
                    continue;
                }
                let mut plan = plan.clone();
                if chance(rng, 4) {
                    // a misbehaving source that hands in a Mint itself
                    let at = rng.gen_range(0..=plan.txs.len());
                    let m = sess.source_mint(&plan, at as u16);
                    plan.txs.insert(at, m);
                    c.report.count("c03.source_handed_in_mint");
                }
                match catch(|| sess.produce(&plan, source)) {
                    Ok(Ok(p)) => {
                        j.judge(&sess, &plan, source, &p, rng);
                        if !committed {
                            if let Err(e) = commit_block(&mut sess, &plan, &p) {
                                c.report.inconclusive(format!("commit failed: {e}"));
                                return;
                            }
                            committed = true;
                        }
                    }
                    Ok(Err(e)) => c.report.count(&format!("c03.production_error.{}", err_variant(&e))),
                    Err(p) => {
                        c.report.inconclusive(format!("panic during production: {p}"));
                        return;
                    }
                }
                if committed && i == 0 {
                    // the other sources would now run on a different parent; stop here
                    break;
                }
            }
            if !committed {
                break;
            }
        }
    });
    if args.replay.is_none() {
        report.require("c03.gas_limit_binding.ignoring", args.by_tier(120, 1200));
        report.require("c03.gas_limit_binding.respecting", args.by_tier(200, 2000));
        report.require("c03.size_limit_binding.ignoring", args.by_tier(290, 2900));
        report.require("c03.size_limit_binding.respecting", args.by_tier(500, 5000));
        report.require("c03.forced_txs_used_40pct_of_block_gas", args.by_tier(120, 1_200));
        report.require("c03.gas_burner_fits_full_limit_but_not_remaining.respecting", args.by_tier(40, 400));
        report.require("c03.first_offered_tx_would_overflow_a_stale_gas_budget.respecting", args.by_tier(10, 100));
        report.require("c03.stutter_blocks_with_second_batch_and_60pct_gas", args.by_tier(70, 700));
        report.require("c03.count_limit_binding.ignoring", args.by_tier(3, 6));
        report.require("c03.mint_nonzero", args.by_tier(630, 6300));
        report.require("c03.mint_zero", args.by_tier(410, 4100));
        report.require("c03.mutant_rejected.amount_plus.consistent_header", args.by_tier(500, 5_000));
        report.require("c03.mutant_rejected.index_plus.consistent_header", args.by_tier(500, 5_000));
        report.require("c03.mutant_rejected.price_plus.consistent_header", args.by_tier(150, 1_500));
        report.require("c03.mutant_rejected.missing.consistent_header", args.by_tier(500, 5_000));
        report.require("c03.fee_vs_balance_checked", args.by_tier(2600, 26000));
    }
    report.finish(
        args,
        "exploration",
        RULE,
        false,
        &[
            "DA height advances are chosen like the block producer does: claimed cost of newly covered forced txs <= block gas limit",
            "transaction count limit = fuel_core_executor::executor::max_tx_count() of this build (limited-tx-count: 1024)",
            "price mutation judged only where it is a deviation: recipient set, fees > 0, gas_price_factor = 1",
        ],
    );
}
