//! Runtime monitors for the executor properties C01..C06 (see DESIGN.md 5).
use vcommon::*;

mod c01;
mod c02;
mod c03;
mod c04;
mod c05;
mod c06;
mod common;
mod model;

fn main() {
    let args = Args::parse();
    install_quiet_panic_hook();
    let report = Report::new(&args.property);
    match args.property.as_str() {
        "C01" => c01::run(&args, &report),
        "C02" => c02::run(&args, &report),
        "C03" => c03::run(&args, &report),
        "C04" => c04::run(&args, &report),
        "C05" => c05::run(&args, &report),
        "C06" => c06::run(&args, &report),
        other => {
            report.inconclusive(format!("property {other} not implemented in this monitor"));
            report.finish(&args, "exploration", "", false, &[]);
        }
    }
}
