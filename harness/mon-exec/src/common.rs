//! Shared plumbing of the executor monitors: case enumeration with replay,
//! self-test switch, outcome classification, header regeneration.

use chaingen::{
    BlockPlan,
    ChainSession,
    PlannedTx,
    Produced,
    fuel_core_types::{
        blockchain::{
            block::{
                Block,
                PartialFuelBlock,
            },
            header::PartialBlockHeader,
        },
        fuel_tx::{
            Transaction,
            TxId,
        },
        fuel_types::MessageId,
        services::executor::{
            Error as ExecutorError,
            TransactionExecutionResult,
            TransactionExecutionStatus,
            TransactionValidityError,
        },
    },
};
use std::collections::BTreeMap;
use vcommon::{
    Args,
    Report,
    mix,
    rand::rngs::StdRng,
    read_replay,
    rng_for,
    run_shards,
    serde_json::{
        Value,
        json,
    },
    tag,
};

/// One generated session: identified by `(shard, session)`.
#[derive(Clone, Debug)]
pub struct Case {
    pub seed: u64,
    pub shard: usize,
    pub session: usize,
}

impl Case {
    pub fn replay(&self, block: u32, extra: Value) -> Value {
        json!({"seed": self.seed, "shard": self.shard, "session": self.session, "block": block, "ops": extra})
    }
}

/// Monitor context: report + optional self-test perturbation number.
#[derive(Clone)]
pub struct Ctx {
    pub report: Report,
    pub selftest: Option<u32>,
}

impl Ctx {
    pub fn new(args: &Args, report: &Report) -> Self {
        let selftest = args.extra.get("selftest").and_then(|s| s.parse().ok());
        Ctx {
            report: report.clone(),
            selftest,
        }
    }

    pub fn st(&self, n: u32) -> bool {
        self.selftest == Some(n)
    }

    pub fn violation(&self, sig: &str, detail: String, replay: Value) {
        let sig = if self.selftest.is_some() {
            format!("selftest:{sig}")
        } else {
            sig.to_string()
        };
        self.report.violation(sig, detail, replay);
    }
}

/// Run `f` for every `(shard, session)`; with `--replay` only the recorded case.
pub fn for_each_session<F>(args: &Args, report: &Report, shards: usize, sessions: usize, f: F)
where
    F: Fn(&Case, &mut StdRng) + Send + Sync + 'static,
{
    if let Some(r) = read_replay(args) {
        let seed = r.get("seed").and_then(|v| v.as_u64()).unwrap_or(args.seed);
        let shard = r.get("shard").and_then(|v| v.as_u64()).unwrap_or(0) as usize;
        let session = r.get("session").and_then(|v| v.as_u64()).unwrap_or(0) as usize;
        let shard_seed = mix(seed, &[tag(&args.property), shard as u64]);
        let mut rng = rng_for(shard_seed, &[session as u64]);
        let case = Case {
            seed,
            shard,
            session,
        };
        report.note(format!("replaying shard {shard} session {session} seed {seed}"));
        if let Err(p) = vcommon::catch(|| f(&case, &mut rng)) {
            report.inconclusive(format!("replay panicked in harness: {p}"));
        }
        return;
    }
    let seed = args.seed;
    run_shards(report, args, shards, move |shard, shard_seed| {
        for session in 0..sessions {
            let mut rng = rng_for(shard_seed, &[session as u64]);
            let case = Case {
                seed,
                shard,
                session,
            };
            f(&case, &mut rng);
        }
    });
}

/// Short, stable name of an executor error variant (no payload).
pub fn err_variant(e: &ExecutorError) -> String {
    match e {
        ExecutorError::TransactionValidity(v) => {
            let inner = match v {
                TransactionValidityError::CoinAlreadySpent(_) => "CoinAlreadySpent".to_string(),
                TransactionValidityError::CoinMismatch(_) => "CoinMismatch".to_string(),
                TransactionValidityError::CoinDoesNotExist(_) => "CoinDoesNotExist".to_string(),
                TransactionValidityError::MessageSpendTooEarly(_) => "MessageSpendTooEarly".to_string(),
                TransactionValidityError::MessageDoesNotExist(_) => "MessageDoesNotExist".to_string(),
                TransactionValidityError::MessageMismatch(_) => "MessageMismatch".to_string(),
                TransactionValidityError::ContractDoesNotExist(_) => "ContractDoesNotExist".to_string(),
                TransactionValidityError::InvalidContractInputIndex(_) => "InvalidContractInputIndex".to_string(),
                TransactionValidityError::Validation(c) => format!("Validation.{}", head(&format!("{c:?}"))),
                _ => "Other".to_string(),
            };
            format!("TransactionValidity.{inner}")
        }
        ExecutorError::InvalidTransaction(c) => format!("InvalidTransaction.{}", head(&format!("{c:?}"))),
        ExecutorError::VmExecution { error, .. } => {
            let t: String = error.trim_start_matches("Execution error: ").chars().take_while(|c| c.is_alphanumeric() || *c == '_' || *c == '(').map(|c| if c == '(' { '.' } else { c }).collect();
            format!("VmExecution.{}", t.trim_end_matches('.'))
        }
        other => head(&format!("{other:?}")),
    }
}

/// leading identifier(s) of a Debug rendering: `Validity(InputWitnessIndexBounds{..` -> `Validity.InputWitnessIndexBounds`
fn head(s: &str) -> String {
    let mut out = String::new();
    let mut depth = 0;
    let chars: Vec<char> = s.chars().collect();
    let mut i = 0;
    while i < chars.len() {
        let ch = chars[i];
        if ch.is_alphanumeric() || ch == '_' {
            out.push(ch);
        } else if ch == '(' && depth < 2 && chars.get(i + 1).map(|c| c.is_ascii_uppercase()).unwrap_or(false) {
            depth += 1;
            out.push('.');
        } else {
            break;
        }
        i += 1;
    }
    out.trim_end_matches('.').to_string()
}

pub fn is_failed(s: &TransactionExecutionStatus) -> bool {
    matches!(s.result, TransactionExecutionResult::Failed { .. })
}

/// How a planned transaction ended in a production.
#[derive(Clone, Debug, PartialEq)]
pub enum Outcome {
    Success,
    Failed,
    Skipped(String),
    /// the source never handed it out
    Leftover,
}

impl Outcome {
    pub fn tag(&self) -> String {
        match self {
            Outcome::Success => "ok".into(),
            Outcome::Failed => "failed".into(),
            Outcome::Skipped(e) => format!("skip:{e}"),
            Outcome::Leftover => "leftover".into(),
        }
    }
}

/// Map planned tx index -> outcome (the i-th occurrence of an id is matched to
/// the i-th inclusion/skip of that id).
pub fn outcomes(plan_txs: &[PlannedTx], produced: &Produced) -> Vec<Outcome> {
    let mut included: BTreeMap<TxId, Vec<bool>> = BTreeMap::new();
    for s in &produced.tx_status {
        included.entry(s.id).or_default().push(is_failed(s));
    }
    let mut skipped: BTreeMap<TxId, Vec<String>> = BTreeMap::new();
    for (id, e) in &produced.skipped {
        skipped.entry(*id).or_default().push(err_variant(e));
    }
    let mut leftover: BTreeMap<TxId, usize> = BTreeMap::new();
    for id in &produced.leftover {
        *leftover.entry(*id).or_default() += 1;
    }
    // leftovers are the *last* occurrences handed to the source; resolve from the back
    let mut out: Vec<Option<Outcome>> = vec![None; plan_txs.len()];
    for (i, p) in plan_txs.iter().enumerate().rev() {
        if let Some(n) = leftover.get_mut(&p.id) {
            if *n > 0 {
                *n -= 1;
                out[i] = Some(Outcome::Leftover);
            }
        }
    }
    for (i, p) in plan_txs.iter().enumerate() {
        if out[i].is_some() {
            continue;
        }
        // executor order: an id is included at most once, and that is its first hand-out
        if let Some(v) = included.get_mut(&p.id) {
            if !v.is_empty() {
                let failed = v.remove(0);
                out[i] = Some(if failed { Outcome::Failed } else { Outcome::Success });
                continue;
            }
        }
        if let Some(v) = skipped.get_mut(&p.id) {
            if !v.is_empty() {
                out[i] = Some(Outcome::Skipped(v.remove(0)));
                continue;
            }
        }
        out[i] = Some(Outcome::Leftover);
    }
    out.into_iter().map(|o| o.unwrap()).collect()
}

/// Outbox message ids of a block as the specification defines them: message
/// ids of `MessageOut` receipts of successful transactions, in order.
pub fn outbox_ids(statuses: &[TransactionExecutionStatus]) -> Vec<MessageId> {
    let mut ids = Vec::new();
    for s in statuses {
        if let TransactionExecutionResult::Success { receipts, .. } = &s.result {
            ids.extend(receipts.iter().filter_map(|r| r.message_id()));
        }
    }
    ids
}

/// Re-assemble a block with another transaction list and a header that is
/// consistent with it (transaction root/count recomputed).
pub fn reassemble(block: &Block, txs: Vec<Transaction>, statuses: &[TransactionExecutionStatus]) -> Option<Block> {
    let partial = PartialFuelBlock::new(PartialBlockHeader::from(block.header()), txs);
    partial
        .generate(&outbox_ids(statuses), block.header().event_inbox_root())
        .ok()
}

/// Multiset key describing a block for the "distinct non-trivial" counter.
pub fn block_shape(plan: &BlockPlan, outs: &[Outcome], produced: &Produced, parent_da: u64) -> (bool, u64) {
    let mut shape: Vec<String> = plan
        .txs
        .iter()
        .zip(outs.iter())
        .map(|(p, o)| format!("{}={}", p.label(), o.tag()))
        .collect();
    shape.sort();
    let executed = produced.tx_status.len().saturating_sub(1);
    let failed = produced.tx_status.iter().any(is_failed);
    let skipped = !produced.skipped.is_empty();
    let state_write = produced
        .changes
        .get(&2u32)
        .map(|t| !t.is_empty())
        .unwrap_or(false);
    let msg_spend = plan
        .txs
        .iter()
        .zip(outs.iter())
        .any(|(p, o)| p.uses_message && matches!(o, Outcome::Success | Outcome::Failed));
    let relayed = plan.da_height > parent_da;
    let nontrivial = executed >= 1 && (failed || skipped || state_write || msg_spend || relayed);
    (nontrivial, vcommon::hash64(&(shape, plan.da_height - parent_da, plan.gas_price)))
}

/// Count everything observable about a production into the report.
pub fn count_production(report: &Report, prefix: &str, plan: &BlockPlan, outs: &[Outcome], produced: &Produced) {
    for (p, o) in plan.txs.iter().zip(outs.iter()) {
        report.count(&format!("{prefix}.tx.{}", kind_name(p)));
        report.count(&format!("{prefix}.outcome.{}", o.tag()));
        if p.twist != chaingen::Twist::None {
            report.count(&format!("{prefix}.twist.{:?}.{}", p.twist, short(o)));
        }
        if let Some(s) = &p.script {
            for st in &s.steps {
                report.count(&format!("{prefix}.step.{}", st.name()));
            }
            report.count(&format!("{prefix}.terminal.{:?}", s.terminal));
        }
        if p.checked != chaingen::CheckedMode::Raw {
            report.count(&format!("{prefix}.handed_in.{:?}", p.checked));
        }
    }
    for s in &produced.tx_status {
        if let TransactionExecutionResult::Failed { receipts, result, .. } = &s.result {
            report.count(&format!(
                "{prefix}.fail_reason.{}",
                TransactionExecutionResult::reason(receipts, result)
                    .split('(')
                    .next()
                    .unwrap_or("")
            ));
        }
    }
    report.add(&format!("{prefix}.source_calls"), produced.source_calls.len() as u64);
}

fn kind_name(p: &PlannedTx) -> String {
    match &p.kind {
        chaingen::TxKind::Resubmit { was_included } => format!("Resubmit_{}", if *was_included { "included" } else { "skipped" }),
        k => format!("{k:?}"),
    }
}

fn short(o: &Outcome) -> &'static str {
    match o {
        Outcome::Success => "ok",
        Outcome::Failed => "failed",
        Outcome::Skipped(_) => "skipped",
        Outcome::Leftover => "leftover",
    }
}

/// Commit helper used by every monitor: commit, register deployed contracts,
/// remember skipped transactions for later resubmission.
pub fn commit_block(sess: &mut ChainSession, plan: &BlockPlan, produced: &Produced) -> Result<(), String> {
    sess.commit(&produced.block, &produced.changes)?;
    sess.note_committed(plan);
    sess.note_skipped(plan, produced);
    Ok(())
}
