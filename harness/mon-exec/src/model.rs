//! `UtxoModel`: independent reference model of the unspent coin / message set.
//! Written from the property text: inputs must exist and are removed once,
//! outputs with non-zero amount become coins with fresh ids, relayed messages
//! are added when imported, retryable (data) messages survive a failed tx.

use chaingen::{
    GenesisState,
    fuel_core_types::{
        blockchain::block::Block,
        entities::relayer::message::Message,
        fuel_tx::{
            Address,
            AssetId,
            Input,
            Output,
            Transaction,
            TxPointer,
            UniqueIdentifier,
            UtxoId,
        },
        fuel_types::{
            ChainId,
            Nonce,
        },
        services::relayer::Event,
    },
};
use std::collections::{
    BTreeMap,
    BTreeSet,
};

#[derive(Clone, Debug, PartialEq, Eq, PartialOrd, Ord)]
pub struct MCoin {
    pub owner: Address,
    pub amount: u64,
    pub asset: AssetId,
    pub tx_pointer: TxPointer,
}

#[derive(Clone, Debug, PartialEq, Eq, PartialOrd, Ord)]
pub enum MEvent {
    CoinCreated(UtxoId, MCoin),
    CoinConsumed(UtxoId, MCoin),
    MessageImported(Nonce),
    MessageConsumed(Nonce),
}

#[derive(Clone, Default)]
pub struct UtxoModel {
    pub coins: BTreeMap<UtxoId, MCoin>,
    pub messages: BTreeMap<Nonce, Message>,
    pub spent_coins: BTreeSet<UtxoId>,
    pub spent_messages: BTreeSet<Nonce>,
}

pub fn tx_parts(tx: &Transaction) -> Option<(&[Input], &[Output])> {
    use chaingen::fuel_core_types::fuel_tx::field::{
        Inputs,
        Outputs,
    };
    match tx {
        Transaction::Script(t) => Some((t.inputs(), t.outputs())),
        Transaction::Create(t) => Some((t.inputs(), t.outputs())),
        Transaction::Upgrade(t) => Some((t.inputs(), t.outputs())),
        Transaction::Upload(t) => Some((t.inputs(), t.outputs())),
        Transaction::Blob(t) => Some((t.inputs(), t.outputs())),
        Transaction::Mint(_) => None,
    }
}

impl UtxoModel {
    pub fn from_genesis(g: &GenesisState) -> Self {
        let mut m = UtxoModel::default();
        for (u, c) in &g.coins {
            m.coins.insert(
                *u,
                MCoin {
                    owner: *c.owner(),
                    amount: *c.amount(),
                    asset: *c.asset_id(),
                    tx_pointer: *c.tx_pointer(),
                },
            );
        }
        for msg in &g.messages {
            m.messages.insert(*msg.nonce(), msg.clone());
        }
        m
    }

    /// Apply one executed block. `relayed` are the relayer events of the DA
    /// heights the block covers, `failed[i]` tells whether transaction `i` of
    /// the block has a `Failed` status. Returns the expected event multiset or
    /// a description of the first conservation breach.
    pub fn apply_block(
        &mut self,
        block: &Block,
        chain_id: &ChainId,
        relayed: &[Event],
        failed: &[bool],
    ) -> Result<Vec<MEvent>, (String, String)> {
        let mut events = Vec::new();
        let height = *block.header().height();
        let da = block.header().da_height();
        for e in relayed {
            if let Event::Message(m) = e {
                let n = *m.nonce();
                if self.messages.contains_key(&n) || self.spent_messages.contains(&n) {
                    return Err((
                        "message_imported_twice".into(),
                        format!("relayed message {n:x} was already imported earlier"),
                    ));
                }
                self.messages.insert(n, m.clone());
                events.push(MEvent::MessageImported(n));
            }
        }
        for (idx, tx) in block.transactions().iter().enumerate() {
            let Some((inputs, outputs)) = tx_parts(tx) else { continue };
            let tx_failed = failed.get(idx).copied().unwrap_or(false);
            let tx_id = tx.id(chain_id);
            for input in inputs {
                match input {
                    Input::CoinSigned(_) | Input::CoinPredicate(_) => {
                        let u = *input.utxo_id().expect("coin has utxo id");
                        let Some(c) = self.coins.remove(&u) else {
                            let sig = if self.spent_coins.contains(&u) {
                                "coin_spent_twice"
                            } else {
                                "spent_coin_never_existed"
                            };
                            return Err((
                                sig.into(),
                                format!("tx {tx_id:x} (index {idx}, height {height}) spends coin {u:x} which is not unspent"),
                            ));
                        };
                        let matches = Some(c.amount) == input.amount()
                            && Some(&c.asset) == input.asset_id(&AssetId::zeroed())
                            && Some(&c.owner) == input.input_owner();
                        if !matches {
                            return Err((
                                "spent_coin_differs_from_input".into(),
                                format!("tx {tx_id:x} spends coin {u:x} = {c:?} but its input says {input:?}"),
                            ));
                        }
                        self.spent_coins.insert(u);
                        events.push(MEvent::CoinConsumed(u, c));
                    }
                    Input::MessageCoinSigned(_)
                    | Input::MessageCoinPredicate(_)
                    | Input::MessageDataSigned(_)
                    | Input::MessageDataPredicate(_) => {
                        let n = *input.nonce().expect("message has nonce");
                        let Some(m) = self.messages.get(&n).cloned() else {
                            let sig = if self.spent_messages.contains(&n) {
                                "message_spent_twice"
                            } else {
                                "spent_message_never_existed"
                            };
                            return Err((
                                sig.into(),
                                format!("tx {tx_id:x} (index {idx}, height {height}) spends message {n:x} which is not unspent"),
                            ));
                        };
                        let same = Some(m.amount()) == input.amount()
                            && Some(m.sender()) == input.sender()
                            && Some(m.recipient()) == input.recipient()
                            && m.data().as_slice() == input.input_data().unwrap_or(&[]);
                        if !same {
                            return Err((
                                "spent_message_differs_from_input".into(),
                                format!("tx {tx_id:x} spends message {n:x} = {m:?} but its input says {input:?}"),
                            ));
                        }
                        if m.da_height() > da {
                            return Err((
                                "message_spent_before_its_da_height".into(),
                                format!(
                                    "tx {tx_id:x} spends message {n:x} of DA height {} in a block of DA height {}",
                                    m.da_height().0,
                                    da.0
                                ),
                            ));
                        }
                        let retryable = !m.data().is_empty();
                        if retryable && tx_failed {
                            // stays spendable
                            continue;
                        }
                        self.messages.remove(&n);
                        self.spent_messages.insert(n);
                        events.push(MEvent::MessageConsumed(n));
                    }
                    Input::Contract(_) => {}
                }
            }
            for (oi, output) in outputs.iter().enumerate() {
                let (to, amount, asset) = match output {
                    Output::Coin { to, amount, asset_id } => (to, amount, asset_id),
                    Output::Change { to, amount, asset_id } => (to, amount, asset_id),
                    Output::Variable { to, amount, asset_id } => (to, amount, asset_id),
                    _ => continue,
                };
                if *amount == 0 {
                    continue;
                }
                let u = UtxoId::new(tx_id, oi as u16);
                if self.coins.contains_key(&u) || self.spent_coins.contains(&u) {
                    return Err((
                        "created_coin_id_not_fresh".into(),
                        format!("output {oi} of tx {tx_id:x} creates coin {u:x} whose id was used before"),
                    ));
                }
                let c = MCoin {
                    owner: *to,
                    amount: *amount,
                    asset: *asset,
                    tx_pointer: TxPointer::new(height, idx as u16),
                };
                self.coins.insert(u, c.clone());
                events.push(MEvent::CoinCreated(u, c));
            }
        }
        Ok(events)
    }
}
