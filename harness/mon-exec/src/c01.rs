//! C01: a produced block is accepted by validation on the same parent with
//! identical Changes / statuses / events; two validations agree.

use crate::common::*;
use chaingen::{
    ChainSession,
    GenOptions,
    SessionConfig,
    SourceKind,
    canon::{
        diff_changes,
        first_debug_diff,
    },
};
use vcommon::{
    Args,
    Report,
    catch,
    chance,
    rand::Rng,
    serde_json::json,
};

pub const RULE: &str = "sessions = generated genesis + up to N generated blocks on the real executor; each block: \
produce_without_commit_with_source (source kind drawn from honest/chunked/stutter/once/limit-ignoring), validate twice on the \
uncommitted parent, compare canonical Changes, tx statuses, events; then commit. A block is non-trivial if it executed >=1 \
non-mint tx and had >=1 of {failed tx, skipped tx, contract state write, message spend, DA advance}; distinct = multiset of \
(tx template+twist, outcome) per block with DA advance and gas price.";

pub fn source_for(rng: &mut vcommon::rand::rngs::StdRng) -> SourceKind {
    match rng.gen_range(0..10) {
        0..=2 => SourceKind::Honest,
        3 => SourceKind::HonestChunked(rng.gen_range(1..4)),
        4 => SourceKind::Stutter,
        5..=6 => SourceKind::Once,
        7 => SourceKind::IgnoreGas,
        8 => SourceKind::IgnoreSize,
        _ => SourceKind::IgnoreAll,
    }
}

/// true iff `validated` is a subsequence of the produced events and all surplus events are
/// consumed-events of inputs of transactions the production skipped
fn leftover_events_of_skipped(
    plan: &chaingen::BlockPlan,
    produced: &chaingen::Produced,
    validated: &[chaingen::fuel_core_types::services::executor::Event],
) -> bool {
    use chaingen::fuel_core_types::{
        blockchain::transaction::TransactionExt,
        services::executor::Event,
    };
    let skipped_ids: Vec<_> = produced.skipped.iter().map(|(id, _)| *id).collect();
    let mut skipped_utxos = Vec::new();
    let mut skipped_nonces = Vec::new();
    for p in plan.txs.iter().filter(|p| skipped_ids.contains(&p.id)) {
        for i in p.tx.inputs().iter() {
            if let Some(u) = i.utxo_id().filter(|_| i.is_coin()) {
                skipped_utxos.push(*u);
            }
            if let Some(n) = i.nonce() {
                skipped_nonces.push(*n);
            }
        }
    }
    let mut vi = 0;
    for e in &produced.events {
        if vi < validated.len() && format!("{e:?}") == format!("{:?}", validated[vi]) {
            vi += 1;
            continue;
        }
        let ok = match e {
            Event::CoinConsumed(c) => skipped_utxos.contains(&c.utxo_id),
            Event::MessageConsumed(m) => skipped_nonces.contains(m.nonce()),
            _ => false,
        };
        if !ok {
            return false;
        }
    }
    vi == validated.len()
}

pub fn run(args: &Args, report: &Report) {
    let ctx = Ctx::new(args, report);
    let shards = args.by_tier(16, 32);
    let sessions = args.by_tier(40, 480);
    let blocks = args.by_tier(12u32, 16);
    let c = ctx.clone();
    for_each_session(args, report, shards, sessions, move |case, rng| {
        let mut cfg = SessionConfig::random(rng);
        // a small slice of sessions runs without UTXO validation
        let fake = case.session % 5 == 4;
        cfg.forbid_fake_coins = !fake;
        let mut sess = ChainSession::new(rng, cfg);
        let mut opt = GenOptions::default();
        for block_no in 0..blocks {
            let parent_da = sess.da_height;
            // every third block starts with a privileged consensus-parameter upgrade that toggles one
            // rule between loose and tight; later blocks hand in transactions checked under the older version
            opt.force_upgrade = block_no % 3 == 1;
            let plan = sess.gen_block_plan(rng, &opt);
            if let Some((_, old)) = &sess.prev_params {
                use chaingen::fuel_core_types::fuel_vm::checked_transaction::IntoChecked;
                for p in plan.txs.iter().filter(|p| p.checked == chaingen::CheckedMode::CheckedOld) {
                    let h_old = plan.height.saturating_sub(1);
                    let valid_old = p.tx.clone().into_checked_basic(h_old.into(), old).is_ok();
                    let valid_new = p.tx.clone().into_checked_basic(plan.height.into(), &sess.params).is_ok();
                    match (valid_old, valid_new) {
                        (true, false) => c.report.count("c01.checked_under_old_version_violates_new_rules"),
                        (true, true) => c.report.count("c01.checked_under_old_version_still_valid"),
                        _ => c.report.count("c01.checked_under_old_version_invalid_there_too"),
                    }
                }
            }
            let source = source_for(rng);
            let produced = match catch(|| sess.produce(&plan, source)) {
                Ok(Ok(p)) => p,
                Ok(Err(e)) => {
                    c.report.count(&format!("c01.production_error.{}", err_variant(&e)));
                    break;
                }
                Err(p) => {
                    c.report.inconclusive(format!("panic during production: {p}"));
                    break;
                }
            };
            let outs = outcomes(&plan.txs, &produced);
            count_production(&c.report, "c01", &plan, &outs, &produced);
            c.report.count(&format!("c01.source.{}", source.name()));
            c.report.count(if fake { "c01.blocks_fake_coins" } else { "c01.blocks_utxo_validation" });
            c.report.eval();
            let replay = || {
                case.replay(
                    plan.height,
                    json!({"source": source.name(), "txs": plan.txs.iter().zip(outs.iter()).map(|(p,o)| format!("{} => {}", p.label(), o.tag())).collect::<Vec<_>>(),
                           "da": [parent_da, plan.da_height], "gas_price": plan.gas_price, "fake_coins": fake}),
                )
            };
            let suffix = if fake { " forbid_fake_coins=false" } else { "" };

            let v1 = catch(|| sess.validate(&produced.block));
            let v2 = catch(|| sess.validate(&produced.block));
            let (mut v1, v2) = match (v1, v2) {
                (Ok(a), Ok(b)) => (a, b),
                (a, b) => {
                    c.report.inconclusive(format!(
                        "panic during validation: {:?} {:?}",
                        a.err(),
                        b.err()
                    ));
                    break;
                }
            };
            // ---- self-test perturbations of the *observed* validation result
            if let Ok(v) = &mut v1 {
                if c.st(1) {
                    // drop one write
                    if let Some((_, tree)) = v.changes.iter_mut().find(|(_, t)| !t.is_empty()) {
                        let k = tree.keys().next().cloned().unwrap();
                        tree.remove(&k);
                    }
                }
                if c.st(2) && v.events.len() >= 2 {
                    v.events.swap(0, 1);
                }
                if c.st(3) && !v.tx_status.is_empty() {
                    v.tx_status[0].id = Default::default();
                }
            }
            match (&v1, &v2) {
                (Err(e), _) | (_, Err(e)) => {
                    c.violation(
                        &format!("validate_rejects_produced_block {}{suffix}", err_variant(e)),
                        format!("validate() of the block just produced on the same parent returned {e:?}; source {}", source.name()),
                        replay(),
                    );
                }
                (Ok(a), Ok(b)) => {
                    let (pc, ac, bc) = (produced.canon(), a.canon(), b.canon());
                    if let Some(d) = diff_changes(&pc, &ac) {
                        c.violation(
                            &format!("changes_differ_production_vs_validation{suffix}"),
                            format!("production (left) vs validation (right): {d}"),
                            replay(),
                        );
                    }
                    if let Some(d) = first_debug_diff(&produced.tx_status, &a.tx_status) {
                        c.violation(
                            &format!("tx_status_differ_production_vs_validation{suffix}"),
                            format!("production vs validation: {d}"),
                            replay(),
                        );
                    }
                    if let Some(d) = first_debug_diff(&produced.events, &a.events) {
                        // known (fake-coin mode only): a tx skipped after spend_input_utxos leaves its
                        // CoinConsumed events behind. Classify exactly: validation events must be a
                        // subsequence of production events and every extra event must be a CoinConsumed /
                        // MessageConsumed of an input of a skipped transaction.
                        let sig = if fake && leftover_events_of_skipped(&plan, &produced, &a.events) {
                            "events_differ_production_vs_validation forbid_fake_coins=false".to_string()
                        } else if fake {
                            "events_differ_production_vs_validation forbid_fake_coins=false other".to_string()
                        } else {
                            "events_differ_production_vs_validation".to_string()
                        };
                        c.violation(&sig, format!("production vs validation: {d}"), replay());
                    }
                    if !c.st(1) && !c.st(2) && !c.st(3) {
                        if diff_changes(&ac, &bc).is_some()
                            || first_debug_diff(&a.tx_status, &b.tx_status).is_some()
                            || first_debug_diff(&a.events, &b.events).is_some()
                        {
                            c.violation(
                                &format!("validation_not_deterministic{suffix}"),
                                "two validations of the same block on the same parent differ".to_string(),
                                replay(),
                            );
                        }
                    }
                    c.report.count("c01.blocks_validated_identically");
                }
            }

            let (nontrivial, shape) = block_shape(&plan, &outs, &produced, parent_da);
            if nontrivial {
                c.report.distinct_hash(shape);
                c.report.count("c01.nontrivial_blocks");
            }
            if c.report.wants_sample() && nontrivial && chance(rng, 10) {
                c.report.sample(replay());
            }
            if let Err(e) = commit_block(&mut sess, &plan, &produced) {
                c.report.inconclusive(format!("commit failed: {e}"));
                break;
            }
        }
    });
    if args.replay.is_none() {
        report.require("c01.blocks_validated_identically", args.by_tier(2500, 25000));
        report.require("c01.nontrivial_blocks", args.by_tier(2500, 25000));
        report.require("c01.outcome.failed", args.by_tier(4000, 40000));
        report.require("c01.step.call_store", args.by_tier(5800, 58000));
        report.require("c01.tx.Create", args.by_tier(1900, 19000));
        report.require("c01.checked_under_old_version_violates_new_rules", args.by_tier(150, 1_500));
        report.require("c01.checked_under_old_version_still_valid", args.by_tier(150, 1_500));
        report.require("c01.tx.Upgrade", args.by_tier(1_000, 10_000));
        report.require("c01.blocks_fake_coins", args.by_tier(510, 5100));
    }
    report.finish(
        args,
        "exploration",
        RULE,
        false,
        &[
            "parent states are in-memory databases reached through generated history",
            "Changes compared as sorted (column,key,op) lists; statuses/events by Debug rendering",
        ],
    );
}
