//! C06: a transaction id executes at most once in the chain's history;
//! validation rejects blocks containing processed ids.

use crate::common::*;
use chaingen::{
    ChainSession,
    GenOptions,
    SessionConfig,
    TxKind,
    Twist,
    fuel_core_types::{
        fuel_tx::{
            Transaction,
            TxId,
            UniqueIdentifier,
        },
        services::executor::Error as ExecutorError,
    },
};
use std::collections::{
    BTreeMap,
    BTreeSet,
};
use vcommon::{
    Args,
    Report,
    catch,
    chance,
    rand::Rng,
    serde_json::json,
};

pub const RULE: &str = "resubmission-heavy sessions: earlier included transactions are handed in again in the same block, \
the next block and many blocks later (also as already-checked transactions). A log of (height, index, tx id) of all \
committed blocks is kept; judged: no id twice in the log, ProcessedTransactions table == set of logged ids, every \
handed-out transaction whose id is already processed is skipped with TransactionIdCollision, and validate() refuses \
hand-assembled blocks (consistent header) that repeat a transaction of the same block, of the previous block, of an \
old block, or reuse an earlier mint. Non-trivial: block received >=1 resubmission; distinct = (age of the resubmitted \
id in blocks, handed-in form, position).";

pub fn run(args: &Args, report: &Report) {
    let ctx = Ctx::new(args, report);
    let shards = args.by_tier(16, 32);
    let sessions = args.by_tier(40, 480);
    let blocks = args.by_tier(14u32, 24);
    let c = ctx.clone();
    for_each_session(args, report, shards, sessions, move |case, rng| {
        let mut cfg = SessionConfig::random(rng);
        // without UTXO validation the processed-id check is the *only* barrier against replays
        let fake = case.session % 4 == 3;
        cfg.forbid_fake_coins = !fake;
        let mut sess = ChainSession::new(rng, cfg);
        let mut opt = GenOptions::default();
        opt.resubmit_heavy = true;
        opt.txs = 3..=9;
        opt.upgrades = false;
        // id -> (height, index) of first execution
        let mut log: BTreeMap<TxId, (u32, usize)> = BTreeMap::new();
        for _ in 0..blocks {
            let plan = sess.gen_block_plan(rng, &opt);
            let source = crate::c01::source_for(rng);
            let produced = match catch(|| sess.produce(&plan, source)) {
                Ok(Ok(p)) => p,
                Ok(Err(e)) => {
                    c.report.count(&format!("c06.production_error.{}", err_variant(&e)));
                    break;
                }
                Err(p) => {
                    c.report.inconclusive(format!("panic during production: {p}"));
                    break;
                }
            };
            let outs = outcomes(&plan.txs, &produced);
            count_production(&c.report, "c06", &plan, &outs, &produced);
            c.report.eval();
            c.report.count(if fake { "c06.blocks_without_utxo_validation" } else { "c06.blocks_with_utxo_validation" });
            let replay = || {
                case.replay(
                    plan.height,
                    json!({"source": source.name(), "txs": plan.txs.iter().zip(outs.iter()).map(|(p,o)| format!("{} {:x} => {}", p.label(), p.id, o.tag())).collect::<Vec<_>>()}),
                )
            };

            // ---- the block itself
            let mut ids: Vec<TxId> = produced.block.transactions().iter().map(|t| t.id(&sess.chain_id)).collect();
            if c.st(1) && ids.len() >= 2 {
                ids[0] = ids[1];
            }
            let mut seen_here = BTreeSet::new();
            for (i, id) in ids.iter().enumerate() {
                if let Some((h, idx)) = log.get(id) {
                    c.violation(
                        "tx_id_executed_again_in_later_block",
                        format!("tx {id:x} executed at height {h} index {idx} and again at height {} index {i}", plan.height),
                        replay(),
                    );
                }
                if !seen_here.insert(*id) {
                    c.violation(
                        "tx_id_executed_twice_in_block",
                        format!("tx {id:x} appears twice in block {}", plan.height),
                        replay(),
                    );
                }
            }
            // ---- every handed-out resubmission of a processed id is skipped as a collision
            let mut first_in_plan: BTreeSet<TxId> = BTreeSet::new();
            let mut had_resub = false;
            for (pos, (p, o)) in plan.txs.iter().zip(outs.iter()).enumerate() {
                let earlier = log.get(&p.id).copied();
                let dup_in_block = !first_in_plan.insert(p.id);
                if earlier.is_none() && !dup_in_block {
                    continue;
                }
                had_resub = true;
                let age = earlier.map(|(h, _)| plan.height - h);
                let class = match age {
                    Some(1) => "next_block",
                    Some(a) if a <= 4 => "few_blocks_later",
                    Some(_) => "many_blocks_later",
                    None => "same_block",
                };
                match o {
                    Outcome::Leftover => {
                        c.report.count(&format!("c06.resubmission_not_handed_out.{class}"));
                    }
                    Outcome::Skipped(e) if e == "TransactionIdCollision" => {
                        c.report.count(&format!("c06.resubmission_skipped_collision.{class}"));
                        if fake {
                            c.report.count("c06.resubmission_skipped_collision_without_utxo_validation");
                        }
                        c.report.count("c06.resubmissions_skipped");
                    }
                    Outcome::Skipped(e) => {
                        // refused for another reason that is checked earlier (e.g. block gas): still not executed
                        c.report.count(&format!("c06.resubmission_skipped_other.{class}.{e}"));
                    }
                    Outcome::Success | Outcome::Failed => {
                        if earlier.is_some() {
                            c.violation(
                                "processed_id_executed_again",
                                format!("tx {:x} first executed at {:?} was executed again in block {}", p.id, earlier, plan.height),
                                replay(),
                            );
                        }
                        // (dup_in_block && first copy skipped && this one executed) is legitimate
                    }
                }
                c.report.distinct(&(class, format!("{:?}", p.checked), pos.min(10), o.tag(), matches!(p.kind, TxKind::Resubmit { .. }), p.twist == Twist::DuplicateInBlock));
            }
            if had_resub {
                c.report.count("c06.nontrivial_blocks");
            }

            // ---- validation of hand-assembled blocks containing processed ids
            let txs = produced.block.transactions().to_vec();
            let n = txs.len();
            let mut mutants: Vec<(&'static str, Vec<Transaction>)> = Vec::new();
            if n >= 2 {
                // a transaction of this block once more before the mint
                let mut v = txs.clone();
                let k = rng.gen_range(0..n - 1);
                v.insert(n - 1, txs[k].clone());
                mutants.push(("same_block_twice", v));
                let mut v = txs.clone();
                v.insert(k + 1, txs[k].clone());
                mutants.push(("same_block_adjacent", v));
            }
            if let Some(prev) = sess.history.last() {
                if let Some(t) = prev.block.transactions().iter().find(|t| !matches!(t, Transaction::Mint(_))) {
                    let mut v = txs.clone();
                    v.insert(rng.gen_range(0..n), t.clone());
                    mutants.push(("previous_block_tx", v));
                }
                // the previous block's mint instead of ours
                let mut v = txs.clone();
                v[n - 1] = prev.block.transactions().last().cloned().unwrap();
                mutants.push(("previous_block_mint", v));
            }
            if sess.history.len() >= 4 {
                let old = &sess.history[rng.gen_range(0..sess.history.len() - 2)];
                if let Some(t) = old.block.transactions().iter().find(|t| !matches!(t, Transaction::Mint(_))) {
                    let mut v = txs.clone();
                    v.insert(n - 1, t.clone());
                    mutants.push(("old_block_tx", v));
                }
            }
            for (name, mtxs) in mutants {
                // statuses list for outbox ids: keep the produced ones (inserted txs add no outbox message to the header)
                let Some(b) = reassemble(&produced.block, mtxs, &produced.tx_status) else { continue };
                match catch(|| sess.validate(&b)) {
                    Err(p) => c.report.inconclusive(format!("panic validating {name}: {p}")),
                    Ok(Err(e)) if !c.st(2) => {
                        c.report.count(&format!("c06.validate_rejected.{name}"));
                        c.report.count(&format!("c06.validate_reject_reason.{}", err_variant(&e)));
                        if matches!(e, ExecutorError::TransactionIdCollision(_)) {
                            c.report.count("c06.validate_rejected_with_collision");
                        }
                    }
                    Ok(_) => c.violation(
                        &format!("validate_accepts_block_with_processed_id {name}"),
                        format!("validate() accepted a block that repeats an already processed transaction ({name})"),
                        replay(),
                    ),
                }
            }

            if c.report.wants_sample() && had_resub && chance(rng, 10) {
                c.report.sample(replay());
            }
            if let Err(e) = commit_block(&mut sess, &plan, &produced) {
                c.report.inconclusive(format!("commit failed: {e}"));
                break;
            }
            for (i, id) in produced.block.transactions().iter().map(|t| t.id(&sess.chain_id)).enumerate() {
                log.entry(id).or_insert((plan.height, i));
            }
            // ---- ProcessedTransactions == logged ids
            let mut table: BTreeSet<TxId> = sess.processed_txs().into_iter().collect();
            if c.st(3) {
                if let Some(k) = table.iter().next().cloned() {
                    table.remove(&k);
                }
            }
            let logged: BTreeSet<TxId> = log.keys().cloned().collect();
            if table != logged {
                let a: Vec<_> = table.difference(&logged).take(3).map(|i| format!("{i:x}")).collect();
                let b: Vec<_> = logged.difference(&table).take(3).map(|i| format!("{i:x}")).collect();
                c.violation(
                    "processed_table_differs_from_history",
                    format!("after block {}: only in table {a:?}, only in history {b:?}", plan.height),
                    replay(),
                );
                break;
            }
        }
    });
    if args.replay.is_none() {
        report.require("c06.nontrivial_blocks", args.by_tier(1800, 18000));
        report.require("c06.resubmissions_skipped", args.by_tier(2900, 29000));
        report.require("c06.resubmission_skipped_collision_without_utxo_validation", args.by_tier(790, 7900));
        report.require("c06.resubmission_skipped_collision.same_block", args.by_tier(150, 1500));
        report.require("c06.resubmission_skipped_collision.next_block", args.by_tier(1200, 12000));
        report.require("c06.resubmission_skipped_collision.many_blocks_later", args.by_tier(690, 6900));
        report.require("c06.validate_rejected.same_block_twice", args.by_tier(2900, 29000));
        report.require("c06.validate_rejected.previous_block_tx", args.by_tier(2700, 27000));
        report.require("c06.validate_rejected.previous_block_mint", args.by_tier(2700, 27000));
        report.require("c06.validate_rejected_with_collision", args.by_tier(12000, 120000));
    }
    report.finish(
        args,
        "exploration",
        RULE,
        false,
        &[
            "history = blocks committed by the session (in-memory database); the regenesis leg is covered by C39's monitor",
            "a quarter of the sessions run with forbid_fake_coins = false so that spent inputs do not mask a missing processed-id check",
            "a duplicate inside one block whose first copy was skipped may legitimately execute",
        ],
    );
}
