//! C02: UTXO conservation and exact coin/message events.

use crate::{
    common::*,
    model::{
        MCoin,
        MEvent,
        UtxoModel,
    },
};
use chaingen::{
    ChainSession,
    GenOptions,
    SessionConfig,
    fuel_core_types::{
        entities::{
            coins::coin::CompressedCoin,
            relayer::message::Message,
        },
        fuel_tx::UtxoId,
        fuel_types::Nonce,
        services::{
            executor::Event as ExecutorEvent,
            relayer::Event,
        },
    },
};
use std::collections::BTreeMap;
use vcommon::{
    Args,
    Report,
    catch,
    chance,
    serde_json::json,
};

pub const RULE: &str = "sessions of generated blocks committed one after another; after every commit the real Coins and \
Messages tables (full iteration) are compared with an independent UtxoModel advanced from the block's transactions, \
statuses and the harness's relayer history, and the reported coin/message events are compared (as multisets) with the \
model's expectation and (netted) with the real table diff. Non-trivial block: >=1 coin or message consumed by a non-mint \
tx; distinct = multiset of (template, outcome) per block.";

fn mcoin(c: &CompressedCoin) -> MCoin {
    MCoin {
        owner: *c.owner(),
        amount: *c.amount(),
        asset: *c.asset_id(),
        tx_pointer: *c.tx_pointer(),
    }
}

fn observed_events(events: &[ExecutorEvent]) -> (Vec<MEvent>, BTreeMap<Nonce, Message>) {
    let mut out = Vec::new();
    let mut msgs = BTreeMap::new();
    for e in events {
        match e {
            ExecutorEvent::CoinCreated(c) => out.push(MEvent::CoinCreated(
                c.utxo_id,
                MCoin {
                    owner: c.owner,
                    amount: c.amount,
                    asset: c.asset_id,
                    tx_pointer: c.tx_pointer,
                },
            )),
            ExecutorEvent::CoinConsumed(c) => out.push(MEvent::CoinConsumed(
                c.utxo_id,
                MCoin {
                    owner: c.owner,
                    amount: c.amount,
                    asset: c.asset_id,
                    tx_pointer: c.tx_pointer,
                },
            )),
            ExecutorEvent::MessageImported(m) => {
                msgs.insert(*m.nonce(), m.clone());
                out.push(MEvent::MessageImported(*m.nonce()))
            }
            ExecutorEvent::MessageConsumed(m) => {
                msgs.insert(*m.nonce(), m.clone());
                out.push(MEvent::MessageConsumed(*m.nonce()))
            }
            ExecutorEvent::ForcedTransactionFailed { .. } => {}
        }
    }
    (out, msgs)
}

pub fn run(args: &Args, report: &Report) {
    let ctx = Ctx::new(args, report);
    let shards = args.by_tier(16, 32);
    let sessions = args.by_tier(40, 480);
    let blocks = args.by_tier(14u32, 20);
    let c = ctx.clone();
    for_each_session(args, report, shards, sessions, move |case, rng| {
        let cfg = SessionConfig::random(rng);
        let mut sess = ChainSession::new(rng, cfg);
        let mut model = UtxoModel::from_genesis(&sess.genesis);
        let mut opt = GenOptions::default();
        opt.twist_permille = 300;
        opt.resubmit_heavy = case.session % 2 == 0;
        // model == real tables at genesis (sanity of the harness itself)
        {
            let coins: BTreeMap<UtxoId, MCoin> = sess.coins().iter().map(|(u, c)| (*u, mcoin(c))).collect();
            if coins != model.coins || sess.messages() != model.messages {
                c.report.inconclusive("harness: genesis tables differ from the model");
                return;
            }
        }
        for _ in 0..blocks {
            let parent_da = sess.da_height;
            let plan = sess.gen_block_plan(rng, &opt);
            let source = crate::c01::source_for(rng);
            let produced = match catch(|| sess.produce(&plan, source)) {
                Ok(Ok(p)) => p,
                Ok(Err(e)) => {
                    c.report.count(&format!("c02.production_error.{}", err_variant(&e)));
                    break;
                }
                Err(p) => {
                    c.report.inconclusive(format!("panic during production: {p}"));
                    break;
                }
            };
            let outs = outcomes(&plan.txs, &produced);
            count_production(&c.report, "c02", &plan, &outs, &produced);
            for (p, o) in plan.txs.iter().zip(outs.iter()) {
                if p.checked == chaingen::CheckedMode::FullyChecked {
                    // did the hand-over really carry a fully checked transaction?
                    use chaingen::fuel_core_types::fuel_vm::checked_transaction::IntoChecked;
                    let full = p.tx.clone().into_checked(plan.height.into(), &sess.params).is_ok();
                    let what = match o {
                        Outcome::Success | Outcome::Failed => "executed".to_string(),
                        Outcome::Skipped(_) => "skipped".to_string(),
                        Outcome::Leftover => "leftover".to_string(),
                    };
                    c.report.count(&format!(
                        "c02.fully_checked.{}.{:?}.{what}",
                        if full { "passes_pool_checks" } else { "fails_pool_checks" },
                        p.twist
                    ));
                    if full {
                        match o {
                            Outcome::Skipped(e) if e.ends_with("CoinMismatch") => c.report.count("c02.fully_checked_coin_mismatch_refused"),
                            Outcome::Skipped(e) if e.ends_with("MessageMismatch") => c.report.count("c02.fully_checked_message_mismatch_refused"),
                            Outcome::Skipped(e) if e.ends_with("CoinDoesNotExist") => c.report.count("c02.fully_checked_missing_or_spent_coin_refused"),
                            Outcome::Skipped(e) if e.ends_with("MessageSpendTooEarly") => c.report.count("c02.fully_checked_message_too_early_refused"),
                            Outcome::Success | Outcome::Failed => c.report.count("c02.fully_checked_executed"),
                            _ => {}
                        }
                    }
                }
            }
            let replay = || {
                case.replay(
                    plan.height,
                    json!({"source": source.name(), "txs": plan.txs.iter().zip(outs.iter()).map(|(p,o)| format!("{} => {}", p.label(), o.tag())).collect::<Vec<_>>(),
                           "da": [parent_da, plan.da_height]}),
                )
            };
            let coins_before = sess.coins();
            let msgs_before = sess.messages();
            if let Err(e) = commit_block(&mut sess, &plan, &produced) {
                c.report.inconclusive(format!("commit failed: {e}"));
                break;
            }
            let mut coins_after = sess.coins();
            let msgs_after = sess.messages();
            c.report.eval();

            // ---- model step
            let relayed: Vec<Event> = ((parent_da + 1)..=plan.da_height)
                .flat_map(|h| sess.relayer_events(h).to_vec())
                .collect();
            let failed: Vec<bool> = produced.tx_status.iter().map(is_failed).collect();
            let expected = match model.apply_block(&produced.block, &sess.chain_id, &relayed, &failed) {
                Ok(e) => e,
                Err((sig, detail)) => {
                    c.violation(&sig, detail, replay());
                    break;
                }
            };

            // ---- self-test perturbations of the observation
            let mut events = produced.events.clone();
            if c.st(1) {
                if let Some(k) = coins_after.keys().next().cloned() {
                    coins_after.remove(&k);
                }
            }
            if c.st(2) {
                if let Some(e) = events.iter().find(|e| matches!(e, ExecutorEvent::CoinConsumed(_))).cloned() {
                    events.push(e);
                }
            }
            if c.st(3) {
                if let Some(i) = events.iter().position(|e| matches!(e, ExecutorEvent::CoinCreated(_))) {
                    events.remove(i);
                }
            }

            // (a) tables == model
            let real: BTreeMap<UtxoId, MCoin> = coins_after.iter().map(|(u, c)| (*u, mcoin(c))).collect();
            if real != model.coins {
                let only_real: Vec<_> = real.iter().filter(|(k, v)| model.coins.get(k) != Some(v)).take(3).collect();
                let only_model: Vec<_> = model.coins.iter().filter(|(k, v)| real.get(k) != Some(v)).take(3).collect();
                c.violation(
                    "coins_table_differs_from_model",
                    format!("after block {}: in table but not model: {only_real:?}; in model but not table: {only_model:?}", plan.height),
                    replay(),
                );
                break;
            }
            if msgs_after != model.messages {
                let a: Vec<_> = msgs_after.keys().filter(|k| !model.messages.contains_key(*k)).take(3).collect();
                let b: Vec<_> = model.messages.keys().filter(|k| !msgs_after.contains_key(*k)).take(3).collect();
                c.violation(
                    "messages_table_differs_from_model",
                    format!("after block {}: only in table {a:?}; only in model {b:?}", plan.height),
                    replay(),
                );
                break;
            }
            if let Some((u, coin)) = real.iter().find(|(_, c)| c.amount == 0) {
                c.violation(
                    "zero_amount_coin_in_table",
                    format!("coin {u:x} = {coin:?} has amount 0"),
                    replay(),
                );
            }

            // (b) events == model expectation (multiset)
            let (obs, obs_msgs) = observed_events(&events);
            let mut a = obs.clone();
            let mut b = expected.clone();
            a.sort();
            b.sort();
            if a != b {
                let extra: Vec<_> = a.iter().filter(|e| !b.contains(e)).take(3).collect();
                let missing: Vec<_> = b.iter().filter(|e| !a.contains(e)).take(3).collect();
                c.violation(
                    "events_differ_from_model",
                    format!(
                        "block {}: reported but not expected {extra:?}; expected but not reported {missing:?} ({} reported, {} expected)",
                        plan.height,
                        a.len(),
                        b.len()
                    ),
                    replay(),
                );
            }
            // message events must carry the message as stored
            for (n, m) in &obs_msgs {
                let stored = msgs_before.get(n).or_else(|| msgs_after.get(n));
                let relayed_m = relayed.iter().find_map(|e| match e {
                    Event::Message(x) if x.nonce() == n => Some(x),
                    _ => None,
                });
                if stored.or(relayed_m) != Some(m) {
                    c.violation(
                        "message_event_content_differs",
                        format!("event carries {m:?}, stored/relayed is {:?}", stored.or(relayed_m)),
                        replay(),
                    );
                }
            }

            // (c) events (netted) == real table diff
            let mut created: BTreeMap<UtxoId, MCoin> = BTreeMap::new();
            let mut consumed: BTreeMap<UtxoId, MCoin> = BTreeMap::new();
            let mut imported: Vec<Nonce> = vec![];
            let mut msg_consumed: Vec<Nonce> = vec![];
            let mut dup = false;
            for e in &obs {
                match e {
                    MEvent::CoinCreated(u, coin) => dup |= created.insert(*u, coin.clone()).is_some(),
                    MEvent::CoinConsumed(u, coin) => dup |= consumed.insert(*u, coin.clone()).is_some(),
                    MEvent::MessageImported(n) => {
                        dup |= imported.contains(n);
                        imported.push(*n)
                    }
                    MEvent::MessageConsumed(n) => {
                        dup |= msg_consumed.contains(n);
                        msg_consumed.push(*n)
                    }
                }
            }
            if dup {
                c.violation(
                    "event_reported_twice",
                    format!("block {}: the same coin/message appears twice in one event list", plan.height),
                    replay(),
                );
            }
            let before: BTreeMap<UtxoId, MCoin> = coins_before.iter().map(|(u, c)| (*u, mcoin(c))).collect();
            let added: BTreeMap<_, _> = real.iter().filter(|(k, _)| !before.contains_key(k)).map(|(k, v)| (*k, v.clone())).collect();
            let removed: BTreeMap<_, _> = before.iter().filter(|(k, _)| !real.contains_key(k)).map(|(k, v)| (*k, v.clone())).collect();
            let net_created: BTreeMap<_, _> = created.iter().filter(|(k, _)| !consumed.contains_key(k)).map(|(k, v)| (*k, v.clone())).collect();
            let net_consumed: BTreeMap<_, _> = consumed.iter().filter(|(k, _)| !created.contains_key(k)).map(|(k, v)| (*k, v.clone())).collect();
            if added != net_created || removed != net_consumed {
                c.violation(
                    "coin_events_differ_from_table_diff",
                    format!(
                        "block {}: table +{} -{} coins, events net +{} -{}",
                        plan.height,
                        added.len(),
                        removed.len(),
                        net_created.len(),
                        net_consumed.len()
                    ),
                    replay(),
                );
            }
            let m_added: Vec<Nonce> = msgs_after.keys().filter(|k| !msgs_before.contains_key(*k)).cloned().collect();
            let m_removed: Vec<Nonce> = msgs_before.keys().filter(|k| !msgs_after.contains_key(*k)).cloned().collect();
            let mut net_imp: Vec<Nonce> = imported.iter().filter(|n| !msg_consumed.contains(n)).cloned().collect();
            let mut net_con: Vec<Nonce> = msg_consumed.iter().filter(|n| !imported.contains(n)).cloned().collect();
            net_imp.sort();
            net_con.sort();
            if m_added != net_imp || m_removed != net_con {
                c.violation(
                    "message_events_differ_from_table_diff",
                    format!(
                        "block {}: table +{:?} -{:?}, events net +{:?} -{:?}",
                        plan.height, m_added, m_removed, net_imp, net_con
                    ),
                    replay(),
                );
            }
            if created.values().any(|c| c.amount == 0) {
                c.violation("zero_amount_coin_created", format!("block {}", plan.height), replay());
            }

            // ---- evidence
            c.report.add("c02.coins_consumed", consumed.len() as u64);
            c.report.add("c02.coins_created", created.len() as u64);
            c.report.add("c02.messages_imported", imported.len() as u64);
            c.report.add("c02.messages_consumed", msg_consumed.len() as u64);
            c.report.add(
                "c02.coins_created_and_consumed_in_same_block",
                created.keys().filter(|k| consumed.contains_key(k)).count() as u64,
            );
            c.report.add(
                "c02.messages_imported_and_consumed_in_same_block",
                imported.iter().filter(|n| msg_consumed.contains(n)).count() as u64,
            );
            let zero_outputs = produced
                .block
                .transactions()
                .iter()
                .filter_map(crate::model::tx_parts)
                .flat_map(|(_, o)| o.iter())
                .filter(|o| o.amount() == Some(0) && !o.is_contract())
                .count();
            c.report.add("c02.zero_amount_outputs_not_created", zero_outputs as u64);
            let retry_kept = plan
                .txs
                .iter()
                .zip(outs.iter())
                .filter(|(p, o)| p.uses_message && **o == Outcome::Failed)
                .count();
            c.report.add("c02.failed_txs_with_message_inputs", retry_kept as u64);
            if !consumed.is_empty() || !msg_consumed.is_empty() {
                let (_, shape) = block_shape(&plan, &outs, &produced, parent_da);
                c.report.distinct_hash(shape);
                c.report.count("c02.nontrivial_blocks");
            }
            if c.report.wants_sample() && chance(rng, 5) {
                c.report.sample(replay());
            }
        }
    });
    if args.replay.is_none() {
        report.require("c02.fully_checked_coin_mismatch_refused", args.by_tier(200, 2_000));
        report.require("c02.fully_checked_message_mismatch_refused", args.by_tier(100, 1_000));
        report.require("c02.fully_checked_missing_or_spent_coin_refused", args.by_tier(200, 2_000));
        report.require("c02.fully_checked_message_too_early_refused", args.by_tier(100, 1_000));
        report.require("c02.fully_checked_executed", args.by_tier(2_000, 20_000));
        report.require("c02.nontrivial_blocks", args.by_tier(2900, 29000));
        report.require("c02.coins_consumed", args.by_tier(15000, 150000));
        report.require("c02.coins_created", args.by_tier(22000, 220000));
        report.require("c02.messages_imported", args.by_tier(2800, 28000));
        report.require("c02.messages_consumed", args.by_tier(2900, 29000));
        report.require("c02.zero_amount_outputs_not_created", args.by_tier(8900, 89000));
        report.require("c02.outcome.skip:TransactionValidity.CoinDoesNotExist", args.by_tier(900, 9000));
        report.require("c02.outcome.skip:TransactionValidity.MessageSpendTooEarly", args.by_tier(850, 8500));
        report.require("c02.failed_txs_with_message_inputs", args.by_tier(1200, 12000));
    }
    report.finish(
        args,
        "exploration",
        RULE,
        false,
        &[
            "UtxoModel is the trusted reference (written from the property text)",
            "executor runs with forbid_fake_coins = true (UTXO validation on)",
        ],
    );
}
