//! C05: relayed DA events are imported exactly once, in order, with a matching
//! event inbox root.

use crate::common::*;
use chaingen::{
    ChainSession,
    GenOptions,
    SessionConfig,
    canon::rfc6962_root,
    fuel_core_types::{
        entities::relayer::message::Message,
        fuel_tx::{
            Transaction,
            UniqueIdentifier,
        },
        fuel_types::{
            Nonce,
            canonical::Deserialize,
        },
        services::{
            executor::Event as ExecutorEvent,
            relayer::Event,
        },
    },
};
use std::collections::BTreeSet;
use vcommon::{
    Args,
    Report,
    catch,
    chance,
    serde_json::json,
};

pub const RULE: &str = "sessions with a generated relayer history (messages, forced transactions with valid / garbage / mint / \
under-claimed / duplicated payloads) written to the real relayer database; every block advances the DA height by 0..=5 \
(events beyond the chosen height usually exist). Expected import list = the harness's own copy of the events of heights \
p+1..=d in order. Judged: MessageImported sequence, message rows written, no message imported twice over the history, \
every forced transaction is either the next L1 transaction of the block or has exactly one ForcedTransactionFailed event \
(and a failure reason that contradicts the executor's documented rule - e.g. InsufficientMaxGas although claim >= real max gas, claims \
generated at real-1, real, real+1, larger - is a violation), \
event_inbox_root = own RFC 6962 root over the event hashes; the block is also validated. Non-trivial: >=1 relayed event \
covered; distinct = (DA advance, per-height event kinds, outcome of each forced tx).";

pub fn run(args: &Args, report: &Report) {
    let ctx = Ctx::new(args, report);
    let shards = args.by_tier(16, 32);
    let sessions = args.by_tier(40, 480);
    let blocks = args.by_tier(14u32, 20);
    let c = ctx.clone();
    for_each_session(args, report, shards, sessions, move |case, rng| {
        let cfg = SessionConfig::random(rng);
        let mut sess = ChainSession::new(rng, cfg);
        let mut opt = GenOptions::default();
        opt.txs = 1..=6;
        opt.upgrades = false;
        let mut imported_ever: BTreeSet<Nonce> = sess.genesis.messages.iter().map(|m| *m.nonce()).collect();
        for _ in 0..blocks {
            let parent_da = sess.da_height;
            let plan = sess.gen_block_plan(rng, &opt);
            let source = crate::c01::source_for(rng);
            let produced = match catch(|| sess.produce(&plan, source)) {
                Ok(Ok(p)) => p,
                Ok(Err(e)) => {
                    c.report.count(&format!("c05.production_error.{}", err_variant(&e)));
                    break;
                }
                Err(p) => {
                    c.report.inconclusive(format!("panic during production: {p}"));
                    break;
                }
            };
            c.report.eval();
            let d = plan.da_height;
            let expected: Vec<Event> = ((parent_da + 1)..=d).flat_map(|h| sess.relayer_events(h).to_vec()).collect();
            let kinds: Vec<Vec<&str>> = ((parent_da + 1)..=d)
                .map(|h| {
                    sess.relayer_events(h)
                        .iter()
                        .map(|e| match e {
                            Event::Message(m) if m.data().is_empty() => "msg_coin",
                            Event::Message(_) => "msg_data",
                            Event::Transaction(_) => "forced_tx",
                        })
                        .collect()
                })
                .collect();
            let replay = || {
                case.replay(
                    plan.height,
                    json!({"parent_da": parent_da, "da": d, "relayer_tip": sess.relayer_tip, "events_per_height": kinds}),
                )
            };
            let header = produced.block.header();
            if header.da_height().0 != d {
                c.violation("block_da_height_differs_from_requested", format!("{} vs {d}", header.da_height().0), replay());
            }

            // ---- observation (with self-test perturbations)
            let mut events = produced.events.clone();
            let mut root: [u8; 32] = *header.event_inbox_root();
            if c.st(1) {
                root[3] ^= 1;
            }
            if c.st(2) {
                if let Some(i) = events.iter().position(|e| matches!(e, ExecutorEvent::MessageImported(_))) {
                    events.remove(i);
                }
            }
            if c.st(3) {
                if let Some(i) = events.iter().position(|e| matches!(e, ExecutorEvent::ForcedTransactionFailed { .. })) {
                    events.remove(i);
                }
            }

            // ---- messages: exactly the expected ones, in order
            let exp_msgs: Vec<&Message> = expected
                .iter()
                .filter_map(|e| match e {
                    Event::Message(m) => Some(m),
                    _ => None,
                })
                .collect();
            let got_msgs: Vec<&Message> = events
                .iter()
                .filter_map(|e| match e {
                    ExecutorEvent::MessageImported(m) => Some(m),
                    _ => None,
                })
                .collect();
            if exp_msgs != got_msgs {
                c.violation(
                    "imported_messages_differ_from_relayer_events",
                    format!(
                        "DA {parent_da}->{d}: relayer has {:?}, block imported {:?}",
                        exp_msgs.iter().map(|m| format!("{:x}@{}", m.nonce(), m.da_height().0)).collect::<Vec<_>>(),
                        got_msgs.iter().map(|m| format!("{:x}@{}", m.nonce(), m.da_height().0)).collect::<Vec<_>>()
                    ),
                    replay(),
                );
            }
            for m in &got_msgs {
                if !imported_ever.insert(*m.nonce()) {
                    c.violation(
                        "message_imported_twice_in_history",
                        format!("message {:x} imported again in block {}", m.nonce(), plan.height),
                        replay(),
                    );
                }
            }
            // every imported message is written to Messages unless consumed in the same block
            let consumed: BTreeSet<Nonce> = events
                .iter()
                .filter_map(|e| match e {
                    ExecutorEvent::MessageConsumed(m) => Some(*m.nonce()),
                    _ => None,
                })
                .collect();
            let written: BTreeSet<Vec<u8>> = produced
                .canon()
                .into_iter()
                .filter(|o| o.0 == 14 && o.2.is_some())
                .map(|o| o.1)
                .collect();
            for m in &exp_msgs {
                let w = written.contains(m.nonce().as_slice());
                if !w && !consumed.contains(m.nonce()) {
                    c.violation(
                        "imported_message_not_stored",
                        format!("message {:x} neither written to Messages nor consumed in block {}", m.nonce(), plan.height),
                        replay(),
                    );
                }
            }
            let exp_nonces: BTreeSet<&[u8]> = exp_msgs.iter().map(|m| m.nonce().as_slice()).collect();
            for k in &written {
                if !exp_nonces.contains(k.as_slice()) {
                    c.violation(
                        "message_stored_that_relayer_did_not_send",
                        format!("Messages[{}] written in block {} (DA {parent_da}->{d})", hex::encode(k), plan.height),
                        replay(),
                    );
                }
            }

            // ---- forced transactions
            let mut failed_ids: Vec<_> = events
                .iter()
                .filter_map(|e| match e {
                    ExecutorEvent::ForcedTransactionFailed { id, block_height, failure } => Some((id.clone(), *block_height, failure.clone())),
                    _ => None,
                })
                .collect();
            let txs = produced.block.transactions();
            let mut ptr = 0usize;
            let mut fates: Vec<String> = Vec::new();
            for e in &expected {
                let Event::Transaction(rt) = e else { continue };
                let rid = rt.id();
                // the harness's own view of the payload, per the documented ForcedTransactionFailure variants
                let decoded0 = Transaction::from_bytes(rt.serialized_transaction()).ok();
                let real_gas = decoded0
                    .as_ref()
                    .and_then(|t| chaingen::fuel_core_types::blockchain::transaction::TransactionExt::max_gas(t, &sess.params).ok());
                let claim_class = match real_gas {
                    Some(g) if rt.max_gas() + 1 == g => "one_below",
                    Some(g) if rt.max_gas() < g => "below",
                    Some(g) if rt.max_gas() == g => "exact",
                    Some(g) if rt.max_gas() == g + 1 => "one_above",
                    Some(_) => "above",
                    None => "no_gas",
                };
                if let Some(i) = failed_ids.iter().position(|(id, _, _)| *id == rid) {
                    let (_, h, failure) = failed_ids.remove(i);
                    c.report.count(&format!("c05.forced_claim.{claim_class}.failed"));
                    // A forced transaction that is valid under the executor's own documented rules must not be
                    // reported with that reason: `InsufficientMaxGas` = "didn't specify high enough max gas"
                    // (claim >= real max gas is high enough), `CodecError` = payload does not decode,
                    // `InvalidTransactionType` = Mint, `CheckError` = fails the validity checks.
                    let mut why_wrong: Option<&str> = None;
                    if failure.starts_with("Insufficient max gas") && real_gas.map(|g| rt.max_gas() >= g).unwrap_or(false) {
                        why_wrong = Some("forced_tx_with_sufficient_gas_claim_reported_insufficient");
                    } else if failure.starts_with("Failed to decode") && decoded0.is_some() {
                        why_wrong = Some("decodable_forced_tx_reported_undecodable");
                    } else if failure.starts_with("Transaction type is not accepted")
                        && decoded0.as_ref().map(|t| !matches!(t, Transaction::Mint(_))).unwrap_or(false)
                    {
                        why_wrong = Some("non_mint_forced_tx_reported_as_wrong_type");
                    } else if failure.starts_with("Failed validity checks") {
                        use chaingen::fuel_core_types::fuel_vm::checked_transaction::IntoChecked;
                        if let Some(t) = decoded0.clone() {
                            if !matches!(t, Transaction::Mint(_)) && t.into_checked(plan.height.into(), &sess.params).is_ok() {
                                why_wrong = Some("valid_forced_tx_reported_invalid");
                            }
                        }
                    }
                    if let Some(sig) = why_wrong {
                        c.violation(
                            sig,
                            format!(
                                "relayed tx {rid} (claimed max gas {}, real max gas {:?}) reported failed with: {failure}",
                                rt.max_gas(),
                                real_gas
                            ),
                            replay(),
                        );
                    }
                    if u32::from(h) != plan.height {
                        c.violation("forced_tx_failure_reports_wrong_height", format!("{h} vs {}", plan.height), replay());
                    }
                    let f = failure.split(&[':', '(', '{'][..]).next().unwrap_or("").trim().to_string();
                    c.report.count(&format!("c05.forced_failed.{}", f.replace(' ', "_")));
                    c.report.count("c05.forced_failed_total");
                    fates.push(format!("failed:{f}"));
                    continue;
                }
                let decoded = Transaction::from_bytes(rt.serialized_transaction()).ok();
                let id = decoded.as_ref().map(|t| t.id(&sess.chain_id));
                let next = txs.get(ptr).map(|t| t.id(&sess.chain_id));
                let by_tx_id = id.and_then(|i| {
                    failed_ids
                        .iter()
                        .position(|(fid, _, _)| <[u8; 32]>::from(chaingen::fuel_core_types::fuel_tx::Bytes32::from(fid.clone())) == *i)
                });
                if id.is_some() && id == next && ptr + 1 < txs.len() {
                    ptr += 1;
                    c.report.count("c05.forced_executed");
                    c.report.count(&format!("c05.forced_claim.{claim_class}.executed"));
                    fates.push("executed".into());
                    let st = &produced.tx_status[ptr - 1];
                    if *st.result.total_fee() != 0 {
                        c.report.count("c05.forced_tx_paid_fee");
                    }
                } else if let Some(i) = by_tx_id {
                    // the executor reports failures of the execution stage under the *transaction* id
                    // (not the relayed-transaction id); the property does not say which id, so accept
                    let (_, h, failure) = failed_ids.remove(i);
                    if u32::from(h) != plan.height {
                        c.violation("forced_tx_failure_reports_wrong_height", format!("{h} vs {}", plan.height), replay());
                    }
                    let f = failure.split(&[':', '(', '{'][..]).next().unwrap_or("").trim().to_string();
                    c.report.count(&format!("c05.forced_failed.{}", f.replace(' ', "_")));
                    c.report.count("c05.forced_failed_total");
                    c.report.count("c05.forced_failed_reported_under_tx_id");
                    fates.push(format!("failed_at_execution:{f}"));
                } else {
                    c.violation(
                        "forced_tx_neither_executed_nor_reported_failed",
                        format!(
                            "relayed tx {rid} (DA {}) : payload id {:?}, next L1 tx of the block {:?}, no ForcedTransactionFailed event",
                            rt.da_height().0,
                            id.map(|i| format!("{i:x}")),
                            next.map(|i| format!("{i:x}"))
                        ),
                        replay(),
                    );
                    fates.push("lost".into());
                }
            }
            if !failed_ids.is_empty() {
                c.violation(
                    "forced_tx_failure_reported_for_unknown_event",
                    format!("{} ForcedTransactionFailed events do not belong to the covered DA heights", failed_ids.len()),
                    replay(),
                );
            }

            // ---- inbox root
            let leaves: Vec<[u8; 32]> = expected.iter().map(|e| *e.hash()).collect();
            let want = rfc6962_root(&leaves);
            if root != want {
                c.violation(
                    "event_inbox_root_mismatch",
                    format!(
                        "header root {} but RFC 6962 root of the {} events of DA heights {}..={d} is {}",
                        hex::encode(root),
                        leaves.len(),
                        parent_da + 1,
                        hex::encode(want)
                    ),
                    replay(),
                );
            }

            // ---- the validator must agree on the same relayer view
            match catch(|| sess.validate(&produced.block)) {
                Ok(Ok(_)) => c.report.count("c05.validated"),
                Ok(Err(e)) => c.violation(
                    &format!("validate_rejects_produced_block {}", err_variant(&e)),
                    format!("{e:?}"),
                    replay(),
                ),
                Err(p) => c.report.inconclusive(format!("panic in validate: {p}")),
            }

            // ---- evidence
            let adv = d - parent_da;
            c.report.count(&format!("c05.da_advance.{adv}"));
            c.report.add("c05.messages_imported", got_msgs.len() as u64);
            if adv >= 2 {
                c.report.count("c05.blocks_multi_height_jump");
                if expected.iter().any(|e| matches!(e, Event::Transaction(_))) {
                    c.report.count("c05.blocks_multi_height_jump_with_forced_txs");
                }
            }
            if adv == 0 {
                c.report.count("c05.blocks_zero_advance");
            }
            if sess.relayer_tip > d && ((d + 1)..=sess.relayer_tip).any(|h| !sess.relayer_events(h).is_empty()) {
                c.report.count("c05.blocks_with_events_beyond_da_height");
            }
            if !expected.is_empty() {
                c.report.count("c05.nontrivial_blocks");
                c.report.distinct(&(adv, kinds.clone(), fates.clone()));
            }
            if c.report.wants_sample() && expected.len() >= 3 && chance(rng, 10) {
                let mut v = replay();
                v["forced_tx_fates"] = json!(fates);
                c.report.sample(v);
            }
            if let Err(e) = commit_block(&mut sess, &plan, &produced) {
                c.report.inconclusive(format!("commit failed: {e}"));
                break;
            }
        }
    });
    if args.replay.is_none() {
        report.require("c05.nontrivial_blocks", args.by_tier(1900, 19000));
        report.require("c05.blocks_multi_height_jump", args.by_tier(1400, 14000));
        report.require("c05.blocks_multi_height_jump_with_forced_txs", args.by_tier(1300, 13000));
        report.require("c05.blocks_zero_advance", args.by_tier(750, 7500));
        report.require("c05.blocks_with_events_beyond_da_height", args.by_tier(1700, 17000));
        report.require("c05.forced_executed", args.by_tier(1400, 14000));
        report.require("c05.messages_imported", args.by_tier(2700, 27000));
        report.require("c05.forced_claim.exact.executed", args.by_tier(400, 4_000));
        report.require("c05.forced_claim.one_above.executed", args.by_tier(100, 1_000));
        report.require("c05.forced_claim.one_below.failed", args.by_tier(100, 1_000));
        report.require("c05.forced_failed_total", args.by_tier(2900, 29000));
        report.require("c05.validated", args.by_tier(2900, 29000));
    }
    report.finish(
        args,
        "exploration",
        RULE,
        false,
        &[
            "the harness's own copy of the relayer history is the reference; event hashes (message id / relayed tx id) are taken from the event types",
            "DA advances respect the block producer's cost rule (sum of claimed max gas of covered forced txs <= block gas limit)",
        ],
    );
}
