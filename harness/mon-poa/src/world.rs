//! Harness-implemented ports of the PoA service plus the mock chain ("DB") they share.
//! Everything runs on one current-thread runtime with paused time; every port call is
//! recorded in the `EventLog` (call event before, return event after).

use crate::StartSel;
use fuel_core_poa::ports::{
    BlockImporter,
    BlockProducer,
    BlockReconciliationReadPort,
    BlockSigner,
    GetTime,
    LeaderState,
    P2pPort,
    PredefinedBlocks,
    TransactionPool,
    TransactionsSource,
    WaitForReadySignal,
};
use fuel_core_services::stream::BoxStream;
use fuel_core_storage::transactional::Changes;
use fuel_core_types::{
    blockchain::{
        SealedBlock,
        block::Block,
        consensus::{
            Consensus,
            poa::PoAConsensus,
        },
        header::{
            BlockHeader,
            PartialBlockHeader,
        },
    },
    fuel_crypto::{
        PublicKey,
        SecretKey,
        Signature,
    },
    fuel_types::{
        BlockHeight,
        Bytes32,
    },
    services::{
        block_importer::{
            BlockImportInfo,
            Source,
            UncommittedResult as UncommittedImportResult,
        },
        executor::{
            ExecutionResult,
            UncommittedResult as UncommittedExecutionResult,
        },
    },
    tai64::Tai64,
};
use serde_json::{
    Value,
    json,
};
use std::{
    collections::{
        BTreeMap,
        VecDeque,
    },
    sync::{
        Arc,
        Mutex,
    },
    time::Duration,
};
use tokio::{
    sync::{
        mpsc,
        watch,
    },
    time::Instant,
};
use tokio_stream::wrappers::UnboundedReceiverStream;
use vcommon::{
    rand::{
        Rng,
        SeedableRng,
        rngs::StdRng,
    },
    *,
};

#[derive(Clone, Copy, Debug, PartialEq, Eq)]
pub enum TriggerSel {
    Instant,
    Never,
    Interval(u64),
    Open(u64),
}

impl TriggerSel {
    pub fn name(&self) -> &'static str {
        match self {
            TriggerSel::Instant => "instant",
            TriggerSel::Never => "never",
            TriggerSel::Interval(_) => "interval",
            TriggerSel::Open(_) => "open",
        }
    }
}

#[derive(Clone, Debug)]
pub struct Cfg {
    pub trigger: TriggerSel,
    pub min_peers: usize,
    pub tus_ms: u64,
    pub init_h: u32,
    pub init_time: u64,
    /// GetTime clock = init_time + skew + elapsed virtual seconds (+ jumps)
    pub clock_skew: i64,
    pub ready_at_start: bool,
    pub predef: Vec<u32>,
    pub production_timeout_ms: u64,
    /// per-call fault probability (percent) on every fallible port
    pub fault_pct: u32,
    /// ports yield 0..=yield_max times before answering
    pub yield_max: u8,
}

#[derive(Clone, Copy, Debug, PartialEq, Eq)]
pub enum ReconMode {
    Leader,
    Follower,
    Err,
}

#[derive(Clone, Copy, Debug, PartialEq, Eq)]
pub enum Fault {
    Err,
    /// producer: answer after that many virtual ms
    Slow(u64),
    /// producer: answer later than the production timeout
    Timeout,
    /// importer: the block is committed (tip moves, stream entry sent) but `Err` is returned
    LostAck,
    /// latest_block_height: `Ok(None)`
    None_,
    /// latest_block_height: a height below the tip
    Stale,
}

struct Inner {
    rng: StdRng,
    tip_h: u32,
    tip_time: u64,
    clock_offset: i64,
    frozen: Option<u64>,
    clock_max_logged: u64,
    armed: BTreeMap<&'static str, VecDeque<Fault>>,
    recon: ReconMode,
    unreconciled: Option<(u8, u8)>,
    nonce: u64,
    stream_rx: Option<mpsc::UnboundedReceiver<BlockImportInfo>>,
    peers_rx: Option<mpsc::UnboundedReceiver<usize>>,
}

pub struct World {
    pub cfg: Cfg,
    pub log: EventLog,
    t0: Instant,
    inner: Mutex<Inner>,
    stream_tx: mpsc::UnboundedSender<BlockImportInfo>,
    pub peers_tx: mpsc::UnboundedSender<usize>,
    pub txs: watch::Sender<()>,
    pub ready: watch::Sender<bool>,
    secret: SecretKey,
    public: PublicKey,
}

const EVENT_BUDGET: usize = 30_000;

fn short(id: &[u8]) -> String {
    hex(&id[..8])
}

impl World {
    pub fn new(cfg: Cfg, seed: u64) -> Arc<World> {
        let (stream_tx, stream_rx) = mpsc::unbounded_channel();
        let (peers_tx, peers_rx) = mpsc::unbounded_channel();
        let (txs, _) = watch::channel(());
        let (ready, _) = watch::channel(cfg.ready_at_start);
        let mut key_rng = StdRng::seed_from_u64(0xC24);
        let secret = SecretKey::random(&mut key_rng);
        let public = secret.public_key();
        Arc::new(World {
            log: EventLog::new(),
            t0: Instant::now(),
            inner: Mutex::new(Inner {
                rng: StdRng::seed_from_u64(seed),
                tip_h: cfg.init_h,
                tip_time: cfg.init_time,
                clock_offset: cfg.clock_skew,
                frozen: None,
                clock_max_logged: 0,
                armed: BTreeMap::new(),
                recon: ReconMode::Leader,
                unreconciled: None,
                nonce: 0,
                stream_rx: Some(stream_rx),
                peers_rx: Some(peers_rx),
            }),
            cfg,
            stream_tx,
            peers_tx,
            txs,
            ready,
            secret,
            public,
        })
    }

    fn lock(&self) -> std::sync::MutexGuard<'_, Inner> {
        self.inner.lock().unwrap_or_else(|e| e.into_inner())
    }

    pub fn vt_us(&self) -> u64 {
        Instant::now().duration_since(self.t0).as_micros() as u64
    }

    /// record an event, stamped with virtual time (µs since the start of the schedule)
    pub fn ev(&self, kind: &str, mut fields: Value) -> u64 {
        if let Value::Object(m) = &mut fields {
            m.insert("vt".into(), json!(self.vt_us()));
        }
        self.log.push(kind, fields)
    }

    pub fn rand(&self, n: u32) -> u32 {
        self.lock().rng.gen_range(0..n)
    }

    /// Every asynchronous port passes through here before answering. Once a schedule has
    /// recorded more events than any sane execution produces (the service is re-asking in a
    /// loop without letting virtual time pass), each answer costs 10 ms of virtual time, so
    /// the schedule still terminates and its history can be judged.
    async fn yields(&self) {
        if self.log.len() > EVENT_BUDGET {
            tokio::time::sleep(Duration::from_millis(10)).await;
        }
        let k = {
            let mut i = self.lock();
            let m = self.cfg.yield_max as u32;
            i.rng.gen_range(0..=m)
        };
        for _ in 0..k {
            tokio::task::yield_now().await;
        }
    }

    /// armed one-shot fault for the port, else a seeded per-call fault
    fn fault(&self, port: &'static str) -> Option<Fault> {
        let mut i = self.lock();
        if let Some(q) = i.armed.get_mut(port)
            && let Some(f) = q.pop_front()
        {
            return Some(f);
        }
        let pct = self.cfg.fault_pct;
        if pct > 0 && i.rng.gen_range(0..100) < pct {
            Some(Fault::Err)
        } else {
            None
        }
    }

    pub fn arm(&self, port: &'static str, f: Fault) {
        self.ev("arm", json!({"port": port, "fault": format!("{f:?}")}));
        self.lock().armed.entry(port).or_default().push_back(f);
    }

    // ---- clock -------------------------------------------------------------

    fn clock_now(&self) -> u64 {
        let i = self.lock();
        if let Some(f) = i.frozen {
            return f;
        }
        let secs = Instant::now().duration_since(self.t0).as_secs() as i64;
        (self.cfg.init_time as i64 + i.clock_offset + secs).max(0) as u64
    }

    pub fn clock_jump(&self, d: i64) {
        self.lock().clock_offset += d;
        self.ev("clock.jump", json!({"d": d, "now": self.clock_now()}));
    }

    pub fn clock_freeze(&self, on: bool) {
        let now = self.clock_now();
        {
            let mut i = self.lock();
            if on {
                i.frozen = Some(now);
            } else if let Some(f) = i.frozen.take() {
                // resume from the frozen value
                let secs = Instant::now().duration_since(self.t0).as_secs() as i64;
                i.clock_offset = f as i64 - self.cfg.init_time as i64 - secs;
            }
        }
        self.ev("clock.freeze", json!({"on": on, "now": now}));
    }

    // ---- mock chain -----------------------------------------------------------

    fn make_block(&self, h: u32, time: u64) -> Block {
        let nonce = {
            let mut i = self.lock();
            i.nonce += 1;
            i.nonce
        };
        let mut header = PartialBlockHeader::default();
        header.consensus.height = h.into();
        header.consensus.time = Tai64(time);
        let mut root = [0u8; 32];
        root[..8].copy_from_slice(&nonce.to_be_bytes());
        header.consensus.prev_root = Bytes32::from(root);
        Block::new(header, vec![], &[], Bytes32::zeroed()).expect("block")
    }

    fn push_stream(&self, header: &BlockHeader, src: &str, cause: &str) {
        let h: u32 = (*header.height()).into();
        self.ev(
            "stream.push",
            json!({"h": h, "time": header.time().0, "src": src, "cause": cause}),
        );
        let info = if src == "local" {
            BlockImportInfo::from(header.clone())
        } else {
            BlockImportInfo::new_from_network(header.clone())
        };
        let _ = self.stream_tx.send(info);
    }

    /// a block from another producer arrives over the network: the DB tip moves and the
    /// importer broadcasts it on the block stream
    pub fn push_net_block(&self) {
        let (h, time) = {
            let mut i = self.lock();
            let d = *pick(&mut i.rng, &[0u64, 1, 1, 3]);
            i.tip_h += 1;
            i.tip_time += d;
            (i.tip_h, i.tip_time)
        };
        let header = BlockHeader::new_block(h.into(), Tai64(time));
        self.push_stream(&header, "net", "net");
    }

    /// a stale header (at or below the tip) shows up again on the stream
    pub fn push_dup(&self) {
        let (h, time) = {
            let mut i = self.lock();
            let back = i.rng.gen_range(0..3u32);
            (i.tip_h.saturating_sub(back), i.tip_time)
        };
        let header = BlockHeader::new_block(h.into(), Tai64(time));
        self.push_stream(&header, "net", "dup");
    }

    pub fn set_recon(&self, m: ReconMode) {
        self.ev("recon.set", json!({"mode": format!("{m:?}")}));
        self.lock().recon = m;
    }

    pub fn set_unreconciled(&self, fresh: u8, stale: u8) {
        self.ev("recon.unreconciled", json!({"fresh": fresh, "stale": stale}));
        self.lock().unreconciled = Some((fresh, stale));
    }

    pub fn resolve_start(&self, s: &StartSel) -> Option<u64> {
        let (tip_time, _) = {
            let i = self.lock();
            (i.tip_time, i.tip_h)
        };
        match s {
            StartSel::None => None,
            StartSel::TipPlus(d) => Some(tip_time + d),
            StartSel::TipMinus(d) => Some(tip_time.saturating_sub(*d)),
            StartSel::ClockNow => Some(self.clock_now()),
            StartSel::FarFuture => Some(4 * (tip_time + self.clock_now() + (1 << 24))),
        }
    }

    /// try to append a block to the mock DB; the real importer only accepts tip+1
    fn db_append(&self, h: u32, time: u64) -> Result<(), String> {
        let mut i = self.lock();
        if h != i.tip_h + 1 {
            return Err(format!("IncorrectBlockHeight: tip {} got {h}", i.tip_h));
        }
        i.tip_h = h;
        i.tip_time = i.tip_time.max(time);
        Ok(())
    }
}

// ---------------------------------------------------------------------------
// ports
// ---------------------------------------------------------------------------

pub struct TxPoolPort(pub Arc<World>);

impl TransactionPool for TxPoolPort {
    fn new_txs_watcher(&self) -> watch::Receiver<()> {
        self.0.txs.subscribe()
    }
}

pub struct ProducerPort(pub Arc<World>);

#[async_trait::async_trait]
impl BlockProducer for ProducerPort {
    async fn produce_and_execute_block(
        &self,
        height: BlockHeight,
        block_time: Tai64,
        source: TransactionsSource,
        deadline: Instant,
    ) -> anyhow::Result<UncommittedExecutionResult<Changes>> {
        let w = &self.0;
        let h: u32 = height.into();
        let src = match source {
            TransactionsSource::TxPool => "txpool",
            TransactionsSource::SpecificTransactions(_) => "txs",
        };
        let deadline_us = deadline.saturating_duration_since(w.t0).as_micros() as u64;
        w.ev(
            "produce.call",
            json!({"h": h, "time": block_time.0, "src": src, "deadline": deadline_us}),
        );
        w.yields().await;
        match w.fault("produce") {
            Some(Fault::Timeout) => {
                // the service gives up first; this call stays open in the history
                tokio::time::sleep(Duration::from_millis(w.cfg.production_timeout_ms + 1000)).await;
            }
            Some(Fault::Slow(ms)) => tokio::time::sleep(Duration::from_millis(ms)).await,
            Some(_) => {
                w.ev("produce.ret", json!({"ok": false, "why": "fault"}));
                return Err(anyhow::anyhow!("injected producer failure"));
            }
            None => {}
        }
        let block = w.make_block(h, block_time.0);
        w.ev(
            "produce.ret",
            json!({"ok": true, "id": short(block.id().as_slice()), "h": h, "time": block_time.0}),
        );
        Ok(UncommittedExecutionResult::new(
            ExecutionResult {
                block,
                skipped_transactions: vec![],
                tx_status: vec![],
                events: vec![],
            },
            Changes::default(),
        ))
    }

    async fn produce_predefined_block(
        &self,
        block: &Block,
    ) -> anyhow::Result<UncommittedExecutionResult<Changes>> {
        let w = &self.0;
        let h: u32 = (*block.header().height()).into();
        let time = block.header().time().0;
        w.ev(
            "produce_predef.call",
            json!({"h": h, "time": time, "id": short(block.id().as_slice())}),
        );
        // Executing a predefined block takes (virtual) time. Without this a predefined block
        // that cannot be committed (the DB moved on) would be retried by the service in a
        // loop without any suspension point, and nothing else on this single-threaded
        // runtime (sync task, harness) could ever run.
        tokio::time::sleep(Duration::from_millis(1)).await;
        w.yields().await;
        if w.fault("produce_predef").is_some() {
            w.ev("produce_predef.ret", json!({"ok": false, "why": "fault"}));
            return Err(anyhow::anyhow!("injected predefined producer failure"));
        }
        w.ev(
            "produce_predef.ret",
            json!({"ok": true, "id": short(block.id().as_slice()), "h": h, "time": time}),
        );
        Ok(UncommittedExecutionResult::new(
            ExecutionResult {
                block: block.clone(),
                skipped_transactions: vec![],
                tx_status: vec![],
                events: vec![],
            },
            Changes::default(),
        ))
    }
}

pub struct ImporterPort(pub Arc<World>);

#[async_trait::async_trait]
impl BlockImporter for ImporterPort {
    async fn commit_result(&self, result: UncommittedImportResult<Changes>) -> anyhow::Result<()> {
        let w = &self.0;
        let r = result.result();
        let block = &r.sealed_block.entity;
        let h: u32 = (*block.header().height()).into();
        let time = block.header().time().0;
        let id = block.id();
        let (sealed, sig, sig_valid) = match &r.sealed_block.consensus {
            Consensus::PoA(p) => (
                "poa",
                short(&p.signature[..]),
                p.signature.verify(&w.public, id.as_message()).is_ok(),
            ),
            Consensus::Genesis(_) => ("genesis", String::new(), false),
            _ => ("other", String::new(), false),
        };
        let src = match r.source {
            Source::Local => "local",
            Source::Network => "network",
        };
        w.ev(
            "commit.call",
            json!({"h": h, "time": time, "id": short(id.as_slice()), "sealed": sealed, "sig": sig,
                   "sig_valid": sig_valid, "src": src}),
        );
        w.yields().await;
        let fault = w.fault("commit");
        if let Some(f) = fault
            && f != Fault::LostAck
        {
            w.ev("commit.ret", json!({"ok": false, "why": "fault", "h": h}));
            return Err(anyhow::anyhow!("injected importer failure"));
        }
        match w.db_append(h, time) {
            Ok(()) => {
                let cause = if fault == Some(Fault::LostAck) { "lost_ack" } else { "commit" };
                w.push_stream(block.header(), "local", cause);
                if fault == Some(Fault::LostAck) {
                    w.ev("commit.ret", json!({"ok": false, "why": "lost_ack", "h": h, "lost_ack": true}));
                    return Err(anyhow::anyhow!("injected: committed but acknowledgement lost"));
                }
                w.ev("commit.ret", json!({"ok": true, "h": h, "time": time}));
                Ok(())
            }
            Err(e) => {
                w.ev("commit.ret", json!({"ok": false, "why": "height", "h": h}));
                Err(anyhow::anyhow!(e))
            }
        }
    }

    async fn execute_and_commit(&self, block: SealedBlock) -> anyhow::Result<()> {
        let w = &self.0;
        let h: u32 = (*block.entity.header().height()).into();
        let time = block.entity.header().time().0;
        w.ev(
            "exec_commit.call",
            json!({"h": h, "time": time, "id": short(block.entity.id().as_slice())}),
        );
        w.yields().await;
        let fault = w.fault("exec_commit");
        if let Some(f) = fault
            && f != Fault::LostAck
        {
            w.ev("exec_commit.ret", json!({"ok": false, "why": "fault", "h": h}));
            return Err(anyhow::anyhow!("injected importer failure"));
        }
        match w.db_append(h, time) {
            Ok(()) => {
                // the real importer marks these as Source::Network
                w.push_stream(block.entity.header(), "net", "recon");
                if fault == Some(Fault::LostAck) {
                    w.ev("exec_commit.ret", json!({"ok": false, "why": "lost_ack", "h": h, "lost_ack": true}));
                    return Err(anyhow::anyhow!("injected: imported but acknowledgement lost"));
                }
                w.ev("exec_commit.ret", json!({"ok": true, "h": h, "time": time}));
                Ok(())
            }
            Err(e) => {
                w.ev("exec_commit.ret", json!({"ok": false, "why": "height", "h": h}));
                Err(anyhow::anyhow!(e))
            }
        }
    }

    fn block_stream(&self) -> BoxStream<BlockImportInfo> {
        match self.0.lock().stream_rx.take() {
            Some(rx) => Box::pin(UnboundedReceiverStream::new(rx)),
            None => Box::pin(tokio_stream::pending()),
        }
    }

    fn latest_block_height(&self) -> anyhow::Result<Option<BlockHeight>> {
        let w = &self.0;
        let tip = w.lock().tip_h;
        match w.fault("db_height") {
            Some(Fault::None_) => {
                w.ev("db_height.ret", json!({"res": "none"}));
                Ok(None)
            }
            Some(Fault::Stale) => {
                let back = 1 + w.rand(3);
                let h = tip.saturating_sub(back);
                w.ev("db_height.ret", json!({"res": "some", "h": h, "stale": true}));
                Ok(Some(h.into()))
            }
            Some(_) => {
                w.ev("db_height.ret", json!({"res": "err"}));
                Err(anyhow::anyhow!("injected db failure"))
            }
            None => {
                w.ev("db_height.ret", json!({"res": "some", "h": tip, "stale": false}));
                Ok(Some(tip.into()))
            }
        }
    }
}

pub struct SignerPort(pub Arc<World>);

#[async_trait::async_trait]
impl BlockSigner for SignerPort {
    async fn seal_block(&self, block: &Block) -> anyhow::Result<Consensus> {
        let w = &self.0;
        let id = block.id();
        w.ev("seal.call", json!({"id": short(id.as_slice())}));
        w.yields().await;
        if w.fault("seal").is_some() {
            w.ev("seal.ret", json!({"ok": false}));
            return Err(anyhow::anyhow!("injected signer failure"));
        }
        let signature = Signature::sign(&w.secret, id.as_message());
        w.ev(
            "seal.ret",
            json!({"ok": true, "id": short(id.as_slice()), "sig": short(&signature[..])}),
        );
        Ok(Consensus::PoA(PoAConsensus::new(signature)))
    }

    fn is_available(&self) -> bool {
        let v = self.0.fault("avail").is_none();
        self.0.ev("avail", json!({"v": v}));
        v
    }
}

pub struct P2p(pub Arc<World>);

impl P2pPort for P2p {
    fn reserved_peers_count(&self) -> BoxStream<usize> {
        match self.0.lock().peers_rx.take() {
            Some(rx) => Box::pin(UnboundedReceiverStream::new(rx)),
            None => Box::pin(tokio_stream::pending()),
        }
    }
}

pub struct PredefPort(pub Arc<World>);

impl PredefinedBlocks for PredefPort {
    fn get_block(&self, height: &BlockHeight) -> anyhow::Result<Option<Block>> {
        let w = &self.0;
        let h: u32 = (*height).into();
        if !w.cfg.predef.contains(&h) {
            w.ev("predef.get", json!({"h": h, "res": "none"}));
            return Ok(None);
        }
        // one-shot faults only: a persistent error would make the service spin
        let armed = {
            let mut i = w.lock();
            i.armed.get_mut("predef").and_then(|q| q.pop_front())
        };
        if armed.is_some() {
            w.ev("predef.get", json!({"h": h, "res": "err"}));
            return Err(anyhow::anyhow!("injected predefined-blocks failure"));
        }
        // a valid continuation of the chain as the DB has it now
        let time = {
            let mut i = w.lock();
            let d = *pick(&mut i.rng, &[0u64, 1, 5]);
            i.tip_time + d
        };
        let block = w.make_block(h, time);
        w.ev(
            "predef.get",
            json!({"h": h, "res": "some", "id": short(block.id().as_slice()), "time": time}),
        );
        Ok(Some(block))
    }
}

pub struct ClockPort(pub Arc<World>);

impl GetTime for ClockPort {
    fn now(&self) -> Tai64 {
        let w = &self.0;
        let now = w.clock_now();
        let new_max = {
            let mut i = w.lock();
            if now > i.clock_max_logged {
                i.clock_max_logged = now;
                true
            } else {
                false
            }
        };
        if new_max {
            w.ev("now.max", json!({"v": now}));
        }
        Tai64(now)
    }
}

pub struct ReadyPort(pub watch::Receiver<bool>);

impl WaitForReadySignal for ReadyPort {
    async fn wait_for_ready_signal(&self) {
        let mut rx = self.0.clone();
        loop {
            if *rx.borrow_and_update() {
                return;
            }
            if rx.changed().await.is_err() {
                std::future::pending::<()>().await;
            }
        }
    }
}

pub struct ReconPort(pub Arc<World>);

#[async_trait::async_trait]
impl BlockReconciliationReadPort for ReconPort {
    async fn leader_state(&self, next_height: BlockHeight) -> anyhow::Result<LeaderState> {
        let w = &self.0;
        let next: u32 = next_height.into();
        w.ev("leader_state.call", json!({"next": next}));
        w.yields().await;
        let (mode, unrec) = {
            let mut i = w.lock();
            (i.recon, i.unreconciled.take())
        };
        // Follower/Err answers model a round trip to the lease store; without it the
        // service would re-ask in a tight loop and virtual time could not advance.
        let latency = match w.cfg.trigger {
            TriggerSel::Interval(ms) | TriggerSel::Open(ms) => (ms / 2).max(5),
            _ => 5,
        };
        if let Some((fresh, stale)) = unrec {
            let (tip_h, tip_time) = {
                let i = w.lock();
                (i.tip_h, i.tip_time)
            };
            let mut blocks = Vec::new();
            let mut hs = Vec::new();
            let first = tip_h.saturating_sub(stale as u32) + 1;
            let mut time = tip_time;
            for h in first..=tip_h + fresh as u32 {
                if h > tip_h {
                    time += w.rand(3) as u64;
                }
                let block = w.make_block(h, if h > tip_h { time } else { tip_time });
                hs.push(h);
                blocks.push(SealedBlock {
                    entity: block,
                    consensus: Consensus::PoA(PoAConsensus::new(Signature::default())),
                });
            }
            w.ev("leader_state.ret", json!({"st": "unreconciled", "hs": hs, "tip": tip_h}));
            return Ok(LeaderState::UnreconciledBlocks(blocks));
        }
        let fault = w.fault("leader_state");
        if fault.is_some() || mode == ReconMode::Err {
            tokio::time::sleep(Duration::from_millis(latency)).await;
            w.ev("leader_state.ret", json!({"st": "err"}));
            return Err(anyhow::anyhow!("injected leader_state failure"));
        }
        match mode {
            ReconMode::Follower => {
                tokio::time::sleep(Duration::from_millis(latency)).await;
                w.ev("leader_state.ret", json!({"st": "follower"}));
                Ok(LeaderState::ReconciledFollower)
            }
            _ => {
                w.ev("leader_state.ret", json!({"st": "leader"}));
                Ok(LeaderState::ReconciledLeader)
            }
        }
    }

    async fn release(&self) -> anyhow::Result<()> {
        let w = &self.0;
        w.ev("release.call", json!({}));
        if w.fault("release").is_some() {
            w.ev("release.ret", json!({"ok": false}));
            return Err(anyhow::anyhow!("injected release failure"));
        }
        w.ev("release.ret", json!({"ok": true}));
        Ok(())
    }
}
