//! Offline oracle for C24 over the recorded port-call history.
//!
//! Written from the property text:
//!  R1 every block the task asks to produce/commit is at (latest known height)+1, where
//!     "known" = start header, own successful commits, successful reconciliation imports,
//!     `latest_block_height()` replies (must-know) or a header delivered on the block stream
//!     (may-know: envelope while racing, exact when nothing is in flight);
//!  R1b a trigger-driven production is at (mock chain tip)+1, the tip taken when the task asked
//!     for its leader state, whether or not the task queried `latest_block_height()` (only a
//!     faulted reply excuses it); later arrivals are racing;
//!  R2 timestamps never decrease along what the task itself committed/imported;
//!  R3 each committed block was sealed by the signer port for exactly that block, after
//!     production and before the commit;
//!  R4 a failed production/seal/commit does not advance height (R1 after a failure) or time;
//!  R5 under `Trigger::Interval` successive trigger-produced blocks are >= block_time apart
//!     in virtual time.

use crate::world::{
    Cfg,
    TriggerSel,
};
use serde_json::{
    Value,
    json,
};
use std::collections::{
    BTreeMap,
    BTreeSet,
};
use vcommon::hash64;

pub struct Verdict {
    pub violations: Vec<(String, String)>,
    pub stats: BTreeMap<String, u64>,
    pub nontrivial: bool,
    pub shape: u64,
    pub summary: Vec<String>,
}

fn s<'a>(e: &'a Value, k: &str) -> &'a str {
    e.get(k).and_then(|v| v.as_str()).unwrap_or("")
}

fn u(e: &Value, k: &str) -> u64 {
    e.get(k).and_then(|v| v.as_u64()).unwrap_or(0)
}

fn b(e: &Value, k: &str) -> bool {
    e.get(k).and_then(|v| v.as_bool()).unwrap_or(false)
}

#[derive(Clone, Copy, PartialEq, Eq, Debug)]
enum Kind {
    Trigger,
    Manual,
    Predefined,
}

impl Kind {
    fn name(&self) -> &'static str {
        match self {
            Kind::Trigger => "trigger",
            Kind::Manual => "manual",
            Kind::Predefined => "predefined",
        }
    }
}

struct Attempt {
    t: u64,
    vt: u64,
    h: u64,
    time: u64,
    kind: Kind,
    block: Option<String>,
    seal: Option<String>,
    foreign_at_start: bool,
    pending_foreign: bool,
}

struct St<'a> {
    cfg: &'a Cfg,
    v: Vec<(String, String)>,
    stats: BTreeMap<String, u64>,
    must_h: u64,
    must_ts: u64,
    stream_heights: BTreeSet<u64>,
    /// lowest time of a header delivered on the block stream, per height
    stream_times: BTreeMap<u64, u64>,
    max_known_ts: u64,
    clock_max: u64,
    cur: Option<Attempt>,
    /// (stage, height) of the most recent attempt if it failed
    prev_failed: Option<(&'static str, u64)>,
    /// start times of attempts / manual requests that failed
    failed_times: Vec<(u64, &'static str)>,
    outstanding_manual: BTreeMap<u64, Option<u64>>,
    anchor_vt: Option<u64>,
    foreign_since_anchor: bool,
    batch_failed: bool,
    last_vt: u64,
    /// tip of the mock chain (every append is broadcast on the block stream)
    chain_tip: u64,
    /// reply of `latest_block_height()` in the current trigger round: "ok" | "fault"
    round_db: Option<&'static str>,
    /// (chain tip, db reply of the round) when the task last asked `leader_state`
    ls_round: Option<(u64, Option<&'static str>)>,
    /// next height the task believed in at the start of the current `run()` iteration
    run_start_next: Option<u64>,
}

impl<'a> St<'a> {
    fn stat(&mut self, k: &str) {
        *self.stats.entry(k.to_string()).or_insert(0) += 1;
    }

    fn allowed_prev(&self) -> BTreeSet<u64> {
        let mut a: BTreeSet<u64> = self
            .stream_heights
            .range(self.must_h + 1..)
            .copied()
            .collect();
        a.insert(self.must_h);
        a
    }

    /// R1 (+ R4 height part)
    fn check_height(&mut self, at: &str, h: u64, t: u64) {
        let allowed = self.allowed_prev();
        if allowed.len() == 1 {
            self.stat("height_check.exact");
        } else {
            self.stat("height_check.envelope");
        }
        if h >= 1 && allowed.contains(&(h - 1)) {
            return;
        }
        let sig = match self.prev_failed {
            Some((stage, hp)) if h == hp + 1 => format!("height_advanced_after_failed_{stage} at={at}"),
            _ if h <= self.must_h => format!("height_not_next below_known at={at}"),
            _ => format!("height_not_next above_known at={at}"),
        };
        self.v.push((
            sig,
            format!(
                "t={t}: asked for height {h}; latest height the task must know is {} (heights it may \
                 additionally know from the block stream: {:?}); previous failed attempt: {:?}",
                self.must_h,
                allowed.iter().filter(|x| **x != self.must_h).collect::<Vec<_>>(),
                self.prev_failed
            ),
        ));
    }

    /// R2
    fn check_time(&mut self, at: &str, kind: Kind, h: u64, time: u64, t: u64) {
        self.stat("timestamp_check.judged");
        // The task asks for h although h-1 is above everything it was told directly: it can
        // only know h-1 from the header delivered on the block stream, time included.
        if h >= 1
            && h - 1 > self.must_h
            && let Some(ht) = self.stream_times.get(&(h - 1)).copied()
        {
            self.stat("timestamp_check.vs_synced_header");
            if time < ht {
                self.v.push((
                    format!("timestamp_decreased_vs_synced_header at={at} kind={}", kind.name()),
                    format!(
                        "t={t}: block at height {h} has time {time}, below {ht}, the time of the header at \
                         height {} the task learnt from the block stream",
                        h - 1
                    ),
                ));
            }
        }
        if time < self.must_ts {
            self.v.push((
                format!("timestamp_decreased at={at} kind={}", kind.name()),
                format!(
                    "t={t}: block time {time} is below {} (latest block the task itself committed/imported)",
                    self.must_ts
                ),
            ));
        }
    }

    /// R4 time part: a time first seen in a failed attempt must not leak into later blocks
    fn check_time_leak(&mut self, time: u64, t: u64) {
        if self.outstanding_manual.values().any(|s| *s == Some(time)) {
            return; // explicitly requested start time
        }
        let unit_s = match self.cfg.trigger {
            TriggerSel::Interval(ms) | TriggerSel::Open(ms) => ms / 1000 + 1,
            _ => 1,
        };
        let bound = self
            .max_known_ts
            .saturating_add(self.clock_max)
            .saturating_add(self.last_vt / 1_000_000)
            .saturating_add(unit_s + 1);
        if time <= bound {
            return;
        }
        if let Some((x, stage)) = self.failed_times.iter().find(|(x, _)| *x > bound && *x <= time) {
            self.v.push((
                format!("time_advanced_after_failed_{stage}"),
                format!(
                    "t={t}: block time {time} exceeds every time derivable from known blocks and the clock \
                     (bound {bound}) and continues from {x}, the time of an attempt that failed"
                ),
            ));
        }
    }

    fn finalize_failed(&mut self, stage: &'static str) {
        if let Some(a) = self.cur.take() {
            self.stat(&format!("attempt.failed.{stage}"));
            self.prev_failed = Some((stage, a.h));
            self.failed_times.push((a.time, stage));
        }
    }
}

pub fn judge(events: &[Value], cfg: &Cfg) -> Verdict {
    let mut evs: Vec<&Value> = events.iter().collect();
    evs.sort_by_key(|e| u(e, "t"));
    let mut st = St {
        cfg,
        v: vec![],
        stats: BTreeMap::new(),
        must_h: cfg.init_h as u64,
        must_ts: cfg.init_time,
        stream_heights: BTreeSet::new(),
        stream_times: BTreeMap::new(),
        max_known_ts: cfg.init_time,
        clock_max: 0,
        cur: None,
        prev_failed: None,
        failed_times: vec![],
        outstanding_manual: BTreeMap::new(),
        anchor_vt: None,
        foreign_since_anchor: false,
        batch_failed: false,
        last_vt: 0,
        chain_tip: cfg.init_h as u64,
        round_db: None,
        ls_round: None,
        run_start_next: None,
    };
    let mut prev_main: String = String::new();
    let mut summary = Vec::new();
    let mut shape: Vec<(String, String, i64)> = Vec::new();
    let mut manual_start: BTreeMap<u64, Option<u64>> = BTreeMap::new();

    for e in &evs {
        let t = u(e, "t");
        let vt = u(e, "vt");
        st.last_vt = st.last_vt.max(vt);
        let kind = s(e, "kind");
        // compact rendering for witnesses/samples
        if !matches!(kind, "now.max" | "avail") || !b(e, "v") {
            let mut m = e.as_object().cloned().unwrap_or_default();
            m.remove("t");
            m.remove("kind");
            m.remove("vt");
            summary.push(format!("{t} vt={vt}us {kind} {}", Value::Object(m)));
        }
        let is_main = matches!(
            kind,
            "db_height.ret"
                | "leader_state.call"
                | "leader_state.ret"
                | "release.call"
                | "release.ret"
                | "produce.call"
                | "produce.ret"
                | "produce_predef.call"
                | "produce_predef.ret"
                | "predef.get"
                | "seal.call"
                | "seal.ret"
                | "commit.call"
                | "commit.ret"
                | "exec_commit.call"
                | "exec_commit.ret"
        );
        if is_main {
            let res = if e.get("ok").is_some() {
                b(e, "ok").to_string()
            } else {
                format!("{}{}", s(e, "st"), s(e, "res"))
            };
            let rel = e
                .get("h")
                .and_then(|x| x.as_i64())
                .map(|h| h - cfg.init_h as i64)
                .unwrap_or(-1);
            shape.push((kind.to_string(), res, rel));
        }
        match kind {
            "now.max" => st.clock_max = st.clock_max.max(u(e, "v")),
            "stream.push" => {
                let h = u(e, "h");
                st.stream_heights.insert(h);
                st.chain_tip = st.chain_tip.max(h);
                let ht = u(e, "time");
                st.stream_times
                    .entry(h)
                    .and_modify(|x| *x = (*x).min(ht))
                    .or_insert(ht);
                st.max_known_ts = st.max_known_ts.max(ht);
                let cause = s(e, "cause");
                if cause != "commit" {
                    st.foreign_since_anchor = true;
                    if let Some(a) = st.cur.as_mut() {
                        a.pending_foreign = true;
                    }
                }
                match cause {
                    "net" => st.stat("net_blocks"),
                    "dup" => st.stat("stream.duplicates"),
                    _ => {}
                }
            }
            "db_height.ret" => {
                st.round_db = Some(if s(e, "res") == "some" && !b(e, "stale") {
                    "ok"
                } else {
                    "fault"
                });
                match s(e, "res") {
                    "some" => {
                        st.must_h = st.must_h.max(u(e, "h"));
                        if b(e, "stale") {
                            st.stat("db_height.stale");
                        } else {
                            st.stat("db_height.some");
                        }
                    }
                    "none" => st.stat("db_height.none"),
                    _ => st.stat("db_height.err"),
                };
            }
            "leader_state.call" => {
                st.ls_round = Some((st.chain_tip, st.round_db.take()));
            }
            "leader_state.ret" => {
                st.batch_failed = false;
                st.stat(&format!("leader_state.{}", s(e, "st")));
            }
            "release.ret" => st.stat(if b(e, "ok") { "release.ok" } else { "release.err" }),
            "avail" => {
                if !b(e, "v") {
                    st.stat("attempt.rejected_before_producer");
                    st.stat("signer.unavailable");
                }
            }
            "predef.get" => {
                // asked once per `run()` iteration with the height the task believes is next
                st.run_start_next = Some(u(e, "h"));
                st.round_db = None;
                st.stat(&format!("predef.get.{}", s(e, "res")));
            }
            "manual.call" => {
                let start = e.get("start").and_then(|x| x.as_u64());
                st.outstanding_manual.insert(u(e, "id"), start);
                manual_start.insert(u(e, "id"), start);
                st.stat(if start.is_some() {
                    "manual.requests.explicit_start"
                } else {
                    "manual.requests.no_start"
                });
            }
            "manual.ret" => {
                let id = u(e, "id");
                st.outstanding_manual.remove(&id);
                let start = manual_start.get(&id).copied().flatten();
                if b(e, "ok") {
                    st.stat("manual.ok");
                } else {
                    st.stat("manual.err");
                    let err = s(e, "err");
                    if err.contains("monotonically") {
                        st.stat("attempt.rejected_before_producer");
                        st.stat("manual.rejected_timestamp");
                    }
                    if err.contains("not allowed with trigger") {
                        st.stat("manual.rejected_open_trigger");
                    }
                    if let Some(x) = start {
                        st.stat("manual.explicit_start_rejected_or_failed");
                        st.failed_times.push((x, "manual_request"));
                    }
                }
            }
            "produce.call" | "produce_predef.call" => {
                if st.cur.is_some() {
                    // the previous attempt never completed: the task gave up on it
                    let stage = if st.cur.as_ref().is_some_and(|a| a.block.is_none()) {
                        "production_timeout"
                    } else {
                        "abandoned"
                    };
                    st.finalize_failed(stage);
                }
                let k = if kind == "produce_predef.call" {
                    Kind::Predefined
                } else if prev_main == "leader_state.ret:leader" {
                    Kind::Trigger
                } else {
                    Kind::Manual
                };
                st.stat(&format!("kind.{}", k.name()));
                let (h, time) = (u(e, "h"), u(e, "time"));
                if let Some((_, hp)) = st.prev_failed
                    && hp == h
                {
                    st.stat("after_failure.next_attempt_same_height");
                }
                st.check_height("produce", h, t);
                if k == Kind::Trigger
                    && let Some((tip_then, db)) = st.ls_round
                {
                    // R1b: a trigger-driven production must be at (chain tip)+1, the tip taken
                    // when the task asked for its leader state; blocks arriving after that are
                    // racing. The task has the importer port; whether it asked does not matter,
                    // only an importer reply that withheld the tip excuses it.
                    if db == Some("fault") {
                        st.stat("tip_check.excluded_tip_query_faulted");
                    } else {
                        st.stat("tip_check.judged");
                        if st.run_start_next.is_some_and(|n| tip_then + 1 > n) {
                            st.stat("tip_check.tip_ahead_of_run_start_height");
                        }
                        if h < tip_then + 1 {
                            st.v.push((
                                "height_not_next behind_chain_tip at=produce".into(),
                                format!(
                                    "t={t}: trigger production asked for height {h} but the chain tip was already \
                                     {tip_then} when the task asked for its leader state (next height believed at \
                                     the start of this run iteration: {:?}; latest_block_height in this round: {})",
                                    st.run_start_next,
                                    db.unwrap_or("not queried")
                                ),
                            ));
                        }
                    }
                }
                st.check_time("produce", k, h, time, t);
                if k != Kind::Predefined {
                    st.check_time_leak(time, t);
                }
                st.cur = Some(Attempt {
                    t,
                    vt,
                    h,
                    time,
                    kind: k,
                    block: None,
                    seal: None,
                    foreign_at_start: st.foreign_since_anchor,
                    pending_foreign: false,
                });
            }
            "produce.ret" | "produce_predef.ret" => {
                if b(e, "ok") {
                    if let Some(a) = st.cur.as_mut() {
                        a.block = Some(s(e, "id").to_string());
                    }
                } else {
                    st.finalize_failed("production");
                }
            }
            "seal.ret" => {
                if b(e, "ok") {
                    let id = s(e, "id").to_string();
                    if let Some(a) = st.cur.as_mut()
                        && a.block.as_deref() == Some(id.as_str())
                    {
                        a.seal = Some(s(e, "sig").to_string());
                    }
                } else {
                    st.finalize_failed("seal");
                }
            }
            "commit.call" => {
                let (h, time) = (u(e, "h"), u(e, "time"));
                let id = s(e, "id");
                st.stat("seal_check.judged");
                let kind_now = st.cur.as_ref().map(|a| a.kind).unwrap_or(Kind::Manual);
                match st.cur.as_ref() {
                    None => st.v.push((
                        "commit_without_production".into(),
                        format!("t={t}: commit_result for block {id} at height {h} without a preceding production"),
                    )),
                    Some(a) => {
                        if a.block.as_deref() != Some(id) {
                            st.v.push((
                                "commit_block_not_from_producer".into(),
                                format!(
                                    "t={t}: committed block {id} but the producer returned {:?} (attempt t={})",
                                    a.block, a.t
                                ),
                            ));
                        } else if s(e, "sealed") != "poa" || a.seal.is_none() {
                            st.v.push((
                                "commit_unsealed".into(),
                                format!(
                                    "t={t}: block {id} (height {h}) was committed but the signer port did not \
                                     seal it between production and commit (consensus kind {})",
                                    s(e, "sealed")
                                ),
                            ));
                        } else if a.seal.as_deref() != Some(s(e, "sig")) || !b(e, "sig_valid") {
                            st.v.push((
                                "commit_seal_mismatch".into(),
                                format!(
                                    "t={t}: block {id} committed with signature {} (valid for this block: {}); \
                                     the signer returned {:?} for it",
                                    s(e, "sig"),
                                    b(e, "sig_valid"),
                                    a.seal
                                ),
                            ));
                        }
                        if a.h != h || a.time != time {
                            st.v.push((
                                "commit_differs_from_production_request".into(),
                                format!(
                                    "t={t}: producer was asked for ({}, {}) but ({h}, {time}) is committed",
                                    a.h, a.time
                                ),
                            ));
                        }
                    }
                }
                st.check_height("commit", h, t);
                st.check_time("commit", kind_now, h, time, t);
                if s(e, "src") != "local" {
                    st.stat("commit.source_not_local");
                }
            }
            "commit.ret" => {
                let (h, time) = (u(e, "h"), u(e, "time"));
                if b(e, "ok") {
                    st.stat("commit.ok");
                    if let Some(a) = st.cur.take() {
                        st.stat(&format!("commit.ok.{}", a.kind.name()));
                        if let TriggerSel::Interval(bt_ms) = cfg.trigger
                            && a.kind == Kind::Trigger
                        {
                            match (st.anchor_vt, a.foreign_at_start) {
                                (Some(anchor), false) => {
                                    st.stat("interval.pairs_judged");
                                    if a.vt < anchor + bt_ms * 1000 {
                                        st.v.push((
                                            "interval_too_short".into(),
                                            format!(
                                                "t={t}: trigger-produced block at height {h} started at virtual \
                                                 {} us, only {} us after the previous committed block's production \
                                                 started ({} us); block_time is {} ms",
                                                a.vt,
                                                a.vt - anchor,
                                                anchor,
                                                bt_ms
                                            ),
                                        ));
                                    }
                                }
                                (None, _) => st.stat("interval.first_block_not_judged"),
                                (_, true) => st.stat("interval.pairs_excluded_foreign_block"),
                            }
                        }
                        st.anchor_vt = Some(a.vt);
                        st.foreign_since_anchor = a.pending_foreign;
                    }
                    st.must_h = st.must_h.max(h);
                    st.must_ts = st.must_ts.max(time);
                    st.max_known_ts = st.max_known_ts.max(time);
                    st.prev_failed = None;
                } else {
                    st.stat("commit.failed");
                    st.stat(&format!("commit.failed.{}", s(e, "why")));
                    st.finalize_failed("commit");
                }
            }
            "exec_commit.call" => {
                let h = u(e, "h");
                st.stat("reconcile.import_requested");
                let allowed = st.allowed_prev();
                if h <= st.must_h {
                    st.v.push((
                        "reconcile_import_at_known_height".into(),
                        format!(
                            "t={t}: execute_and_commit for height {h} although the task must know height {}",
                            st.must_h
                        ),
                    ));
                } else if !allowed.contains(&(h - 1)) {
                    if st.batch_failed {
                        st.stat("reconcile.excluded_after_failed_import");
                    } else {
                        st.v.push((
                            "reconcile_import_height_gap".into(),
                            format!(
                                "t={t}: execute_and_commit for height {h}; known height {} (may know {:?})",
                                st.must_h, allowed
                            ),
                        ));
                    }
                } else {
                    st.stat("reconcile.height_judged");
                }
            }
            "exec_commit.ret" => {
                if b(e, "ok") {
                    st.stat("reconcile.import_ok");
                    st.must_h = st.must_h.max(u(e, "h"));
                    st.must_ts = st.must_ts.max(u(e, "time"));
                    st.max_known_ts = st.max_known_ts.max(u(e, "time"));
                } else {
                    st.stat("reconcile.import_failed");
                    st.batch_failed = true;
                }
            }
            "step" => st.stat("steps"),
            _ => {}
        }
        if is_main {
            prev_main = match kind {
                "leader_state.ret" => format!("leader_state.ret:{}", s(e, "st")),
                k => k.to_string(),
            };
        }
    }

    let commits = st.stats.get("commit.ok").copied().unwrap_or(0);
    let failed: u64 = st
        .stats
        .iter()
        .filter(|(k, _)| k.starts_with("attempt.failed."))
        .map(|(_, n)| *n)
        .sum();
    let foreign = st.stats.get("net_blocks").copied().unwrap_or(0)
        + st.stats.get("reconcile.import_ok").copied().unwrap_or(0);
    let nontrivial = commits >= 2 && (failed >= 1 || foreign >= 1);
    if nontrivial {
        st.stat("schedules.nontrivial");
    }
    Verdict {
        violations: st.v,
        stats: st.stats,
        nontrivial,
        shape: hash64(&shape),
        summary,
    }
}

/// Harness-side perturbations of a recorded history (oracle self-test).
pub fn perturb(events: &mut Vec<Value>, which: u64) -> bool {
    let pos = |events: &Vec<Value>, pred: &dyn Fn(&Value) -> bool, nth: usize| {
        events
            .iter()
            .enumerate()
            .filter(|(_, e)| pred(e))
            .map(|(i, _)| i)
            .nth(nth)
    };
    match which {
        // a commit one height too far
        1 => match pos(events, &|e| s(e, "kind") == "commit.call", 1) {
            Some(i) => {
                let h = u(&events[i], "h");
                events[i]["h"] = json!(h + 1);
                true
            }
            None => false,
        },
        // a commit with a timestamp below its predecessor
        2 => match pos(events, &|e| s(e, "kind") == "commit.call", 1) {
            Some(i) => {
                events[i]["time"] = json!(1);
                true
            }
            None => false,
        },
        // the seal for a committed block is missing
        3 => {
            let c = pos(events, &|e| s(e, "kind") == "commit.call", 0);
            match c {
                Some(ci) => {
                    let id = s(&events[ci], "id").to_string();
                    let si = events
                        .iter()
                        .position(|e| s(e, "kind") == "seal.ret" && s(e, "id") == id);
                    match si {
                        Some(si) => {
                            events.remove(si);
                            true
                        }
                        None => false,
                    }
                }
                None => false,
            }
        }
        // virtual time compressed 1000x: interval spacing must fail
        4 => {
            let mut any = false;
            for e in events.iter_mut() {
                if let Some(vt) = e.get("vt").and_then(|x| x.as_u64()) {
                    e["vt"] = json!(vt / 1000);
                    any = true;
                }
            }
            any && events
                .iter()
                .any(|e| s(e, "kind") == "init" && s(e, "trigger").starts_with("Interval"))
        }
        // a successful commit reported as failed (and its broadcast dropped): the next block
        // then "advances after a failure"
        5 => match pos(events, &|e| s(e, "kind") == "commit.ret" && b(e, "ok"), 0) {
            Some(i) => {
                let h = u(&events[i], "h");
                events[i]["ok"] = json!(false);
                events[i]["why"] = json!("selftest");
                if let Some(p) = events
                    .iter()
                    .position(|e| s(e, "kind") == "stream.push" && u(e, "h") == h && s(e, "cause") == "commit")
                {
                    events.remove(p);
                }
                true
            }
            None => false,
        },
        // a foreign block reaches the chain just before the task asks for its leader state,
        // yet the following trigger production stays at the old height
        6 => {
            let mut i = 0;
            while i < events.len() {
                if s(&events[i], "kind") == "leader_state.call" {
                    // does this round end in a trigger production?
                    let prod = events[i + 1..]
                        .iter()
                        .find(|e| matches!(s(e, "kind"), "leader_state.ret" | "produce.call"));
                    let leader = prod.is_some_and(|e| s(e, "st") == "leader");
                    let next_prod = events[i + 1..].iter().find(|e| {
                        matches!(s(e, "kind"), "produce.call" | "release.call" | "leader_state.call")
                    });
                    if leader && next_prod.is_some_and(|e| s(e, "kind") == "produce.call") {
                        let h = u(next_prod.unwrap(), "h");
                        let t = u(&events[i], "t");
                        let vt = u(&events[i], "vt");
                        events.insert(
                            i,
                            json!({"t": t, "vt": vt, "kind": "stream.push", "h": h, "time": 1, "src": "net", "cause": "net"}),
                        );
                        return true;
                    }
                }
                i += 1;
            }
            false
        }
        _ => false,
    }
}
