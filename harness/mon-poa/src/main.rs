//! C24 — PoA produces consecutive, sealed, time-ordered blocks.
//!
//! Drives the real `fuel_core_poa::new_service` (MainTask + SyncTask under the real
//! `ServiceRunner`) with harness-implemented ports on a paused tokio clock. Every port
//! call/return is recorded in an `EventLog`; the oracle (`oracle::judge`) decides the
//! property offline over that history.

mod oracle;
mod world;

use fuel_core_poa::{
    Config,
    Trigger,
    new_service,
    service::Mode,
};
use fuel_core_services::Service as _;
use fuel_core_types::{
    blockchain::header::BlockHeader,
    signer::SignMode,
    tai64::Tai64,
};
use serde_json::{
    Value,
    json,
};
use std::{
    collections::HashSet,
    sync::Arc,
    time::Duration,
};
use vcommon::{
    rand::Rng,
    *,
};
use world::*;

#[derive(Clone, Debug)]
pub enum StartSel {
    None,
    TipPlus(u64),
    TipMinus(u64),
    ClockNow,
    FarFuture,
}

#[derive(Clone, Debug)]
pub enum Step {
    Sleep(u64),
    Yield(u8),
    TxNotify,
    Manual {
        start: StartSel,
        with_txs: bool,
        n: u32,
        wait: bool,
    },
    NetBlocks(u8),
    DupStream,
    Peers(usize),
    Recon(ReconMode),
    Unreconciled {
        fresh: u8,
        stale: u8,
    },
    Arm(&'static str, Fault),
    ClockJump(i64),
    ClockFreeze(bool),
    Ready,
}

#[derive(Clone, Debug)]
pub struct Schedule {
    pub n_steps: usize,
    pub cfg: Cfg,
    pub steps: Vec<Step>,
}

const PORTS: [&str; 10] = [
    "predef",
    "produce",
    "produce_predef",
    "seal",
    "avail",
    "commit",
    "exec_commit",
    "db_height",
    "leader_state",
    "release",
];

fn gen_schedule<R: Rng>(rng: &mut R, n_steps: usize) -> Schedule {
    let trigger = match rng.gen_range(0..100) {
        0..=39 => TriggerSel::Interval(*pick(rng, &[10, 100, 1000, 2000])),
        40..=64 => TriggerSel::Instant,
        65..=77 => TriggerSel::Never,
        _ => TriggerSel::Open(*pick(rng, &[50, 1000])),
    };
    let (min_peers, tus_ms) = match rng.gen_range(0..100) {
        0..=34 => (0usize, 0u64),
        35..=69 => (0, *pick(rng, &[30, 1000])),
        _ => (rng.gen_range(1..=2), *pick(rng, &[30, 1000])),
    };
    let init_h = *pick(rng, &[0u32, 1, 7]);
    let predef: Vec<u32> = match rng.gen_range(0..100) {
        0..=64 => vec![],
        65..=76 => vec![init_h + 1],
        77..=88 => vec![init_h + 2, init_h + 3],
        _ => vec![init_h + 4],
    };
    let cfg = Cfg {
        trigger,
        min_peers,
        tus_ms,
        init_h,
        init_time: 1_000_000,
        clock_skew: *pick(rng, &[0i64, 0, 0, 5, 100, -50]),
        ready_at_start: chance(rng, 85),
        predef,
        production_timeout_ms: 3000,
        fault_pct: *pick(rng, &[0u32, 0, 3, 10, 25]),
        yield_max: *pick(rng, &[0u8, 1, 3]),
    };
    let unit = match trigger {
        TriggerSel::Interval(ms) | TriggerSel::Open(ms) => ms,
        _ => 100,
    };
    let mut far_future_left = 2;
    let mut steps = Vec::new();
    if min_peers > 0 {
        steps.push(Step::Peers(min_peers));
    }
    for _ in 0..n_steps {
        let st = match rng.gen_range(0..100) {
            0..=23 => Step::Sleep(*pick(
                rng,
                &[
                    1,
                    unit / 2,
                    unit,
                    unit + 1,
                    2 * unit + 1,
                    5 * unit,
                    (30 * unit).min(1000),
                    (60 * unit).min(4000),
                ],
            )),
            24..=31 => Step::Yield(rng.gen_range(1..6)),
            32..=43 => Step::TxNotify,
            44..=61 => {
                let start = match rng.gen_range(0..100) {
                    0..=39 => StartSel::None,
                    40..=57 => StartSel::TipPlus(*pick(rng, &[0, 0, 1, 10])),
                    58..=75 => StartSel::TipMinus(*pick(rng, &[1, 1, 30])),
                    76..=87 => StartSel::ClockNow,
                    _ => {
                        if far_future_left > 0 {
                            far_future_left -= 1;
                            StartSel::FarFuture
                        } else {
                            StartSel::None
                        }
                    }
                };
                Step::Manual {
                    start,
                    with_txs: chance(rng, 25),
                    n: rng.gen_range(1..=3),
                    wait: chance(rng, 60),
                }
            }
            62..=69 => Step::NetBlocks(rng.gen_range(1..=2)),
            70..=71 => Step::DupStream,
            72..=75 => Step::Peers(rng.gen_range(0..=3)),
            76..=80 => Step::Recon(match rng.gen_range(0..10) {
                0..=4 => ReconMode::Leader,
                5..=7 => ReconMode::Follower,
                _ => ReconMode::Err,
            }),
            81..=85 => Step::Unreconciled {
                fresh: rng.gen_range(1..=3),
                stale: rng.gen_range(0..=2),
            },
            86..=94 => {
                let port = *pick(rng, &PORTS);
                let fault = match port {
                    "produce" => match rng.gen_range(0..4) {
                        0 => Fault::Timeout,
                        1 => Fault::Slow(*pick(rng, &[unit / 2 + 1, 2 * unit, 1000])),
                        _ => Fault::Err,
                    },
                    "commit" | "exec_commit" => {
                        if chance(rng, 25) {
                            Fault::LostAck
                        } else {
                            Fault::Err
                        }
                    }
                    "db_height" => match rng.gen_range(0..3) {
                        0 => Fault::Err,
                        1 => Fault::None_,
                        _ => Fault::Stale,
                    },
                    _ => Fault::Err,
                };
                Step::Arm(port, fault)
            }
            95..=96 => Step::ClockJump(*pick(rng, &[-100i64, -3, 2, 50])),
            97 => Step::ClockFreeze(chance(rng, 60)),
            _ => Step::Ready,
        };
        steps.push(st);
    }
    steps.push(Step::Ready);
    Schedule { n_steps, cfg, steps }
}

pub struct RunOut {
    pub events: Vec<Value>,
    pub problems: Vec<String>,
}

async fn drive(sch: &Schedule, port_seed: u64) -> RunOut {
    let cfg = sch.cfg.clone();
    let w = World::new(cfg.clone(), port_seed);
    let mut problems = Vec::new();
    let trigger = match cfg.trigger {
        TriggerSel::Instant => Trigger::Instant,
        TriggerSel::Never => Trigger::Never,
        TriggerSel::Interval(ms) => Trigger::Interval {
            block_time: Duration::from_millis(ms),
        },
        TriggerSel::Open(ms) => Trigger::Open {
            period: Duration::from_millis(ms),
        },
    };
    let config = Config {
        trigger,
        signer: SignMode::Unavailable,
        metrics: false,
        min_connected_reserved_peers: cfg.min_peers,
        time_until_synced: Duration::from_millis(cfg.tus_ms),
        production_timeout: Duration::from_millis(cfg.production_timeout_ms),
        chain_id: Default::default(),
    };
    let last_block = BlockHeader::new_block(cfg.init_h.into(), Tai64(cfg.init_time));
    w.ev(
        "init",
        json!({"h": cfg.init_h, "time": cfg.init_time, "trigger": format!("{:?}", cfg.trigger),
               "min_peers": cfg.min_peers, "tus_ms": cfg.tus_ms, "predef": cfg.predef,
               "clock_skew": cfg.clock_skew, "fault_pct": cfg.fault_pct, "yield_max": cfg.yield_max}),
    );
    let service = new_service(
        &last_block,
        config,
        TxPoolPort(w.clone()),
        ProducerPort(w.clone()),
        ImporterPort(w.clone()),
        P2p(w.clone()),
        Arc::new(SignerPort(w.clone())),
        PredefPort(w.clone()),
        ClockPort(w.clone()),
        ReadyPort(w.ready.subscribe()),
        ReconPort(w.clone()),
    );
    match tokio::time::timeout(Duration::from_secs(600), service.start_and_await()).await {
        Ok(Ok(s)) => {
            w.ev("svc.started", json!({"state": format!("{s:?}")}));
        }
        other => {
            problems.push(format!("service did not start: {other:?}"));
            return RunOut {
                events: w.log.snapshot(),
                problems,
            };
        }
    }
    let mut manual_id = 0u64;
    let mut manuals: Vec<tokio::task::JoinHandle<()>> = Vec::new();
    for (i, st) in sch.steps.iter().enumerate() {
        w.ev("step", json!({"i": i, "step": format!("{st:?}")}));
        match st {
            Step::Sleep(ms) => tokio::time::sleep(Duration::from_millis(*ms)).await,
            Step::Yield(n) => {
                for _ in 0..*n {
                    tokio::task::yield_now().await;
                }
            }
            Step::TxNotify => {
                let _ = w.txs.send(());
            }
            Step::Manual {
                start,
                with_txs,
                n,
                wait,
            } => {
                let start_time = w.resolve_start(start);
                manual_id += 1;
                let id = manual_id;
                let shared = service.shared.clone();
                let w2 = w.clone();
                let (with_txs, n) = (*with_txs, *n);
                let mut h = tokio::spawn(async move {
                    w2.ev(
                        "manual.call",
                        json!({"id": id, "start": start_time, "n": if with_txs {1} else {n}, "with_txs": with_txs}),
                    );
                    let mode = if with_txs {
                        Mode::BlockWithTransactions(vec![])
                    } else {
                        Mode::Blocks { number_of_blocks: n }
                    };
                    let r = shared.manually_produce_block(start_time.map(Tai64), mode).await;
                    w2.ev(
                        "manual.ret",
                        json!({"id": id, "ok": r.is_ok(), "err": r.err().map(|e| e.to_string())}),
                    );
                });
                if *wait {
                    if tokio::time::timeout(Duration::from_secs(30), &mut h).await.is_err() {
                        manuals.push(h);
                    }
                } else {
                    manuals.push(h);
                }
            }
            Step::NetBlocks(k) => {
                for _ in 0..*k {
                    w.push_net_block();
                }
            }
            Step::DupStream => w.push_dup(),
            Step::Peers(n) => {
                w.ev("peers", json!({"n": n}));
                let _ = w.peers_tx.send(*n);
            }
            Step::Recon(m) => w.set_recon(*m),
            Step::Unreconciled { fresh, stale } => w.set_unreconciled(*fresh, *stale),
            Step::Arm(port, f) => w.arm(port, *f),
            Step::ClockJump(d) => w.clock_jump(*d),
            Step::ClockFreeze(on) => w.clock_freeze(*on),
            Step::Ready => {
                w.ev("ready", json!({}));
                let _ = w.ready.send(true);
            }
        }
        // seeded yields between the harness's own steps
        let k = w.rand(3);
        for _ in 0..k {
            tokio::task::yield_now().await;
        }
    }
    // settle, then stop
    let unit = match cfg.trigger {
        TriggerSel::Interval(ms) | TriggerSel::Open(ms) => ms,
        _ => 100,
    };
    tokio::time::sleep(Duration::from_millis((100 * unit).min(6000))).await;
    w.ev("svc.stop.call", json!({}));
    match tokio::time::timeout(Duration::from_secs(3600), service.stop_and_await()).await {
        Ok(r) => {
            w.ev("svc.stop.ret", json!({"state": format!("{r:?}")}));
        }
        Err(_) => problems.push("service did not stop within 1 h of virtual time".into()),
    }
    for mut h in manuals {
        if tokio::time::timeout(Duration::from_secs(60), &mut h).await.is_err() {
            h.abort();
            w.ev("manual.abandoned", json!({}));
        }
    }
    drop(service);
    RunOut {
        events: w.log.snapshot(),
        problems,
    }
}

/// `ServiceRunner::new` (PoA + its sync task) registers new counters in fuel-core's
/// process-wide metrics registry and text-encodes the whole registry to do so; the cost grows
/// with every service ever created. Metrics are not part of the property: the harness
/// empties that registry between schedules (nothing of /repo is modified).
fn reset_metrics_registry() {
    *fuel_core_metrics::global_registry().registry.lock() = Default::default();
}

fn run_schedule(sch: &Schedule, port_seed: u64) -> Result<RunOut, String> {
    reset_metrics_registry();
    let rt = tokio::runtime::Builder::new_current_thread()
        .enable_time()
        .start_paused(true)
        .build()
        .map_err(|e| e.to_string())?;
    let out = catch(|| rt.block_on(drive(sch, port_seed)));
    drop(rt);
    out
}

fn schedule_json(sch: &Schedule) -> Value {
    json!({
        "cfg": format!("{:?}", sch.cfg),
        "steps": sch.steps.iter().map(|s| format!("{s:?}")).collect::<Vec<_>>(),
    })
}

#[allow(clippy::too_many_arguments)]
fn account(
    report: &Report,
    args: &Args,
    sch: &Schedule,
    out: &RunOut,
    shard: usize,
    shard_seed: u64,
    iteration: u64,
    selftest: u64,
) {
    report.eval();
    for p in &out.problems {
        report.count("harness.problem");
        report.inconclusive(format!("shard {shard} iteration {iteration}: {p}"));
    }
    let mut events = out.events.clone();
    if selftest != 0 && !oracle::perturb(&mut events, selftest) {
        report.count("selftest.not_applicable");
        return;
    }
    let verdict = oracle::judge(&events, &sch.cfg);
    for (k, n) in &verdict.stats {
        report.add(k, *n);
    }
    report.count(&format!("schedules.trigger.{}", sch.cfg.trigger.name()));
    if verdict.nontrivial {
        report.distinct_hash(verdict.shape);
    }
    if report.wants_sample() && verdict.nontrivial {
        report.sample(json!({
            "schedule": schedule_json(sch),
            "port_history_head": verdict.summary.iter().take(60).collect::<Vec<_>>(),
        }));
    }
    let mut seen = HashSet::new();
    for (sig, detail) in &verdict.violations {
        if !seen.insert(sig.clone()) {
            continue;
        }
        let sig = if selftest != 0 { format!("selftest:{sig}") } else { sig.clone() };
        let history: Vec<String> = if report.violation_count() < 40 {
            verdict.summary.iter().take(600).cloned().collect()
        } else {
            vec![]
        };
        report.violation(
            sig,
            format!("{detail}; cfg={:?}", sch.cfg),
            json!({"seed": args.seed, "shard": shard, "shard_seed": shard_seed, "iteration": iteration,
                   "n_steps": sch.n_steps, "ops": schedule_json(sch), "history": history}),
        );
    }
}

fn c24(args: &Args, report: &Report) {
    let selftest: u64 = args
        .extra
        .get("selftest")
        .and_then(|v| v.parse().ok())
        .unwrap_or(0);
    let n_steps_q = 40usize;
    if let Some(rep) = read_replay(args) {
        let shard_seed = rep.get("shard_seed").and_then(|v| v.as_u64()).unwrap_or(0);
        let iteration = rep.get("iteration").and_then(|v| v.as_u64()).unwrap_or(0);
        let shard = rep.get("shard").and_then(|v| v.as_u64()).unwrap_or(0) as usize;
        let n_steps = rep.get("n_steps").and_then(|v| v.as_u64()).unwrap_or(n_steps_q as u64) as usize;
        let mut rng = rng_for(shard_seed, &[iteration, 1]);
        let sch = gen_schedule(&mut rng, n_steps);
        match run_schedule(&sch, mix(shard_seed, &[iteration, 2])) {
            Ok(out) => account(report, args, &sch, &out, shard, shard_seed, iteration, 0),
            Err(p) => report.inconclusive(format!("replay panicked in harness: {p}")),
        }
        return;
    }
    let shards = 16usize;
    let per_shard: u64 = if selftest != 0 { 40 } else { args.by_tier(400, 3000) };
    {
        let report = report.clone();
        let args2 = args.clone();
        run_shards(&report.clone(), args, shards, move |shard, shard_seed| {
            for it in 0..per_shard {
                let mut rng = rng_for(shard_seed, &[it, 1]);
                // thorough: also long schedules
                let n_steps = if args2.is_thorough() && it % 4 == 0 { 160 } else { n_steps_q };
                let sch = gen_schedule(&mut rng, n_steps);
                match run_schedule(&sch, mix(shard_seed, &[it, 2])) {
                    Ok(out) => account(&report, &args2, &sch, &out, shard, shard_seed, it, selftest),
                    Err(p) => report.inconclusive(format!(
                        "schedule shard {shard} iteration {it} panicked in harness: {p}"
                    )),
                }
            }
        });
    }
    if selftest == 0 {
        let k = args.by_tier(1u64, 8);
        report.require("commit.ok", 8_000 * k);
        report.require("commit.failed", 300 * k);
        report.require("attempt.failed.production", 300 * k);
        report.require("attempt.failed.production_timeout", 30 * k);
        report.require("attempt.failed.seal", 100 * k);
        report.require("attempt.rejected_before_producer", 300 * k);
        report.require("height_check.exact", 8_000 * k);
        report.require("height_check.envelope", 50 * k);
        report.require("timestamp_check.judged", 8_000 * k);
        report.require("seal_check.judged", 8_000 * k);
        report.require("interval.pairs_judged", 1_000 * k);
        report.require("kind.trigger", 2_000 * k);
        report.require("kind.manual", 2_000 * k);
        report.require("kind.predefined", 200 * k);
        report.require("manual.explicit_start_rejected_or_failed", 300 * k);
        report.require("reconcile.import_ok", 300 * k);
        report.require("reconcile.import_failed", 30 * k);
        report.require("net_blocks", 1_000 * k);
        report.require("after_failure.next_attempt_same_height", 300 * k);
        report.require("leader_state.follower", 200 * k);
        report.require("db_height.stale", 20 * k);
        report.require("tip_check.judged", 2_000 * k);
        report.require("tip_check.tip_ahead_of_run_start_height", 150 * k);
    }
}

fn main() {
    let args = Args::parse();
    install_quiet_panic_hook();
    let report = Report::new(&args.property);
    let rule = "schedule = PoA config (trigger Instant/Never/Interval/Open, sync settings, start height, predefined \
        heights, clock skew, per-call fault rate, port yield count) + 40 seeded steps from {virtual sleep, yields, \
        txpool notification, manual production (no/explicit past/equal/future/far-future start time; Blocks{1..3} or \
        BlockWithTransactions; awaited or racing), 1-2 network blocks, duplicate stream entry, peer count, \
        reconciliation Leader/Follower/Err, UnreconciledBlocks(stale+fresh), armed one-shot fault on one of 9 ports \
        (err/slow/timeout/lost-ack/stale height), clock jump/freeze, ready signal}; executed against the real \
        fuel_core_poa service on a paused clock. A schedule counts as distinct/non-trivial when it had >=2 successful \
        commits and >=1 failed attempt or network/reconciliation import; the key is the hash of the ordered \
        port-call outcomes with heights relative to the start height.";
    let assumptions = [
        "ports deliver valid chain continuations: network, reconciliation and predefined blocks extend the mock DB tip with non-decreasing timestamps; the mock importer rejects any height other than tip+1 (as the real importer does)",
        "a trigger-driven production is additionally judged against the mock chain tip at the moment the task asked for its leader state (independent of whether it queried latest_block_height; excused only if that query was answered with an injected error/None/stale height); manual production is not, because the unchanged task never queries the tip on that path",
        "heights are judged against what the service was told: start header, own successful commits, successful reconciliation imports, latest_block_height() replies (must-know) and headers pushed on block_stream (may-know; envelope when racing, exact otherwise)",
        "block-time spacing is judged only for trigger-produced blocks under Trigger::Interval whose predecessor was a successful local commit with no foreign block delivered in between",
        "reconciliation imports issued after a failed import in the same batch are not judged for height contiguity (counted as excluded)",
    ];
    {
        let report = report.clone();
        let args = args.clone();
        let limit = if args.is_thorough() { 1500 } else { 110 };
        std::thread::spawn(move || {
            std::thread::sleep(Duration::from_secs(limit));
            report.inconclusive(format!("outer wall-clock watchdog fired after {limit}s"));
            report.finish(&args, "exploration", "watchdog", false, &[]);
            std::process::exit(0);
        });
    }
    match args.property.as_str() {
        "C24" => c24(&args, &report),
        other => report.inconclusive(format!("property {other} not implemented in this monitor")),
    }
    report.finish(&args, "exploration", rule, false, &assumptions);
}
