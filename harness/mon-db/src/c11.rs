//! C11: all storage backends store and iterate identically to a sorted-map model.
//!
//! Driver: one generated commit history is applied to `MemoryStore`, `RocksDb` and
//! `HistoricalRocksDB` under NoRewind / RewindFullRange / RewindRange{1,2,5}
//! (all over the real `OnChain` description, RocksDB directories under the scratch
//! dir, with close/reopen in between). After every commit the contents of every
//! used column and a systematic family of (prefix, start, direction) queries are
//! compared with the model on every backend.

use crate::model::*;
use fuel_core::{
    database::database_description::on_chain::OnChain,
    state::{
        TransactableStorage,
        historical_rocksdb::{
            HistoricalRocksDB,
            StateRewindPolicy,
        },
        in_memory::memory_store::MemoryStore,
        rocks_db::{
            DatabaseConfig,
            RocksDb,
        },
    },
};
use fuel_core_storage::{
    column::Column,
    iter::{
        IterDirection,
        IterableStore,
    },
    kv_store::StorageColumn,
};
use fuel_core_types::fuel_types::BlockHeight;
use std::{
    collections::BTreeSet,
    num::NonZeroU64,
    path::Path,
};
use tempfile::TempDir;
use vcommon::{
    Args,
    Report,
    catch,
    chance,
    hash64,
    pick,
    rand::{
        Rng,
        rngs::StdRng,
    },
    read_replay,
    rng_for,
    run_shards,
    serde_json::{
        Value as Json,
        json,
    },
};

const ALPHA: [u8; 5] = [0x00, 0x01, 0x7F, 0xFE, 0xFF];

/// plain columns (no RocksDB prefix extractor) and one column with the fixed
/// 32-byte prefix extractor (`OnChain::prefix`)
const PLAIN_COLS: [Column; 3] = [Column::Coins, Column::Messages, Column::Metadata];
const PREFIXED_COL: Column = Column::ContractsState;
const PREFIX_LEN: usize = 32;

fn all_cols() -> Vec<Column> {
    let mut v = PLAIN_COLS.to_vec();
    v.push(PREFIXED_COL);
    v
}

/// all strings over ALPHA with length 0..=max
fn strings(max: usize) -> Vec<Bytes> {
    let mut out = vec![vec![]];
    let mut last = vec![vec![]];
    for _ in 0..max {
        let mut next = Vec::new();
        for s in &last {
            for a in ALPHA {
                let mut t: Bytes = s.clone();
                t.push(a);
                next.push(t);
            }
        }
        out.extend(next.iter().cloned());
        last = next;
    }
    out
}

fn heads() -> Vec<Bytes> {
    let mut ha = vec![0x11u8; 31];
    ha.push(0xFE);
    let mut hb = vec![0x11u8; 31];
    hb.push(0xFF);
    let mut hc = vec![0x11u8; 30];
    hc.extend([0x12, 0x00]);
    let hd = vec![0xFFu8; 32];
    vec![ha, hb, hc, hd]
}

struct KeySpace {
    plain: Vec<Bytes>,
    prefixed: Vec<Bytes>,
    /// prefixes shorter than the extractor length, for the prefixed column
    short_prefixes: Vec<Bytes>,
}

impl KeySpace {
    fn new() -> Self {
        let plain = strings(3);
        let tails = strings(2);
        let mut prefixed = Vec::new();
        for h in heads() {
            for t in &tails {
                let mut k = h.clone();
                k.extend(t);
                prefixed.push(k);
            }
        }
        let short_prefixes = vec![vec![], vec![0x11], vec![0x11; 31], vec![0xFF], vec![0xFF; 31]];
        KeySpace {
            plain,
            prefixed,
            short_prefixes,
        }
    }

    fn keys(&self, col: Column) -> &Vec<Bytes> {
        if col == PREFIXED_COL {
            &self.prefixed
        } else {
            &self.plain
        }
    }
}

enum Store {
    Mem(MemoryStore<OnChain>),
    Rocks(RocksDb<OnChain>),
    Hist(HistoricalRocksDB<OnChain>),
}

struct Backend {
    name: String,
    fam: &'static str,
    policy: Option<StateRewindPolicy>,
    // field order matters: the store is dropped (closed) before its directory
    store: Option<Store>,
    dir: Option<TempDir>,
    alive: bool,
    cached: bool,
}

/// `cached == false`: the repo's test configuration (no block cache);
/// `cached == true`: block + row cache as in production configurations
fn cfg(cached: bool) -> DatabaseConfig {
    let mut c = DatabaseConfig::config_for_tests();
    if cached {
        c.cache_capacity = Some(6 * 1024 * 1024);
    }
    c
}

fn open_store(fam: &str, policy: Option<StateRewindPolicy>, path: Option<&Path>, cached: bool) -> Result<Store, String> {
    match fam {
        "memory" => Ok(Store::Mem(MemoryStore::<OnChain>::default())),
        "rocksdb" => RocksDb::<OnChain>::default_open(path.unwrap(), cfg(cached))
            .map(Store::Rocks)
            .map_err(|e| format!("{e:?}")),
        _ => HistoricalRocksDB::<OnChain>::default_open(path.unwrap(), policy.unwrap(), cfg(cached))
            .map(Store::Hist)
            .map_err(|e| format!("{e:?}")),
    }
}

impl Backend {
    fn new(fam: &'static str, policy: Option<StateRewindPolicy>, scratch: &Path, cached: bool) -> Result<Self, String> {
        let dir = if fam == "memory" {
            None
        } else {
            Some(TempDir::new_in(scratch).map_err(|e| format!("tempdir: {e}"))?)
        };
        let store = open_store(fam, policy, dir.as_ref().map(|d| d.path()), cached)?;
        let name = match policy {
            None => fam.to_string(),
            Some(StateRewindPolicy::NoRewind) => format!("{fam}(NoRewind)"),
            Some(StateRewindPolicy::RewindFullRange) => format!("{fam}(RewindFullRange)"),
            Some(StateRewindPolicy::RewindRange { size }) => format!("{fam}(RewindRange{size})"),
        };
        Ok(Backend {
            name,
            fam,
            policy,
            store: Some(store),
            dir,
            alive: true,
            cached,
        })
    }

    fn reopen(&mut self) -> Result<(), String> {
        if self.fam == "memory" {
            return Ok(());
        }
        self.store = None; // closes RocksDB (no views are held at this point)
        self.store = Some(open_store(
            self.fam,
            self.policy,
            self.dir.as_ref().map(|d| d.path()),
            self.cached,
        )?);
        Ok(())
    }

    fn iterable(&self) -> &dyn IterableStore<Column = Column> {
        match self.store.as_ref().expect("open") {
            Store::Mem(s) => s,
            Store::Rocks(s) => s,
            Store::Hist(s) => s,
        }
    }

    /// Ok(Ok) accepted, Ok(Err) rejected, Err panic
    fn commit(&self, height: Option<u32>, commit: &Commit) -> Result<Result<(), String>, String> {
        let changes = commit.to_storage_changes();
        let height = height.map(BlockHeight::from);
        catch(|| {
            let r = match self.store.as_ref().expect("open") {
                Store::Mem(s) => TransactableStorage::<BlockHeight>::commit_changes(s, height, changes),
                Store::Rocks(s) => s.commit_changes(&changes),
                Store::Hist(s) => TransactableStorage::<BlockHeight>::commit_changes(s, height, changes),
            };
            r.map_err(|e| format!("{e}"))
        })
    }

    fn snapshot(&self) -> Result<Box<dyn IterableStore<Column = Column>>, String> {
        match self.store.as_ref().expect("open") {
            Store::Mem(s) => TransactableStorage::<BlockHeight>::latest_view(s)
                .map(|v| Box::new(v) as Box<dyn IterableStore<Column = Column>>)
                .map_err(|e| format!("{e}")),
            Store::Rocks(s) => Ok(Box::new(s.create_snapshot())),
            Store::Hist(s) => TransactableStorage::<BlockHeight>::latest_view(s)
                .map(|v| Box::new(v) as Box<dyn IterableStore<Column = Column>>)
                .map_err(|e| format!("{e}")),
        }
    }
}

fn iter_kv(
    s: &dyn IterableStore<Column = Column>,
    col: Column,
    prefix: Option<&[u8]>,
    start: Option<&[u8]>,
    dir: IterDirection,
) -> Result<Result<Vec<(Bytes, Bytes)>, String>, String> {
    catch(|| {
        let mut out = Vec::new();
        for item in s.iter_store(col, prefix, start, dir) {
            match item {
                Ok((k, v)) => out.push((k, v.to_vec())),
                Err(e) => return Err(format!("{e}")),
            }
            if out.len() > 100_000 {
                return Err("iterator did not terminate within 100000 items".into());
            }
        }
        Ok(out)
    })
}

fn iter_keys(
    s: &dyn IterableStore<Column = Column>,
    col: Column,
    prefix: Option<&[u8]>,
    start: Option<&[u8]>,
    dir: IterDirection,
) -> Result<Result<Vec<Bytes>, String>, String> {
    catch(|| {
        let mut out = Vec::new();
        for item in s.iter_store_keys(col, prefix, start, dir) {
            match item {
                Ok(k) => out.push(k),
                Err(e) => return Err(format!("{e}")),
            }
            if out.len() > 100_000 {
                return Err("iterator did not terminate within 100000 items".into());
            }
        }
        Ok(out)
    })
}

/// smallest byte string greater than every string with this prefix
fn successor(prefix: &[u8]) -> Option<Bytes> {
    let mut p = prefix.to_vec();
    while let Some(last) = p.pop() {
        if last != 0xFF {
            p.push(last + 1);
            return Some(p);
        }
    }
    None
}

#[derive(Clone)]
struct Params {
    commits: usize,
    pair_queries: usize,
    /// fraction (percent) of the prefix/start families queried per commit
    family_percent: u32,
    /// all five rewind policies in every history (otherwise NoRewind, Full and
    /// one rotating RewindRange size)
    all_policies: bool,
    /// close/reopen rounds per history (each RocksDB reopen costs a WAL replay
    /// with an fsync per column family): thorough = 2 rounds over all backends,
    /// quick = 1 round over the plain RocksDb and one history-keeping backend
    reopen_rounds: usize,
}

fn params(thorough: bool) -> Params {
    if thorough {
        Params {
            commits: 60,
            pair_queries: 200,
            family_percent: 100,
            all_policies: true,
            reopen_rounds: 2,
        }
    } else {
        Params {
            commits: 40,
            pair_queries: 120,
            family_percent: 100,
            all_policies: false,
            reopen_rounds: 1,
        }
    }
}

struct Ctx<'a> {
    report: &'a Report,
    local: Local,
    selftest: u32,
    shard: usize,
    shard_seed: u64,
    iteration: u64,
    tier: &'static str,
    history: Vec<Json>,
    ks: &'a KeySpace,
}

impl Ctx<'_> {
    fn replay(&self) -> Json {
        json!({
            "shard": self.shard,
            "seed": self.shard_seed,
            "iteration": self.iteration,
            "tier": self.tier,
            "ops": self.history,
        })
    }

    fn violation(&mut self, signature: String, detail: String) {
        self.local.count("violations.raised");
        self.report
            .violation(sig(self.selftest, signature), detail, self.replay());
    }
}

fn gen_key(rng: &mut StdRng, ks: &KeySpace, col: Column, hot: &[Bytes]) -> Bytes {
    if col != PREFIXED_COL && !hot.is_empty() && chance(rng, 45) {
        return pick(rng, hot).clone();
    }
    pick(rng, ks.keys(col)).clone()
}

fn gen_val(rng: &mut StdRng) -> Bytes {
    let n = *pick(rng, &[0usize, 1, 1, 2, 3, 8]);
    (0..n).map(|_| *pick(rng, &[0u8, 1, 0xAB, 0xFF])).collect()
}

/// keys around one prefix: the prefix itself, extensions, its successor, the
/// buggy-carry neighbour, and the predecessor region
fn hot_keys(rng: &mut StdRng) -> Vec<Bytes> {
    let all = strings(2);
    let p = pick(rng, &all[1..]).clone();
    let mut hot = vec![p.clone()];
    for a in ALPHA {
        let mut e = p.clone();
        e.push(a);
        hot.push(e);
    }
    if let Some(s) = successor(&p) {
        hot.push(s.clone());
        let mut e = s;
        e.push(0x00);
        hot.push(e);
    }
    hot.retain(|k| k.len() <= 3);
    hot
}

fn gen_commit(rng: &mut StdRng, ks: &KeySpace, hot: &[Bytes], allow_dup: bool) -> Commit {
    let cols = all_cols();
    let gen_batch = |rng: &mut StdRng, cols: &[Column], n: usize, avoid: &BTreeSet<(u32, Bytes)>| {
        let mut batch = Vec::new();
        let mut used: BTreeSet<(u32, Bytes)> = BTreeSet::new();
        for _ in 0..n {
            let col = *pick(rng, cols);
            let key = gen_key(rng, ks, col, hot);
            if avoid.contains(&(col.id(), key.clone())) || !used.insert((col.id(), key.clone())) {
                continue;
            }
            let val = if chance(rng, 25) { None } else { Some(gen_val(rng)) };
            batch.push(Op {
                col: col.id(),
                key,
                val,
            });
        }
        batch
    };
    if chance(rng, 35) {
        let n = rng.gen_range(0..10);
        return Commit::single(gen_batch(rng, &cols, n, &BTreeSet::new()));
    }
    // a list: 2..4 elements; often over the same one or two columns (overlapping
    // columns, disjoint keys)
    let n_batches = rng.gen_range(2..=4);
    let narrow = chance(rng, 70);
    let sub: Vec<Column> = if narrow {
        let a = *pick(rng, &cols);
        let b = *pick(rng, &cols);
        vec![a, b]
    } else {
        cols.clone()
    };
    let mut avoid = BTreeSet::new();
    let mut batches = Vec::new();
    for _ in 0..n_batches {
        let n = rng.gen_range(1..6);
        let b = gen_batch(rng, &sub, n, &avoid);
        for op in &b {
            avoid.insert((op.col, op.key.clone()));
        }
        batches.push(b);
    }
    if allow_dup {
        // duplicate one (col,key) of the first element in the last one
        if let Some(op) = batches[0].first().cloned() {
            let last = batches.len() - 1;
            batches[last].push(Op {
                col: op.col,
                key: op.key,
                val: Some(vec![0xDD]),
            });
        }
    }
    Commit::list(batches)
}

struct Query {
    prefix: Option<Bytes>,
    start: Option<Bytes>,
    dir: IterDirection,
}

fn mode_of(q: &Query) -> &'static str {
    match (q.prefix.is_some(), q.start.is_some()) {
        (false, false) => "all",
        (true, false) => "prefix",
        (false, true) => "start",
        (true, true) => "prefix+start",
    }
}

fn gen_queries(rng: &mut StdRng, ctx: &mut Ctx, col: Column, p: &Params) -> Vec<Query> {
    let ks = ctx.ks;
    let both = [IterDirection::Forward, IterDirection::Reverse];
    let mut qs = Vec::new();
    for d in both {
        qs.push(Query {
            prefix: None,
            start: None,
            dir: d,
        });
    }
    let keys = ks.keys(col);
    for k in keys {
        if p.family_percent < 100 && !chance(rng, p.family_percent) {
            continue;
        }
        for d in both {
            qs.push(Query {
                prefix: Some(k.clone()),
                start: None,
                dir: d,
            });
            qs.push(Query {
                prefix: None,
                start: Some(k.clone()),
                dir: d,
            });
        }
    }
    if col == PREFIXED_COL {
        for sp in &ks.short_prefixes {
            // Forward prefix seeks with a prefix shorter than the column's fixed
            // prefix extractor are outside RocksDB's prefix-seek contract
            // (`InDomain`); only the reverse direction (total-order seek) is judged.
            ctx.local.count("excluded.forward_prefix_shorter_than_extractor");
            qs.push(Query {
                prefix: Some(sp.clone()),
                start: None,
                dir: IterDirection::Reverse,
            });
            // start keys shorter than the extractor are fine (total-order seek)
            for d in both {
                qs.push(Query {
                    prefix: None,
                    start: Some(sp.clone()),
                    dir: d,
                });
            }
        }
    }
    // prefix + start pairs
    let tails = strings(2);
    for _ in 0..p.pair_queries {
        let d = *pick(rng, &both);
        let (prefix, start) = if col == PREFIXED_COL {
            let h = pick(rng, &heads()).clone();
            let t = pick(rng, &tails).clone();
            let cut = rng.gen_range(0..=t.len());
            let mut pfx = h.clone();
            pfx.extend(&t[..cut]);
            let mut st = h;
            st.extend(&t);
            (pfx, st)
        } else {
            let s = pick(rng, keys).clone();
            let cut = rng.gen_range(0..=s.len());
            (s[..cut].to_vec(), s)
        };
        if chance(rng, 8) {
            // `start` outside `prefix`: backends document "return nothing", the
            // sorted-map reference differs; outside the compared domain.
            ctx.local.count("excluded.start_not_in_prefix");
            continue;
        }
        debug_assert!(start.starts_with(&prefix));
        if col == PREFIXED_COL {
            debug_assert!(prefix.len() >= PREFIX_LEN);
        }
        qs.push(Query {
            prefix: Some(prefix),
            start: Some(start),
            dir: d,
        });
    }
    qs
}

fn classify_iter_mismatch(
    b: &Backend,
    api: &str,
    q: &Query,
    expected_keys: &[Bytes],
    observed_keys: &[Bytes],
    colmap: &ColMap,
) -> String {
    let mode = mode_of(q);
    if b.fam != "memory"
        && mode == "prefix"
        && q.dir == IterDirection::Reverse
        && observed_keys.is_empty()
        && !expected_keys.is_empty()
    {
        let prefix = q.prefix.as_ref().unwrap();
        let trailing_ff = prefix.last() == Some(&0xFF) && prefix.iter().any(|b| *b != 0xFF);
        if trailing_ff {
            return format!(
                "reverse_prefix_iter_missing_entries backend={} cause=prefix_ends_with_0xff",
                b.fam
            );
        }
        if let Some(s) = successor(prefix) {
            if colmap.contains_key(&s) {
                return format!(
                    "reverse_prefix_iter_missing_entries backend={} cause=successor_key_present",
                    b.fam
                );
            }
        }
    }
    format!(
        "iter_mismatch backend={} api={} mode={} dir={}",
        b.fam,
        api,
        mode,
        dir_str(q.dir)
    )
}

#[allow(clippy::too_many_arguments)]
fn run_queries(rng: &mut StdRng, ctx: &mut Ctx, backends: &[Backend], model: &Model, col: Column, p: &Params) {
    let colmap = model.col(col.id());
    let col_hash = hash64(&colmap);
    let qs = gen_queries(rng, ctx, col, p);
    let prefixed = col == PREFIXED_COL;
    for q in &qs {
        let expected = model_iter(&colmap, q.prefix.as_deref(), q.start.as_deref(), q.dir);
        let expected_keys: Vec<Bytes> = expected.iter().map(|(k, _)| k.clone()).collect();
        let mode = mode_of(q);
        let nontrivial = !expected.is_empty() && expected.len() < colmap.len();
        if nontrivial {
            ctx.local
                .distinct
                .push(hash64(&(col_hash, &q.prefix, &q.start, q.dir == IterDirection::Forward)));
        }
        let ck = format!(
            "queries.{}.{}{}",
            mode,
            dir_str(q.dir),
            if expected.is_empty() { ".empty" } else { ".nonempty" }
        );
        if prefixed {
            ctx.local.count("queries.on_prefix_extractor_column");
        }
        if mode == "prefix" && q.dir == IterDirection::Reverse && !expected.is_empty() {
            let prefix = q.prefix.as_ref().unwrap();
            if prefix.last() == Some(&0xFF) {
                ctx.local.count("queries.reverse_prefix.nonempty.prefix_ends_with_ff");
            }
            if successor(prefix).map(|s| colmap.contains_key(&s)).unwrap_or(false) {
                ctx.local.count("queries.reverse_prefix.nonempty.successor_key_present");
            }
        }
        let use_keys_api = chance(rng, 50);
        for b in backends.iter().filter(|b| b.alive) {
            let s = b.iterable();
            // memory: both APIs; RocksDB-based: one of them per query
            let apis: &[bool] = if b.fam == "memory" {
                &[false, true]
            } else if use_keys_api {
                &[true]
            } else {
                &[false]
            };
            for keys_api in apis {
                ctx.local.evals += 1;
                ctx.local.count(&ck);
                let api = if *keys_api { "iter_store_keys" } else { "iter_store" };
                let (observed_keys, observed_kv): (Vec<Bytes>, Option<Vec<(Bytes, Bytes)>>) = if *keys_api {
                    match iter_keys(s, col, q.prefix.as_deref(), q.start.as_deref(), q.dir) {
                        Ok(Ok(mut k)) => {
                            if ctx.selftest == 1 && b.fam == "rocksdb" && mode == "start" && !k.is_empty() {
                                k.pop();
                            }
                            (k, None)
                        }
                        Ok(Err(e)) => {
                            let d = format!("{} {} returned an error item: {e}", b.name, api);
                            ctx.violation(format!("iter_error backend={} api={api}", b.fam), d);
                            continue;
                        }
                        Err(p) => {
                            let d = format!(
                                "{} {api}(col={:?}, prefix={}, start={}, {}) panicked: {p}",
                                b.name,
                                col,
                                hex_opt(q.prefix.as_deref()),
                                hex_opt(q.start.as_deref()),
                                dir_str(q.dir)
                            );
                            ctx.violation(
                                format!("iter_panicked backend={} mode={} dir={}", b.fam, mode, dir_str(q.dir)),
                                d,
                            );
                            continue;
                        }
                    }
                } else {
                    match iter_kv(s, col, q.prefix.as_deref(), q.start.as_deref(), q.dir) {
                        Ok(Ok(mut kv)) => {
                            if ctx.selftest == 3
                                && b.fam == "memory"
                                && q.dir == IterDirection::Reverse
                                && kv.len() >= 2
                            {
                                kv.swap(0, 1);
                            }
                            (kv.iter().map(|(k, _)| k.clone()).collect(), Some(kv))
                        }
                        Ok(Err(e)) => {
                            let d = format!("{} {} returned an error item: {e}", b.name, api);
                            ctx.violation(format!("iter_error backend={} api={api}", b.fam), d);
                            continue;
                        }
                        Err(p) => {
                            let d = format!(
                                "{} {api}(col={:?}, prefix={}, start={}, {}) panicked: {p}",
                                b.name,
                                col,
                                hex_opt(q.prefix.as_deref()),
                                hex_opt(q.start.as_deref()),
                                dir_str(q.dir)
                            );
                            ctx.violation(
                                format!("iter_panicked backend={} mode={} dir={}", b.fam, mode, dir_str(q.dir)),
                                d,
                            );
                            continue;
                        }
                    }
                };
                let ok = match &observed_kv {
                    Some(kv) => *kv == expected,
                    None => observed_keys == expected_keys,
                };
                if !ok {
                    let signature = classify_iter_mismatch(b, api, q, &expected_keys, &observed_keys, &colmap);
                    let all_keys: Vec<Bytes> = colmap.keys().cloned().collect();
                    let detail = format!(
                        "{} {api}(col={:?}, prefix={}, start={}, {}): expected {} observed {}; column keys {}",
                        b.name,
                        col,
                        hex_opt(q.prefix.as_deref()),
                        hex_opt(q.start.as_deref()),
                        dir_str(q.dir),
                        match &observed_kv {
                            Some(_) => hex_kvs(&expected),
                            None => hex_keys(&expected_keys),
                        },
                        match &observed_kv {
                            Some(kv) => hex_kvs(kv),
                            None => hex_keys(&observed_keys),
                        },
                        hex_keys(&all_keys),
                    );
                    ctx.violation(signature, detail);
                }
            }
        }
    }
}

/// `ChangesIterator` (the view of one change set used by the height lookup of
/// commits and by the off-chain worker) iterates the inserted entries of a
/// single `Changes` like a sorted map.
fn check_changes_iterator(rng: &mut StdRng, ctx: &mut Ctx, commit: &Commit) {
    use fuel_core_storage::{
        iter::changes_iterator::ChangesIterator,
        kv_store::KeyValueInspect,
    };
    let changes = commit.to_storage_changes();
    let it = ChangesIterator::<Column>::new(&changes);
    let mut inserted = Model::default();
    for op in commit.ops() {
        inserted.apply_op(op);
    }
    let both = [IterDirection::Forward, IterDirection::Reverse];
    let touched: BTreeSet<u32> = commit.ops().map(|o| o.col).collect();
    for col in all_cols() {
        if !touched.contains(&col.id()) {
            continue;
        }
        let colmap = inserted.col(col.id());
        let mut queries: Vec<Query> = Vec::new();
        for d in both {
            queries.push(Query {
                prefix: None,
                start: None,
                dir: d,
            });
        }
        let candidates: Vec<Bytes> = commit
            .ops()
            .filter(|o| o.col == col.id())
            .map(|o| o.key.clone())
            .collect();
        for _ in 0..10 {
            let k = pick(rng, &candidates).clone();
            let cut = rng.gen_range(0..=k.len());
            let d = *pick(rng, &both);
            let q = match rng.gen_range(0..3) {
                0 => Query {
                    prefix: Some(k[..cut].to_vec()),
                    start: None,
                    dir: d,
                },
                1 => Query {
                    prefix: None,
                    start: Some(k.clone()),
                    dir: d,
                },
                _ => Query {
                    prefix: Some(k[..cut].to_vec()),
                    start: Some(k.clone()),
                    dir: d,
                },
            };
            queries.push(q);
        }
        for q in &queries {
            let expected = model_iter(&colmap, q.prefix.as_deref(), q.start.as_deref(), q.dir);
            let expected_keys: Vec<Bytes> = expected.iter().map(|(k, _)| k.clone()).collect();
            ctx.local.evals += 2;
            ctx.local.add("changes_iterator.queries", 2);
            let kv = iter_kv(&it, col, q.prefix.as_deref(), q.start.as_deref(), q.dir);
            let keys = iter_keys(&it, col, q.prefix.as_deref(), q.start.as_deref(), q.dir);
            let ok = matches!(&kv, Ok(Ok(o)) if *o == expected) && matches!(&keys, Ok(Ok(o)) if *o == expected_keys);
            if !ok {
                let d = format!(
                    "ChangesIterator over {} (col={:?}, prefix={}, start={}, {}): expected {} observed iter_store={:?} iter_store_keys={:?}",
                    commit.to_json(),
                    col,
                    hex_opt(q.prefix.as_deref()),
                    hex_opt(q.start.as_deref()),
                    dir_str(q.dir),
                    hex_kvs(&expected),
                    kv.map(|r| r.map(|o| hex_kvs(&o))),
                    keys.map(|r| r.map(|o| hex_keys(&o))),
                );
                ctx.violation(
                    format!(
                        "iter_mismatch backend=changes_iterator mode={} dir={}",
                        mode_of(q),
                        dir_str(q.dir)
                    ),
                    d,
                );
            }
        }
        for op in commit.ops().filter(|o| o.col == col.id()) {
            ctx.local.evals += 1;
            let expected = inserted.get(col.id(), &op.key);
            match catch(|| it.get(&op.key, col).map(|v| v.map(|v| v.to_vec())).map_err(|e| format!("{e}"))) {
                Ok(Ok(o)) if o.as_ref() == expected => {}
                other => {
                    let d = format!(
                        "ChangesIterator over {}: get(col {:?}, [{}]) = {:?}, expected {}",
                        commit.to_json(),
                        col,
                        hexs(&op.key),
                        other,
                        hex_opt(expected.map(|v| v.as_slice()))
                    );
                    ctx.violation("get_mismatch backend=changes_iterator".to_string(), d);
                }
            }
        }
    }
}

fn read_col(b: &Backend, col: Column) -> Result<ColMap, String> {
    match iter_kv(b.iterable(), col, None, None, IterDirection::Forward) {
        Ok(Ok(kv)) => Ok(kv.into_iter().collect()),
        Ok(Err(e)) => Err(format!("error item: {e}")),
        Err(p) => Err(format!("panic: {p}")),
    }
}

/// compare every used column of `b` with the model; returns the differing
/// (col, key, expected, observed) tuples
#[allow(clippy::type_complexity)]
fn content_diff(b: &Backend, model: &Model) -> Result<Vec<(u32, Bytes, Option<Bytes>, Option<Bytes>)>, String> {
    let mut diffs = Vec::new();
    for col in all_cols() {
        let observed = read_col(b, col)?;
        let expected = model.col(col.id());
        let keys: BTreeSet<&Bytes> = observed.keys().chain(expected.keys()).collect();
        for k in keys {
            let e = expected.get(k);
            let o = observed.get(k);
            if e != o {
                diffs.push((col.id(), k.clone(), e.cloned(), o.cloned()));
            }
        }
    }
    Ok(diffs)
}

fn fmt_diffs(diffs: &[(u32, Bytes, Option<Bytes>, Option<Bytes>)]) -> String {
    diffs
        .iter()
        .take(12)
        .map(|(c, k, e, o)| {
            format!(
                "col {} key [{}]: expected {} observed {}",
                c,
                hexs(k),
                hex_opt(e.as_deref()),
                hex_opt(o.as_deref())
            )
        })
        .collect::<Vec<_>>()
        .join("; ")
}

fn run_history(args: &Args, report: &Report, ks: &KeySpace, shard: usize, shard_seed: u64, iteration: u64, p: &Params, selftest: u32) {
    let mut rng = rng_for(shard_seed, &[iteration]);
    let mut ctx = Ctx {
        report,
        local: Local::default(),
        selftest,
        shard,
        shard_seed,
        iteration,
        tier: args.tier_str(),
        history: Vec::new(),
        ks,
    };
    let policies = [
        StateRewindPolicy::NoRewind,
        StateRewindPolicy::RewindFullRange,
        StateRewindPolicy::RewindRange {
            size: NonZeroU64::new(1).unwrap(),
        },
        StateRewindPolicy::RewindRange {
            size: NonZeroU64::new(2).unwrap(),
        },
        StateRewindPolicy::RewindRange {
            size: NonZeroU64::new(5).unwrap(),
        },
    ];
    let cached = chance(&mut rng, 50);
    ctx.local
        .count(if cached { "histories.with_block_cache" } else { "histories.without_block_cache" });
    let mut backends = Vec::new();
    let mut specs: Vec<(&'static str, Option<StateRewindPolicy>)> = vec![("memory", None), ("rocksdb", None)];
    for (i, pol) in policies.into_iter().enumerate() {
        // RocksDB opens are expensive (fsync per column family); the quick tier
        // rotates the RewindRange size instead of opening all three
        if p.all_policies || i < 2 || i == 2 + ((iteration as usize + shard) % 3) {
            specs.push(("historical", Some(pol)));
        }
    }
    for (fam, pol) in specs {
        let t0 = std::time::Instant::now();
        let opened = Backend::new(fam, pol, &args.scratch, cached);
        ctx.local.add("time_us.open", t0.elapsed().as_micros() as u64);
        match opened {
            Ok(b) => backends.push(b),
            Err(e) => {
                report.inconclusive(format!("cannot open backend {fam}: {e}"));
                return;
            }
        }
    }
    let mut model = Model::default();
    let mut height: u32 = rng.gen_range(0..3);
    let hot = hot_keys(&mut rng);
    let conflict_history = chance(&mut rng, 6);
    // two reopen rounds per history, somewhere in the second and last third
    let reopen_at: Vec<usize> = if p.reopen_rounds >= 2 {
        vec![
            rng.gen_range(p.commits / 3..2 * p.commits / 3),
            rng.gen_range(2 * p.commits / 3..p.commits - 2),
        ]
    } else {
        vec![rng.gen_range(p.commits / 3..p.commits - 5)]
    };
    let reopen_pick = rng.gen_range(0..8usize);
    // (backend index, snapshot, model at snapshot time)
    let mut snapshots: Vec<(usize, Box<dyn IterableStore<Column = Column>>, Model)> = Vec::new();
    let mut sampled = false;

    for step in 0..p.commits {
        let is_last = step + 1 == p.commits;
        let dup = conflict_history && is_last;
        let commit = gen_commit(&mut rng, ks, &hot, dup);
        let with_height = !chance(&mut rng, 15);
        let h = if with_height {
            height += 1;
            Some(height)
        } else {
            None
        };
        ctx.history.push(json!({"height": h, "commit": commit.to_json()}));
        let before = model.clone();
        let overlapping = commit.overlapping_columns();
        ctx.local.count(if commit.list { "commits.list" } else { "commits.single" });
        if !overlapping.is_empty() {
            ctx.local.count("commits.list_with_overlapping_columns");
        }
        ctx.local.count(if h.is_some() { "commits.with_height" } else { "commits.without_height" });

        if dup {
            // outside the compared domain: only information is recorded
            ctx.local.count("excluded.commit_with_duplicate_key_in_list");
            for b in backends.iter().filter(|b| b.alive) {
                let r = b.commit(h, &commit);
                let k = match r {
                    Ok(Ok(())) => "accepted",
                    Ok(Err(_)) => "rejected",
                    Err(_) => "panicked",
                };
                ctx.local.count(&format!("info.duplicate_key_commit.{}.{}", b.name, k));
                if let Ok(d) = content_diff(b, &before) {
                    if !d.is_empty() {
                        ctx.local
                            .count(&format!("info.duplicate_key_commit.{}.content_changed", b.name));
                    }
                }
            }
            break;
        }

        model.apply(&commit);
        if !commit.list {
            check_changes_iterator(&mut rng, &mut ctx, &commit);
        }
        for i in 0..backends.len() {
            if !backends[i].alive {
                continue;
            }
            let effective = if selftest == 2
                && backends[i].policy == Some(StateRewindPolicy::NoRewind)
                && commit.batches.len() >= 2
            {
                let mut c = commit.clone();
                c.batches.pop();
                c
            } else {
                commit.clone()
            };
            let b = &backends[i];
            ctx.local.evals += 1;
            let t0 = std::time::Instant::now();
            let committed = b.commit(h, &effective);
            ctx.local.add("time_us.commit", t0.elapsed().as_micros() as u64);
            match committed {
                Ok(Ok(())) => {
                    ctx.local.count("commits.accepted");
                }
                Ok(Err(e)) => {
                    let d = format!(
                        "{} rejected a commit without duplicate keys (height {:?}): {e}; commit {}",
                        b.name,
                        h,
                        commit.to_json()
                    );
                    ctx.violation(format!("commit_rejected backend={}", b.fam), d);
                }
                Err(pn) => {
                    let d = format!("{} panicked in commit_changes (height {:?}): {pn}", b.name, h);
                    ctx.violation(format!("commit_panicked backend={}", b.fam), d);
                    backends[i].alive = false;
                    continue;
                }
            }
            // contents after the commit
            let t0 = std::time::Instant::now();
            let diffed = content_diff(b, &model);
            ctx.local.add("time_us.content_check", t0.elapsed().as_micros() as u64);
            match diffed {
                Err(e) => {
                    let d = format!("{}: reading the contents failed: {e}", b.name);
                    ctx.violation(format!("content_read_failed backend={}", b.fam), d);
                    backends[i].alive = false;
                }
                Ok(diffs) if diffs.is_empty() => {}
                Ok(diffs) => {
                    let lost_same_column_write = b.fam == "historical"
                        && b.policy != Some(StateRewindPolicy::NoRewind)
                        && h.is_some()
                        && commit.list
                        && diffs.iter().all(|(c, k, _, o)| {
                            overlapping.contains(c) && o.as_ref() == before.get(*c, k)
                        });
                    let signature = if lost_same_column_write {
                        "changes_list_same_column_write_lost backend=historical".to_string()
                    } else {
                        format!("content_mismatch_after_commit backend={}", b.fam)
                    };
                    let d = format!(
                        "{} after commit at height {:?}: {}; commit {}",
                        b.name,
                        h,
                        fmt_diffs(&diffs),
                        commit.to_json()
                    );
                    ctx.violation(signature, d);
                    // bring the backend back in line so the history can go on
                    let fix: Batch = diffs
                        .iter()
                        .map(|(c, k, e, _)| Op {
                            col: *c,
                            key: k.clone(),
                            val: e.clone(),
                        })
                        .collect();
                    let resynced = matches!(b.commit(None, &Commit::single(fix)), Ok(Ok(())))
                        && content_diff(b, &model).map(|d| d.is_empty()).unwrap_or(false);
                    if resynced {
                        ctx.local.count("harness.backend_resynced_after_mismatch");
                    } else {
                        ctx.local.count("harness.backend_dropped_after_mismatch");
                        backends[i].alive = false;
                    }
                }
            }
        }

        // snapshots taken before this commit must still show the old contents
        for (bi, snap, snap_model) in snapshots.drain(..) {
            let b = &backends[bi];
            for col in all_cols() {
                ctx.local.evals += 1;
                ctx.local.count("snapshot_view.column_checks");
                let expected: Vec<(Bytes, Bytes)> = snap_model.col(col.id()).into_iter().collect();
                match iter_kv(snap.as_ref(), col, None, None, IterDirection::Forward) {
                    Ok(Ok(kv)) if kv == expected => {}
                    Ok(Ok(kv)) => {
                        let d = format!(
                            "{}: latest_view taken before commit #{step} shows col {:?} = {} after the commit, expected the old contents {}",
                            b.name,
                            col,
                            hex_kvs(&kv),
                            hex_kvs(&expected)
                        );
                        ctx.violation(format!("snapshot_view_changed_by_later_commit backend={}", b.fam), d);
                    }
                    Ok(Err(e)) | Err(e) => {
                        let d = format!("{}: iterating a held latest_view failed: {e}", b.name);
                        ctx.violation(format!("snapshot_view_read_failed backend={}", b.fam), d);
                    }
                }
            }
        }

        // point reads + queries on a rotating column
        let col = all_cols()[(step + iteration as usize) % all_cols().len()];
        for b in backends.iter().filter(|b| b.alive) {
            let s = b.iterable();
            for k in ks.keys(col) {
                ctx.local.evals += 1;
                ctx.local.count("point_reads");
                let expected = model.get(col.id(), k);
                match catch(|| s.get(k, col).map(|v| v.map(|v| v.to_vec())).map_err(|e| format!("{e}"))) {
                    Ok(Ok(o)) => {
                        if o.as_ref() != expected {
                            let d = format!(
                                "{} get(col {:?}, [{}]) = {} expected {}",
                                b.name,
                                col,
                                hexs(k),
                                hex_opt(o.as_deref()),
                                hex_opt(expected.map(|v| v.as_slice()))
                            );
                            ctx.violation(format!("get_mismatch backend={}", b.fam), d);
                        }
                    }
                    Ok(Err(e)) | Err(e) => {
                        let d = format!("{} get(col {:?}, [{}]) failed: {e}", b.name, col, hexs(k));
                        ctx.violation(format!("get_failed backend={}", b.fam), d);
                    }
                }
            }
        }
        let t0 = std::time::Instant::now();
        run_queries(&mut rng, &mut ctx, &backends, &model, col, p);
        ctx.local.add("time_us.queries", t0.elapsed().as_micros() as u64);

        if !sampled && report.wants_sample() && step == 3 {
            sampled = true;
            report.sample(json!({
                "shard": shard, "iteration": iteration,
                "first_commits": ctx.history.clone(),
                "queried_column": format!("{col:?}"),
                "column_keys_after_commit_3": model.col(col.id()).keys().map(|k| hexs(k)).collect::<Vec<_>>(),
            }));
        }

        // reopen the RocksDB-based backends now and then (moves data from the
        // memtable/WAL into SST files with bloom filters)
        if !is_last && reopen_at.contains(&step) {
            ctx.local.count("reopen_rounds");
            let n_hist = backends.iter().filter(|b| b.fam == "historical").count().max(1);
            let mut hist_idx = 0;
            for b in backends.iter_mut().filter(|b| b.alive) {
                if b.fam == "historical" {
                    hist_idx += 1;
                    if p.reopen_rounds < 2 && (hist_idx - 1) != reopen_pick % n_hist {
                        continue;
                    }
                }
                if b.fam != "memory" {
                    ctx.local.count(&format!("reopens.{}", b.fam));
                }
                let t0 = std::time::Instant::now();
                let reopened = b.reopen();
                ctx.local.add("time_us.reopen", t0.elapsed().as_micros() as u64);
                if let Err(e) = reopened {
                    report.inconclusive(format!("reopen of {} failed: {e}", b.name));
                    b.alive = false;
                }
            }
        } else if !is_last && chance(&mut rng, 35) {
            for (i, b) in backends.iter().enumerate().filter(|(_, b)| b.alive) {
                match b.snapshot() {
                    Ok(s) => {
                        ctx.local.count("snapshot_view.taken");
                        snapshots.push((i, s, model.clone()));
                    }
                    Err(e) => {
                        let d = format!("{}: latest_view failed: {e}", b.name);
                        ctx.violation(format!("latest_view_failed backend={}", b.fam), d);
                    }
                }
            }
        }
    }
    drop(snapshots);
    ctx.local.count("histories");
    ctx.local.flush(report);
}

pub fn run(args: &Args, report: &Report) {
    let selftest = selftest_mode(args);
    let ks = KeySpace::new();
    if let Some(r) = read_replay(args) {
        let shard_seed = r["seed"].as_u64().unwrap_or(0);
        let iteration = r["iteration"].as_u64().unwrap_or(0);
        let shard = r["shard"].as_u64().unwrap_or(0) as usize;
        let p = params(r["tier"].as_str() == Some("thorough"));
        run_history(args, report, &ks, shard, shard_seed, iteration, &p, selftest);
        finish(args, report, selftest, true);
        return;
    }
    let p = params(args.is_thorough());
    let shards: usize = args.extra.get("shards").and_then(|s| s.parse().ok()).unwrap_or(16);
    let per_shard: u64 = args
        .extra
        .get("per-shard")
        .and_then(|s| s.parse().ok())
        .unwrap_or(args.by_tier(3, 8));
    let args2 = args.clone();
    let report2 = report.clone();
    run_shards(report, args, shards, move |shard, shard_seed| {
        let ks = KeySpace::new();
        for it in 0..per_shard {
            run_history(&args2, &report2, &ks, shard, shard_seed, it, &p, selftest);
        }
    });
    finish(args, report, selftest, false);
}

fn finish(args: &Args, report: &Report, selftest: u32, replay: bool) {
    if !replay {
        let t = |q: u64, th: u64| args.by_tier(q, th);
        report.require("histories", t(24, 100));
        report.require("commits.list_with_overlapping_columns", t(300, 1500));
        report.require("queries.prefix.reverse.nonempty", t(80_000, 400_000));
        report.require("queries.prefix.forward.nonempty", t(80_000, 400_000));
        report.require("queries.start.reverse.nonempty", t(300_000, 1_500_000));
        report.require("queries.start.forward.nonempty", t(300_000, 1_500_000));
        report.require("queries.prefix+start.forward.nonempty", t(60_000, 300_000));
        report.require("queries.prefix+start.reverse.nonempty", t(60_000, 300_000));
        report.require("queries.reverse_prefix.nonempty.prefix_ends_with_ff", t(2_000, 10_000));
        report.require("queries.reverse_prefix.nonempty.successor_key_present", t(1_000, 5_000));
        report.require("queries.on_prefix_extractor_column", t(50_000, 250_000));
        report.require("reopen_rounds", t(24, 200));
        report.require("snapshot_view.column_checks", t(2_000, 10_000));
        report.require("point_reads", t(300_000, 1_500_000));
    }
    if selftest > 0 && report.violation_count() == 0 {
        report.inconclusive(format!("selftest {selftest}: the perturbation was not detected"));
    }
    report.finish(
        args,
        "exploration",
        "history = seeded list of commits (single change sets and lists with overlapping columns/disjoint keys, inserts+removes, keys over {00,01,7F,FE,FF}^0..3 and 32-byte-head keys on the prefix-extractor column) applied to MemoryStore, RocksDb and HistoricalRocksDB x {NoRewind, RewindFullRange, RewindRange 1/2/5} (quick tier: NoRewind, RewindFullRange and one rotating RewindRange size per history) with close/reopen, half of the histories with a block cache; single change sets are also read back through ChangesIterator; one evaluation = one backend answer (commit+contents, get, iter_store/iter_store_keys query, held snapshot) compared with the sorted-map model; a query is counted distinct/non-trivial when its expected result is a non-empty strict subset of the column, keyed by (column contents, prefix, start, direction)",
        false,
        &[
            "commits containing the same (column,key) in two list elements are outside the compared domain (backends legitimately reject them differently); generated as the last commit of ~6% of the histories and only recorded",
            "queries with prefix and start where start does not begin with prefix are outside the documented contract and excluded (counted)",
            "on the column with a RocksDB fixed-prefix extractor (ContractsState, 32 bytes) keys have at least 32 bytes and forward prefix queries use prefixes of at least 32 bytes (RocksDB InDomain contract); shorter prefixes are only queried in reverse direction",
            "RocksDB opened with DatabaseConfig::config_for_tests (lazy columns), with and without a 6 MiB cache",
            "a panic inside commit_changes / iter_store / get of a backend is reported as a violation (the backend did not deliver the contents the others hold)",
        ],
    );
}
