//! C11: all storage backends store and iterate identically to a sorted-map model.
//!
//! Driver: one generated commit history is applied to `MemoryStore`, `RocksDb` and
//! `HistoricalRocksDB` under NoRewind / RewindFullRange / RewindRange{1,2,5}
//! (over the real `OnChain` and `OffChain` descriptions, RocksDB directories under
//! the scratch dir, with close/reopen in between). After every commit the contents of every
//! used column and a systematic family of (prefix, start, direction) queries are
//! compared with the model on every backend.

use crate::{
    model::*,
    proc::{
        self,
        OpKind,
        crumb,
    },
};
use fuel_core::{
    database::database_description::{
        DatabaseDescription,
        off_chain::OffChain,
        on_chain::OnChain,
    },
    fuel_core_graphql_api::storage::Column as OffChainColumn,
    state::{
        TransactableStorage,
        historical_rocksdb::{
            HistoricalRocksDB,
            StateRewindPolicy,
        },
        in_memory::memory_store::MemoryStore,
        rocks_db::{
            DatabaseConfig,
            RocksDb,
        },
    },
};
use fuel_core_storage::{
    column::Column as OnChainColumn,
    iter::{
        IterDirection,
        IterableStore,
        changes_iterator::ChangesIterator,
    },
    kv_store::StorageColumn,
    transactional::StorageChanges,
};
use fuel_core_types::fuel_types::BlockHeight;
use std::{
    collections::BTreeSet,
    num::NonZeroU64,
    path::Path,
};
use tempfile::TempDir;
use vcommon::{
    Args,
    Report,
    catch,
    chance,
    hash64,
    pick,
    rand::{
        Rng,
        rngs::StdRng,
    },
    read_replay,
    rng_for,
    serde_json::{
        Value as Json,
        json,
    },
};

const ALPHA: [u8; 5] = [0x00, 0x01, 0x7F, 0xFE, 0xFF];
/// length of the fixed RocksDB prefix extractor of the "prefixed" columns
const PREFIX_LEN: usize = 32;
/// see `Params::short_forward_prefix`
const SHORT_FORWARD_PREFIX_DEFAULT: u8 = 2;

/// A column as the (description-independent) workload sees it.
#[derive(Clone, Copy, Debug, PartialEq, Eq)]
struct Col {
    id: u32,
    /// the column has a fixed 32-byte RocksDB prefix extractor
    /// (`DatabaseDescription::prefix`)
    prefixed: bool,
    name: &'static str,
}

/// The database descriptions the histories run over: three plain columns and
/// two columns with the 32-byte prefix extractor each.
trait Desc11: DatabaseDescription<Height = BlockHeight, Column: 'static> {
    const LABEL: &'static str;
    fn columns() -> Vec<Self::Column>;
}

impl Desc11 for OnChain {
    const LABEL: &'static str = "on_chain";

    fn columns() -> Vec<OnChainColumn> {
        vec![
            OnChainColumn::Coins,
            OnChainColumn::Messages,
            OnChainColumn::Metadata,
            OnChainColumn::ContractsState,
            OnChainColumn::ContractsAssets,
        ]
    }
}

impl Desc11 for OffChain {
    const LABEL: &'static str = "off_chain";

    fn columns() -> Vec<OffChainColumn> {
        vec![
            OffChainColumn::TransactionStatus,
            OffChainColumn::Statistic,
            OffChainColumn::ContractsInfo,
            OffChainColumn::OwnedCoins,
            OffChainColumn::TransactionsByOwnerBlockIdx,
        ]
    }
}

fn typed_col<D: Desc11>(id: u32) -> D::Column {
    D::columns()
        .into_iter()
        .find(|c| c.id() == id)
        .expect("column used by the generator")
}

type IterKv = Result<Result<Vec<(Bytes, Bytes)>, String>, String>;
type IterKeys = Result<Result<Vec<Bytes>, String>, String>;
type GetRes = Result<Result<Option<Bytes>, String>, String>;

/// Untyped read access to a store (outer `Err` = panic, inner `Err` = error item).
trait Kv {
    fn get(&self, col: Col, key: &[u8]) -> GetRes;
    /// every read method (get, exists, size_of_value, read_exact, read_zerofill)
    fn reads(&self, col: Col, key: &[u8], offset: usize, buf_len: usize) -> Result<Result<Reads, String>, String>;
    fn iter_kv(&self, col: Col, prefix: Option<&[u8]>, start: Option<&[u8]>, dir: IterDirection) -> IterKv;
    fn iter_keys(&self, col: Col, prefix: Option<&[u8]>, start: Option<&[u8]>, dir: IterDirection) -> IterKeys;
}

fn typed_get<D: Desc11>(s: &dyn IterableStore<Column = D::Column>, col: Col, key: &[u8]) -> GetRes {
    let c = typed_col::<D>(col.id);
    catch(|| s.get(key, c).map(|v| v.map(|v| v.to_vec())).map_err(|e| format!("{e}")))
}

fn typed_reads<D: Desc11>(
    s: &dyn IterableStore<Column = D::Column>,
    col: Col,
    key: &[u8],
    offset: usize,
    buf_len: usize,
) -> Result<Result<Reads, String>, String> {
    let c = typed_col::<D>(col.id);
    catch(|| do_reads(s, key, c, offset, buf_len))
}

fn typed_iter_kv<D: Desc11>(
    s: &dyn IterableStore<Column = D::Column>,
    col: Col,
    prefix: Option<&[u8]>,
    start: Option<&[u8]>,
    dir: IterDirection,
) -> IterKv {
    let c = typed_col::<D>(col.id);
    catch(|| {
        let mut out = Vec::new();
        for item in s.iter_store(c, prefix, start, dir) {
            match item {
                Ok((k, v)) => out.push((k, v.to_vec())),
                Err(e) => return Err(format!("{e}")),
            }
            if out.len() > 100_000 {
                return Err("iterator did not terminate within 100000 items".into());
            }
        }
        Ok(out)
    })
}

fn typed_iter_keys<D: Desc11>(
    s: &dyn IterableStore<Column = D::Column>,
    col: Col,
    prefix: Option<&[u8]>,
    start: Option<&[u8]>,
    dir: IterDirection,
) -> IterKeys {
    let c = typed_col::<D>(col.id);
    catch(|| {
        let mut out = Vec::new();
        for item in s.iter_store_keys(c, prefix, start, dir) {
            match item {
                Ok(k) => out.push(k),
                Err(e) => return Err(format!("{e}")),
            }
            if out.len() > 100_000 {
                return Err("iterator did not terminate within 100000 items".into());
            }
        }
        Ok(out)
    })
}

fn fam_code(fam: &str) -> u8 {
    match fam {
        "memory" => proc::FAM_MEMORY,
        "rocksdb" => proc::FAM_ROCKSDB,
        _ => proc::FAM_HISTORICAL,
    }
}

fn policy_code(p: Option<StateRewindPolicy>) -> u8 {
    match p {
        None => 0,
        Some(StateRewindPolicy::NoRewind) => 1,
        Some(StateRewindPolicy::RewindFullRange) => 2,
        Some(StateRewindPolicy::RewindRange { size }) => 10 + size.get().min(200) as u8,
    }
}

fn dir_code(d: IterDirection) -> u8 {
    match d {
        IterDirection::Forward => 1,
        IterDirection::Reverse => 2,
    }
}

/// an owned view (snapshot) of a store; `1`/`2`: breadcrumb codes of the backend
struct OwnedView<D: Desc11>(Box<dyn IterableStore<Column = D::Column>>, u8, u8);

impl<D: Desc11> Kv for OwnedView<D> {
    fn get(&self, col: Col, key: &[u8]) -> GetRes {
        if self.1 != proc::FAM_MEMORY {
            crumb(OpKind::Read, self.1, self.2, col.id, 0, Some(key), None);
        }
        typed_get::<D>(self.0.as_ref(), col, key)
    }

    fn reads(&self, col: Col, key: &[u8], offset: usize, buf_len: usize) -> Result<Result<Reads, String>, String> {
        if self.1 != proc::FAM_MEMORY {
            crumb(OpKind::Read, self.1, self.2, col.id, 0, Some(key), None);
        }
        typed_reads::<D>(self.0.as_ref(), col, key, offset, buf_len)
    }

    fn iter_kv(&self, col: Col, prefix: Option<&[u8]>, start: Option<&[u8]>, dir: IterDirection) -> IterKv {
        if self.1 != proc::FAM_MEMORY {
            crumb(OpKind::IterStore, self.1, self.2, col.id, dir_code(dir), prefix, start);
        }
        typed_iter_kv::<D>(self.0.as_ref(), col, prefix, start, dir)
    }

    fn iter_keys(&self, col: Col, prefix: Option<&[u8]>, start: Option<&[u8]>, dir: IterDirection) -> IterKeys {
        if self.1 != proc::FAM_MEMORY {
            crumb(OpKind::IterStoreKeys, self.1, self.2, col.id, dir_code(dir), prefix, start);
        }
        typed_iter_keys::<D>(self.0.as_ref(), col, prefix, start, dir)
    }
}

/// a borrowed store
struct RefView<'a, D: Desc11>(&'a dyn IterableStore<Column = D::Column>);

impl<D: Desc11> Kv for RefView<'_, D> {
    fn get(&self, col: Col, key: &[u8]) -> GetRes {
        typed_get::<D>(self.0, col, key)
    }

    fn reads(&self, col: Col, key: &[u8], offset: usize, buf_len: usize) -> Result<Result<Reads, String>, String> {
        typed_reads::<D>(self.0, col, key, offset, buf_len)
    }

    fn iter_kv(&self, col: Col, prefix: Option<&[u8]>, start: Option<&[u8]>, dir: IterDirection) -> IterKv {
        typed_iter_kv::<D>(self.0, col, prefix, start, dir)
    }

    fn iter_keys(&self, col: Col, prefix: Option<&[u8]>, start: Option<&[u8]>, dir: IterDirection) -> IterKeys {
        typed_iter_keys::<D>(self.0, col, prefix, start, dir)
    }
}

/// runs `f` on a `ChangesIterator` over `changes`
fn with_changes_iterator<D: Desc11>(changes: &StorageChanges, f: &mut dyn FnMut(&dyn Kv)) {
    let it = ChangesIterator::<D::Column>::new(changes);
    f(&RefView::<D>(&it))
}

/// What the (non-generic) history driver needs from a description.
struct DescInfo {
    label: &'static str,
    cols: Vec<Col>,
    open: fn(&'static str, Option<StateRewindPolicy>, Option<&Path>, bool) -> Result<Box<dyn Inner>, String>,
    with_changes: fn(&StorageChanges, &mut dyn FnMut(&dyn Kv)),
}

fn desc_info<D: Desc11>() -> DescInfo {
    let cols = D::columns()
        .into_iter()
        .map(|c| Col {
            id: c.id(),
            prefixed: D::prefix(&c).is_some(),
            name: Box::leak(c.name().into_boxed_str()),
        })
        .collect::<Vec<_>>();
    for c in &cols {
        assert!(!c.prefixed || D::prefix(&typed_col::<D>(c.id)) == Some(PREFIX_LEN));
    }
    DescInfo {
        label: D::LABEL,
        cols,
        open: open_inner::<D>,
        with_changes: with_changes_iterator::<D>,
    }
}

/// all strings over ALPHA with length 0..=max
fn strings(max: usize) -> Vec<Bytes> {
    let mut out = vec![vec![]];
    let mut last = vec![vec![]];
    for _ in 0..max {
        let mut next = Vec::new();
        for s in &last {
            for a in ALPHA {
                let mut t: Bytes = s.clone();
                t.push(a);
                next.push(t);
            }
        }
        out.extend(next.iter().cloned());
        last = next;
    }
    out
}

/// 32-byte heads of the keys on prefix-extractor columns: they share prefixes
/// of 1, 15, 16, 30 and 31 bytes but are pairwise different as 32-byte prefixes
fn heads() -> Vec<Bytes> {
    let mut ha = vec![0x11u8; 31];
    ha.push(0xFE);
    let mut hb = vec![0x11u8; 31];
    hb.push(0xFF);
    let mut hc = vec![0x11u8; 30];
    hc.extend([0x12, 0x00]);
    let mut he = vec![0x11u8; 15];
    he.extend([0x22u8; 17]);
    let mut hf = vec![0x11u8];
    hf.extend([0x33u8; 31]);
    let mut hg = vec![0xFFu8; 16];
    hg.extend([0x00u8; 16]);
    let hd = vec![0xFFu8; 32];
    vec![ha, hb, hc, he, hf, hg, hd]
}

struct KeySpace {
    plain: Vec<Bytes>,
    prefixed: Vec<Bytes>,
    /// prefixes shorter than the extractor length, for the prefixed columns
    short_prefixes: Vec<Bytes>,
}

impl KeySpace {
    fn new() -> Self {
        let plain = strings(3);
        let tails = strings(2);
        let mut prefixed = Vec::new();
        for h in heads() {
            for t in &tails {
                let mut k = h.clone();
                k.extend(t);
                prefixed.push(k);
            }
        }
        let short_prefixes = vec![
            vec![],
            vec![0x11],
            vec![0x11; 15],
            vec![0x11; 30],
            vec![0x11; 31],
            vec![0xFF],
            vec![0xFF; 16],
            vec![0xFF; 31],
        ];
        KeySpace {
            plain,
            prefixed,
            short_prefixes,
        }
    }

    fn keys(&self, col: Col) -> &Vec<Bytes> {
        if col.prefixed {
            &self.prefixed
        } else {
            &self.plain
        }
    }
}

enum Store<D: Desc11> {
    Mem(MemoryStore<D>),
    Rocks(RocksDb<D>),
    Hist(HistoricalRocksDB<D>),
}

/// the typed part of a backend
trait Inner: Kv {
    /// Ok(Ok) accepted, Ok(Err) rejected, Err panic
    fn commit(&self, height: Option<u32>, commit: &Commit) -> Result<Result<(), String>, String>;
    fn snapshot(&self) -> Result<Box<dyn Kv>, String>;
    fn reopen(&mut self) -> Result<(), String>;
}

struct InnerImpl<D: Desc11> {
    fam: &'static str,
    policy: Option<StateRewindPolicy>,
    // field order matters: the store is dropped (closed) before its directory
    store: Option<Store<D>>,
    dir: Option<TempDir>,
    cached: bool,
}

struct Backend {
    name: String,
    fam: &'static str,
    policy: Option<StateRewindPolicy>,
    inner: Box<dyn Inner>,
    alive: bool,
    /// the store was closed and reopened at least once (its data went through
    /// WAL replay into SST files)
    reopened: bool,
}

/// `cached == false`: the repo's test configuration (no block cache);
/// `cached == true`: block + row cache as in production configurations
fn cfg(cached: bool) -> DatabaseConfig {
    let mut c = DatabaseConfig::config_for_tests();
    if cached {
        c.cache_capacity = Some(6 * 1024 * 1024);
    }
    c
}

fn open_store<D: Desc11>(fam: &str, policy: Option<StateRewindPolicy>, path: Option<&Path>, cached: bool) -> Result<Store<D>, String> {
    match fam {
        "memory" => Ok(Store::Mem(MemoryStore::<D>::default())),
        "rocksdb" => RocksDb::<D>::default_open(path.unwrap(), cfg(cached))
            .map(Store::Rocks)
            .map_err(|e| format!("{e:?}")),
        _ => HistoricalRocksDB::<D>::default_open(path.unwrap(), policy.unwrap(), cfg(cached))
            .map(Store::Hist)
            .map_err(|e| format!("{e:?}")),
    }
}

fn open_inner<D: Desc11>(
    fam: &'static str,
    policy: Option<StateRewindPolicy>,
    scratch: Option<&Path>,
    cached: bool,
) -> Result<Box<dyn Inner>, String> {
    let dir = if fam == "memory" {
        None
    } else {
        Some(TempDir::new_in(scratch.expect("scratch dir")).map_err(|e| format!("tempdir: {e}"))?)
    };
    if fam != "memory" {
        crumb(OpKind::Open, fam_code(fam), policy_code(policy), 0, 0, None, None);
    }
    let store = open_store::<D>(fam, policy, dir.as_ref().map(|d| d.path()), cached)?;
    Ok(Box::new(InnerImpl::<D> {
        fam,
        policy,
        store: Some(store),
        dir,
        cached,
    }))
}

impl<D: Desc11> InnerImpl<D> {
    fn iterable(&self) -> &dyn IterableStore<Column = D::Column> {
        match self.store.as_ref().expect("open") {
            Store::Mem(s) => s,
            Store::Rocks(s) => s,
            Store::Hist(s) => s,
        }
    }
}

impl<D: Desc11> InnerImpl<D> {
    /// breadcrumb before a call into a RocksDB-based store
    fn mark(&self, op: OpKind, col: u32, dir: u8, a: Option<&[u8]>, b: Option<&[u8]>) {
        if self.fam != "memory" {
            crumb(op, fam_code(self.fam), policy_code(self.policy), col, dir, a, b);
        }
    }
}

impl<D: Desc11> Kv for InnerImpl<D> {
    fn get(&self, col: Col, key: &[u8]) -> GetRes {
        self.mark(OpKind::Read, col.id, 0, Some(key), None);
        typed_get::<D>(self.iterable(), col, key)
    }

    fn reads(&self, col: Col, key: &[u8], offset: usize, buf_len: usize) -> Result<Result<Reads, String>, String> {
        self.mark(OpKind::Read, col.id, 0, Some(key), None);
        typed_reads::<D>(self.iterable(), col, key, offset, buf_len)
    }

    fn iter_kv(&self, col: Col, prefix: Option<&[u8]>, start: Option<&[u8]>, dir: IterDirection) -> IterKv {
        self.mark(OpKind::IterStore, col.id, dir_code(dir), prefix, start);
        typed_iter_kv::<D>(self.iterable(), col, prefix, start, dir)
    }

    fn iter_keys(&self, col: Col, prefix: Option<&[u8]>, start: Option<&[u8]>, dir: IterDirection) -> IterKeys {
        self.mark(OpKind::IterStoreKeys, col.id, dir_code(dir), prefix, start);
        typed_iter_keys::<D>(self.iterable(), col, prefix, start, dir)
    }
}

impl<D: Desc11> Inner for InnerImpl<D> {
    fn commit(&self, height: Option<u32>, commit: &Commit) -> Result<Result<(), String>, String> {
        let changes = commit.to_storage_changes();
        let height = height.map(BlockHeight::from);
        self.mark(OpKind::Commit, 0, 0, None, None);
        catch(|| {
            let r = match self.store.as_ref().expect("open") {
                Store::Mem(s) => TransactableStorage::<BlockHeight>::commit_changes(s, height, changes),
                Store::Rocks(s) => s.commit_changes(&changes),
                Store::Hist(s) => TransactableStorage::<BlockHeight>::commit_changes(s, height, changes),
            };
            r.map_err(|e| format!("{e}"))
        })
    }

    fn snapshot(&self) -> Result<Box<dyn Kv>, String> {
        self.mark(OpKind::LatestView, 0, 0, None, None);
        let view: Box<dyn IterableStore<Column = D::Column>> = match self.store.as_ref().expect("open") {
            Store::Mem(s) => Box::new(TransactableStorage::<BlockHeight>::latest_view(s).map_err(|e| format!("{e}"))?),
            Store::Rocks(s) => Box::new(s.create_snapshot()),
            Store::Hist(s) => Box::new(TransactableStorage::<BlockHeight>::latest_view(s).map_err(|e| format!("{e}"))?),
        };
        Ok(Box::new(OwnedView::<D>(view, fam_code(self.fam), policy_code(self.policy))))
    }

    fn reopen(&mut self) -> Result<(), String> {
        if self.fam == "memory" {
            return Ok(());
        }
        self.mark(OpKind::Reopen, 0, 0, None, None);
        self.store = None; // closes RocksDB (no views are held at this point)
        self.store = Some(open_store::<D>(
            self.fam,
            self.policy,
            self.dir.as_ref().map(|d| d.path()),
            self.cached,
        )?);
        Ok(())
    }
}

impl Backend {
    fn new(desc: &DescInfo, fam: &'static str, policy: Option<StateRewindPolicy>, scratch: &Path, cached: bool) -> Result<Self, String> {
        let inner = (desc.open)(fam, policy, Some(scratch), cached)?;
        let name = match policy {
            None => fam.to_string(),
            Some(StateRewindPolicy::NoRewind) => format!("{fam}(NoRewind)"),
            Some(StateRewindPolicy::RewindFullRange) => format!("{fam}(RewindFullRange)"),
            Some(StateRewindPolicy::RewindRange { size }) => format!("{fam}(RewindRange{size})"),
        };
        Ok(Backend {
            name: format!("{name}<{}>", desc.label),
            fam,
            policy,
            inner,
            alive: true,
            reopened: false,
        })
    }

    fn reopen(&mut self) -> Result<(), String> {
        if self.fam != "memory" {
            self.reopened = true;
        }
        self.inner.reopen()
    }

    fn kv(&self) -> &dyn Kv {
        self.inner.as_ref()
    }

    fn commit(&self, height: Option<u32>, commit: &Commit) -> Result<Result<(), String>, String> {
        self.inner.commit(height, commit)
    }

    fn snapshot(&self) -> Result<Box<dyn Kv>, String> {
        self.inner.snapshot()
    }
}

/// smallest byte string greater than every string with this prefix
fn successor(prefix: &[u8]) -> Option<Bytes> {
    let mut p = prefix.to_vec();
    while let Some(last) = p.pop() {
        if last != 0xFF {
            p.push(last + 1);
            return Some(p);
        }
    }
    None
}

#[derive(Clone)]
struct Params {
    commits: usize,
    pair_queries: usize,
    /// (prefix shorter than the extractor, start) pairs per commit on a
    /// prefix-extractor column
    short_prefix_pairs: usize,
    /// fraction (percent) of the prefix/start families queried per commit
    family_percent: u32,
    /// all five rewind policies in every history (otherwise NoRewind, Full and
    /// one rotating RewindRange size)
    all_policies: bool,
    /// close/reopen rounds per history (each RocksDB reopen costs a WAL replay
    /// with an fsync per column family): thorough = 2 rounds over all backends,
    /// quick = 1 round over the plain RocksDb and one history-keeping backend
    reopen_rounds: usize,
    /// also run (but never judge) the excluded forward short-prefix-only shape
    probe_undefined: bool,
    /// forward prefix-only queries with a prefix shorter than the extractor on
    /// extractor columns: 0 = not executed (undefined / crashing before the
    /// repair of `_iter_store`), 1 = judged for non-empty prefixes, 2 = judged
    short_forward_prefix: u8,
    /// include the empty prefix in that probe (crashes the process)
    probe_undefined_empty: bool,
}

fn params(thorough: bool) -> Params {
    if thorough {
        Params {
            commits: 60,
            pair_queries: 200,
            short_prefix_pairs: 200,
            family_percent: 100,
            all_policies: true,
            reopen_rounds: 2,
            probe_undefined: false,
            probe_undefined_empty: false,
            short_forward_prefix: SHORT_FORWARD_PREFIX_DEFAULT,
        }
    } else {
        Params {
            commits: 40,
            pair_queries: 120,
            short_prefix_pairs: 140,
            family_percent: 100,
            all_policies: false,
            reopen_rounds: 1,
            probe_undefined: false,
            probe_undefined_empty: false,
            short_forward_prefix: SHORT_FORWARD_PREFIX_DEFAULT,
        }
    }
}

struct Ctx<'a> {
    report: &'a Report,
    local: Local,
    selftest: u32,
    shard: usize,
    shard_seed: u64,
    iteration: u64,
    tier: &'static str,
    history: Vec<Json>,
    ks: &'a KeySpace,
    desc: &'a DescInfo,
}

impl Ctx<'_> {
    fn replay(&self) -> Json {
        json!({
            "shard": self.shard,
            "seed": self.shard_seed,
            "iteration": self.iteration,
            "tier": self.tier,
            "db": self.desc.label,
            "ops": self.history,
        })
    }

    fn violation(&mut self, signature: String, detail: String) {
        self.local.count("violations.raised");
        self.report
            .violation(sig(self.selftest, signature), detail, self.replay());
    }
}

fn gen_key(rng: &mut StdRng, ks: &KeySpace, col: Col, hot: &[Bytes]) -> Bytes {
    if !col.prefixed && !hot.is_empty() && chance(rng, 45) {
        return pick(rng, hot).clone();
    }
    pick(rng, ks.keys(col)).clone()
}

fn gen_val(rng: &mut StdRng) -> Bytes {
    let n = *pick(rng, &[0usize, 1, 1, 2, 3, 8]);
    (0..n).map(|_| *pick(rng, &[0u8, 1, 0xAB, 0xFF])).collect()
}

/// keys around one prefix: the prefix itself, extensions, its successor, the
/// buggy-carry neighbour, and the predecessor region
fn hot_keys(rng: &mut StdRng) -> Vec<Bytes> {
    let all = strings(2);
    let p = pick(rng, &all[1..]).clone();
    let mut hot = vec![p.clone()];
    for a in ALPHA {
        let mut e = p.clone();
        e.push(a);
        hot.push(e);
    }
    if let Some(s) = successor(&p) {
        hot.push(s.clone());
        let mut e = s;
        e.push(0x00);
        hot.push(e);
    }
    hot.retain(|k| k.len() <= 3);
    hot
}

fn gen_commit(rng: &mut StdRng, ks: &KeySpace, cols: &[Col], hot: &[Bytes], allow_dup: bool) -> Commit {
    let cols = cols.to_vec();
    let gen_batch = |rng: &mut StdRng, cols: &[Col], n: usize, avoid: &BTreeSet<(u32, Bytes)>| {
        let mut batch = Vec::new();
        let mut used: BTreeSet<(u32, Bytes)> = BTreeSet::new();
        for _ in 0..n {
            let col = *pick(rng, cols);
            let key = gen_key(rng, ks, col, hot);
            if avoid.contains(&(col.id, key.clone())) || !used.insert((col.id, key.clone())) {
                continue;
            }
            let val = if chance(rng, 25) { None } else { Some(gen_val(rng)) };
            batch.push(Op {
                col: col.id,
                key,
                val,
            });
        }
        batch
    };
    if chance(rng, 35) {
        let n = rng.gen_range(0..10);
        return Commit::single(gen_batch(rng, &cols, n, &BTreeSet::new()));
    }
    // a list: 2..4 elements; often over the same one or two columns (overlapping
    // columns, disjoint keys)
    let n_batches = rng.gen_range(2..=4);
    let narrow = chance(rng, 70);
    let sub: Vec<Col> = if narrow {
        let a = *pick(rng, &cols);
        let b = *pick(rng, &cols);
        vec![a, b]
    } else {
        cols.clone()
    };
    let mut avoid = BTreeSet::new();
    let mut batches = Vec::new();
    for _ in 0..n_batches {
        let n = rng.gen_range(1..6);
        let b = gen_batch(rng, &sub, n, &avoid);
        for op in &b {
            avoid.insert((op.col, op.key.clone()));
        }
        batches.push(b);
    }
    if allow_dup {
        // duplicate one (col,key) of the first element in the last one
        if let Some(op) = batches[0].first().cloned() {
            let last = batches.len() - 1;
            batches[last].push(Op {
                col: op.col,
                key: op.key,
                val: Some(vec![0xDD]),
            });
        }
    }
    Commit::list(batches)
}

struct Query {
    prefix: Option<Bytes>,
    start: Option<Bytes>,
    dir: IterDirection,
    /// ask every backend through `iter_store` and `iter_store_keys`
    both_apis: bool,
    /// only observed, never judged (`--probe-undefined 1`)
    info_only: bool,
}

fn mode_of(q: &Query) -> &'static str {
    match (q.prefix.is_some(), q.start.is_some()) {
        (false, false) => "all",
        (true, false) => "prefix",
        (false, true) => "start",
        (true, true) => "prefix+start",
    }
}

fn gen_queries(rng: &mut StdRng, ctx: &mut Ctx, col: Col, colmap: &ColMap, p: &Params) -> Vec<Query> {
    let ks = ctx.ks;
    let both = [IterDirection::Forward, IterDirection::Reverse];
    let mut qs = Vec::new();
    for d in both {
        qs.push(Query {
            prefix: None,
            start: None,
            dir: d,
            both_apis: false,
            info_only: false,
        });
    }
    let keys = ks.keys(col);
    for k in keys {
        if p.family_percent < 100 && !chance(rng, p.family_percent) {
            continue;
        }
        for d in both {
            qs.push(Query {
                prefix: Some(k.clone()),
                start: None,
                dir: d,
                both_apis: false,
            info_only: false,
            });
            qs.push(Query {
                prefix: None,
                start: Some(k.clone()),
                dir: d,
                both_apis: false,
            info_only: false,
            });
        }
    }
    if col.prefixed {
        for sp in &ks.short_prefixes {
            // A forward prefix-ONLY seek with a prefix shorter than the column's
            // fixed prefix extractor makes `_iter_store` seek with
            // `prefix_same_as_start` on an out-of-domain key (RocksDB's
            // FixedPrefixTransform::Transform then reads past the key): the answer
            // is not defined, so this one shape is not executed. The reverse
            // direction (total-order seek) is judged.
            let judged = p.short_forward_prefix == 2 || (p.short_forward_prefix == 1 && !sp.is_empty());
            if judged {
                qs.push(Query {
                    prefix: Some(sp.clone()),
                    start: None,
                    dir: IterDirection::Forward,
                    both_apis: true,
                    info_only: false,
                });
                continue_reverse(&mut qs, sp, both);
                continue;
            }
            ctx.local.count("excluded.forward_prefix_only_shorter_than_extractor");
            if p.probe_undefined && (!sp.is_empty() || p.probe_undefined_empty) {
                qs.push(Query {
                    prefix: Some(sp.clone()),
                    start: None,
                    dir: IterDirection::Forward,
                    both_apis: true,
                    info_only: true,
                });
            }
            continue_reverse(&mut qs, sp, both);
        }
        // (short prefix, start): the prefix is shorter than the extractor, the
        // start key begins with it. With a start of >= 32 bytes the seek key is
        // in the extractor's domain; the answer spans several 32-byte heads.
        let existing: Vec<&Bytes> = colmap.keys().collect();
        for _ in 0..p.short_prefix_pairs {
            let sp = pick(rng, &ks.short_prefixes).clone();
            let d = *pick(rng, &both);
            let roll = rng.gen_range(0..100);
            let start: Option<Bytes> = if roll < 45 {
                // a key that exists in the column
                let c: Vec<&&Bytes> = existing.iter().filter(|k| k.starts_with(&sp)).collect();
                if c.is_empty() { None } else { Some((**pick(rng, &c)).clone()) }
            } else if roll < 80 {
                // any key of the key space (its head may be absent from the column)
                let c: Vec<&Bytes> = keys.iter().filter(|k| k.starts_with(&sp)).collect();
                if c.is_empty() { None } else { Some((*pick(rng, &c)).clone()) }
            } else if roll < 90 {
                // a bare 32-byte head
                let hs = heads();
                let c: Vec<&Bytes> = hs.iter().filter(|k| k.starts_with(&sp)).collect();
                if c.is_empty() { None } else { Some((*pick(rng, &c)).clone()) }
            } else {
                // a start that is itself shorter than the extractor
                let c: Vec<&Bytes> = ks.short_prefixes.iter().filter(|k| k.starts_with(&sp)).collect();
                Some((*pick(rng, &c)).clone())
            };
            let Some(start) = start else { continue };
            debug_assert!(start.starts_with(&sp));
            qs.push(Query {
                prefix: Some(sp),
                start: Some(start),
                dir: d,
                both_apis: true,
            info_only: false,
            });
        }
    }
    // prefix + start pairs (on prefixed columns: prefix of at least 32 bytes)
    let tails = strings(2);
    for _ in 0..p.pair_queries {
        let d = *pick(rng, &both);
        let (prefix, start) = if col.prefixed {
            let h = pick(rng, &heads()).clone();
            let t = pick(rng, &tails).clone();
            let cut = rng.gen_range(0..=t.len());
            let mut pfx = h.clone();
            pfx.extend(&t[..cut]);
            let mut st = h;
            st.extend(&t);
            (pfx, st)
        } else {
            let s = pick(rng, keys).clone();
            let cut = rng.gen_range(0..=s.len());
            (s[..cut].to_vec(), s)
        };
        if chance(rng, 8) {
            // `start` outside `prefix`: backends document "return nothing", the
            // sorted-map reference differs; outside the compared domain.
            ctx.local.count("excluded.start_not_in_prefix");
            continue;
        }
        debug_assert!(start.starts_with(&prefix));
        qs.push(Query {
            prefix: Some(prefix),
            start: Some(start),
            dir: d,
            both_apis: false,
            info_only: false,
        });
    }
    qs
}

/// the always-judged companions of a short prefix on an extractor column:
/// reverse prefix-only and start-only in both directions
fn continue_reverse(qs: &mut Vec<Query>, sp: &Bytes, both: [IterDirection; 2]) {
    qs.push(Query {
        prefix: Some(sp.clone()),
        start: None,
        dir: IterDirection::Reverse,
        both_apis: true,
        info_only: false,
    });
    for d in both {
        qs.push(Query {
            prefix: None,
            start: Some(sp.clone()),
            dir: d,
            both_apis: false,
            info_only: false,
        });
    }
}

fn classify_iter_mismatch(
    b: &Backend,
    col: Col,
    api: &str,
    q: &Query,
    expected_keys: &[Bytes],
    observed_keys: &[Bytes],
    colmap: &ColMap,
) -> String {
    let mode = mode_of(q);
    if b.fam != "memory"
        && mode == "prefix"
        && q.dir == IterDirection::Reverse
        && observed_keys.is_empty()
        && !expected_keys.is_empty()
    {
        let prefix = q.prefix.as_ref().unwrap();
        let trailing_ff = prefix.last() == Some(&0xFF) && prefix.iter().any(|b| *b != 0xFF);
        if trailing_ff {
            return format!(
                "reverse_prefix_iter_missing_entries backend={} cause=prefix_ends_with_0xff",
                b.fam
            );
        }
        if let Some(s) = successor(prefix) {
            if colmap.contains_key(&s) {
                return format!(
                    "reverse_prefix_iter_missing_entries backend={} cause=successor_key_present",
                    b.fam
                );
            }
        }
    }
    // On a column with a fixed prefix extractor, a (prefix shorter than the
    // extractor, start >= extractor length) query seeks in RocksDB's prefix mode
    // (no total-order seek): once the data lives in SST files (after a reopen) the
    // iterator is only defined inside the 32-byte prefix of the seek key and
    // entries of other heads go missing. One defect, one signature.
    if b.fam != "memory"
        && b.reopened
        && short_prefix_shape(col, q) == Some("short_prefix_long_start")
        && observed_keys.len() < expected_keys.len()
        && is_subsequence(observed_keys, expected_keys)
    {
        return format!(
            "prefix_start_iter_misses_entries_outside_seek_key_extractor_prefix backend={} data=sst_after_reopen",
            b.fam
        );
    }
    if b.fam != "memory"
        && col.prefixed
        && mode == "prefix"
        && q.dir == IterDirection::Forward
        && q.prefix.as_ref().map(|p| p.len() < PREFIX_LEN).unwrap_or(false)
        && observed_keys.is_empty()
        && !expected_keys.is_empty()
    {
        return format!(
            "forward_prefix_iter_empty_for_prefix_shorter_than_extractor backend={}",
            b.fam
        );
    }
    let shape = match short_prefix_shape(col, q) {
        Some(shape) => format!(
            " shape={shape} reopened={}",
            if b.reopened { "yes" } else { "no" }
        ),
        None => String::new(),
    };
    format!(
        "iter_mismatch backend={} api={} mode={} dir={}{}",
        b.fam,
        api,
        mode,
        dir_str(q.dir),
        shape
    )
}

/// selftest 4: what an iterator bounded by the 32-byte extractor prefix of the
/// seek key would return
fn bound_to_seek_head<T>(items: &mut Vec<T>, start: Option<&[u8]>, key: impl Fn(&T) -> &Bytes) {
    if let Some(s) = start {
        if s.len() >= PREFIX_LEN {
            items.retain(|i| key(i).starts_with(&s[..PREFIX_LEN]));
        }
    }
}

/// queries on a prefix-extractor column whose prefix is shorter than the extractor
fn short_prefix_shape(col: Col, q: &Query) -> Option<&'static str> {
    if !col.prefixed {
        return None;
    }
    match (&q.prefix, &q.start) {
        (Some(p), Some(s)) if p.len() < PREFIX_LEN => Some(if s.len() >= PREFIX_LEN {
            "short_prefix_long_start"
        } else {
            "short_prefix_short_start"
        }),
        _ => None,
    }
}

fn is_subsequence(sub: &[Bytes], all: &[Bytes]) -> bool {
    let mut it = all.iter();
    sub.iter().all(|k| it.any(|a| a == k))
}

fn distinct_heads(keys: &[Bytes]) -> usize {
    keys.iter()
        .filter(|k| k.len() >= PREFIX_LEN)
        .map(|k| &k[..PREFIX_LEN])
        .collect::<BTreeSet<_>>()
        .len()
}

#[allow(clippy::too_many_arguments)]
fn run_queries(rng: &mut StdRng, ctx: &mut Ctx, backends: &[Backend], model: &Model, col: Col, p: &Params) {
    let colmap = model.col(col.id);
    let col_hash = hash64(&colmap);
    let qs = gen_queries(rng, ctx, col, &colmap, p);
    let prefixed = col.prefixed;
    for q in &qs {
        let expected = model_iter(&colmap, q.prefix.as_deref(), q.start.as_deref(), q.dir);
        let expected_keys: Vec<Bytes> = expected.iter().map(|(k, _)| k.clone()).collect();
        let mode = mode_of(q);
        let nontrivial = !expected.is_empty() && expected.len() < colmap.len();
        if nontrivial {
            ctx.local
                .distinct
                .push(hash64(&(col_hash, &q.prefix, &q.start, q.dir == IterDirection::Forward)));
        }
        let ck = format!(
            "queries.{}.{}{}",
            mode,
            dir_str(q.dir),
            if expected.is_empty() { ".empty" } else { ".nonempty" }
        );
        if prefixed {
            ctx.local.count("queries.on_prefix_extractor_column");
        }
        if prefixed
            && mode == "prefix"
            && q.dir == IterDirection::Forward
            && q.prefix.as_ref().map(|p| p.len() < PREFIX_LEN).unwrap_or(false)
            && !q.info_only
            && !expected.is_empty()
        {
            ctx.local.count("queries.short_prefix_only.forward.nonempty");
        }
        let shape = short_prefix_shape(col, q);
        if let Some(shape) = shape {
            ctx.local.count(&format!(
                "queries.{shape}.{}{}",
                dir_str(q.dir),
                if expected.is_empty() { ".empty" } else { ".nonempty" }
            ));
            if distinct_heads(&expected_keys) >= 2 {
                // the answer crosses 32-byte extractor prefixes
                ctx.local
                    .count(&format!("queries.{shape}.{}.spanning_heads", dir_str(q.dir)));
            }
        }
        if mode == "prefix" && q.dir == IterDirection::Reverse && !expected.is_empty() {
            let prefix = q.prefix.as_ref().unwrap();
            if prefix.last() == Some(&0xFF) {
                ctx.local.count("queries.reverse_prefix.nonempty.prefix_ends_with_ff");
            }
            if successor(prefix).map(|s| colmap.contains_key(&s)).unwrap_or(false) {
                ctx.local.count("queries.reverse_prefix.nonempty.successor_key_present");
            }
        }
        let use_keys_api = chance(rng, 50);
        if q.info_only {
            for b in backends.iter().filter(|b| b.alive && b.fam != "memory") {
                let k = match b.kv().iter_keys(col, q.prefix.as_deref(), q.start.as_deref(), q.dir) {
                    Ok(Ok(k)) if k == expected_keys => "as_model",
                    Ok(Ok(k)) if k.is_empty() => "empty_although_entries_exist",
                    Ok(Ok(_)) => "other_mismatch",
                    _ => "error_or_panic",
                };
                ctx.local
                    .count(&format!("info.forward_prefix_only_shorter_than_extractor.{}.{k}", b.fam));
            }
            continue;
        }
        for b in backends.iter().filter(|b| b.alive) {
            let s = b.kv();
            // memory: both APIs; RocksDB-based: one of them per query
            let apis: &[bool] = if b.fam == "memory" || q.both_apis {
                &[false, true]
            } else if use_keys_api {
                &[true]
            } else {
                &[false]
            };
            for keys_api in apis {
                ctx.local.evals += 1;
                ctx.local.count(&ck);
                let api = if *keys_api { "iter_store_keys" } else { "iter_store" };
                let (observed_keys, observed_kv): (Vec<Bytes>, Option<Vec<(Bytes, Bytes)>>) = if *keys_api {
                    match s.iter_keys(col, q.prefix.as_deref(), q.start.as_deref(), q.dir) {
                        Ok(Ok(mut k)) => {
                            if ctx.selftest == 4 && b.fam != "memory" && shape.is_some() {
                                bound_to_seek_head(&mut k, q.start.as_deref(), |k| k);
                            }
                            if ctx.selftest == 1 && b.fam == "rocksdb" && mode == "start" && !k.is_empty() {
                                k.pop();
                            }
                            (k, None)
                        }
                        Ok(Err(e)) => {
                            let d = format!("{} {} returned an error item: {e}", b.name, api);
                            ctx.violation(format!("iter_error backend={} api={api}", b.fam), d);
                            continue;
                        }
                        Err(p) => {
                            let d = format!(
                                "{} {api}(col={}, prefix={}, start={}, {}) panicked: {p}",
                                b.name,
                                col.name,
                                hex_opt(q.prefix.as_deref()),
                                hex_opt(q.start.as_deref()),
                                dir_str(q.dir)
                            );
                            ctx.violation(
                                format!("iter_panicked backend={} mode={} dir={}", b.fam, mode, dir_str(q.dir)),
                                d,
                            );
                            continue;
                        }
                    }
                } else {
                    match s.iter_kv(col, q.prefix.as_deref(), q.start.as_deref(), q.dir) {
                        Ok(Ok(mut kv)) => {
                            if ctx.selftest == 4 && b.fam != "memory" && shape.is_some() {
                                bound_to_seek_head(&mut kv, q.start.as_deref(), |e| &e.0);
                            }
                            if ctx.selftest == 3
                                && b.fam == "memory"
                                && q.dir == IterDirection::Reverse
                                && kv.len() >= 2
                            {
                                kv.swap(0, 1);
                            }
                            (kv.iter().map(|(k, _)| k.clone()).collect(), Some(kv))
                        }
                        Ok(Err(e)) => {
                            let d = format!("{} {} returned an error item: {e}", b.name, api);
                            ctx.violation(format!("iter_error backend={} api={api}", b.fam), d);
                            continue;
                        }
                        Err(p) => {
                            let d = format!(
                                "{} {api}(col={}, prefix={}, start={}, {}) panicked: {p}",
                                b.name,
                                col.name,
                                hex_opt(q.prefix.as_deref()),
                                hex_opt(q.start.as_deref()),
                                dir_str(q.dir)
                            );
                            ctx.violation(
                                format!("iter_panicked backend={} mode={} dir={}", b.fam, mode, dir_str(q.dir)),
                                d,
                            );
                            continue;
                        }
                    }
                };
                let ok = match &observed_kv {
                    Some(kv) => *kv == expected,
                    None => observed_keys == expected_keys,
                };
                if !ok {
                    let signature = classify_iter_mismatch(b, col, api, q, &expected_keys, &observed_keys, &colmap);
                    let all_keys: Vec<Bytes> = colmap.keys().cloned().collect();
                    let detail = format!(
                        "{} {api}(col={}, prefix={}, start={}, {}): expected {} observed {}; column keys {}",
                        b.name,
                        col.name,
                        hex_opt(q.prefix.as_deref()),
                        hex_opt(q.start.as_deref()),
                        dir_str(q.dir),
                        match &observed_kv {
                            Some(_) => hex_kvs(&expected),
                            None => hex_keys(&expected_keys),
                        },
                        match &observed_kv {
                            Some(kv) => hex_kvs(kv),
                            None => hex_keys(&observed_keys),
                        },
                        hex_keys(&all_keys),
                    );
                    ctx.violation(signature, detail);
                }
            }
        }
    }
}

/// `ChangesIterator` (the view of one change set used by the height lookup of
/// commits and by the off-chain worker) iterates the inserted entries of a
/// single `Changes` like a sorted map.
fn check_changes_iterator(rng: &mut StdRng, ctx: &mut Ctx, commit: &Commit) {
    let changes = commit.to_storage_changes();
    let with_changes = ctx.desc.with_changes;
    let cols = ctx.desc.cols.clone();
    with_changes(&changes, &mut |it: &dyn Kv| {
        check_changes_iterator_on(rng, ctx, commit, &cols, it);
    });
}

fn check_changes_iterator_on(rng: &mut StdRng, ctx: &mut Ctx, commit: &Commit, cols: &[Col], it: &dyn Kv) {
    let mut inserted = Model::default();
    for op in commit.ops() {
        inserted.apply_op(op);
    }
    let both = [IterDirection::Forward, IterDirection::Reverse];
    let touched: BTreeSet<u32> = commit.ops().map(|o| o.col).collect();
    for col in cols.iter().copied() {
        if !touched.contains(&col.id) {
            continue;
        }
        let colmap = inserted.col(col.id);
        let mut queries: Vec<Query> = Vec::new();
        for d in both {
            queries.push(Query {
                prefix: None,
                start: None,
                dir: d,
                both_apis: true,
            info_only: false,
            });
        }
        let candidates: Vec<Bytes> = commit
            .ops()
            .filter(|o| o.col == col.id)
            .map(|o| o.key.clone())
            .collect();
        for _ in 0..10 {
            let k = pick(rng, &candidates).clone();
            let cut = rng.gen_range(0..=k.len());
            let d = *pick(rng, &both);
            let q = match rng.gen_range(0..3) {
                0 => Query {
                    prefix: Some(k[..cut].to_vec()),
                    start: None,
                    dir: d,
                    both_apis: true,
            info_only: false,
                },
                1 => Query {
                    prefix: None,
                    start: Some(k.clone()),
                    dir: d,
                    both_apis: true,
            info_only: false,
                },
                _ => Query {
                    prefix: Some(k[..cut].to_vec()),
                    start: Some(k.clone()),
                    dir: d,
                    both_apis: true,
            info_only: false,
                },
            };
            queries.push(q);
        }
        for q in &queries {
            let expected = model_iter(&colmap, q.prefix.as_deref(), q.start.as_deref(), q.dir);
            let expected_keys: Vec<Bytes> = expected.iter().map(|(k, _)| k.clone()).collect();
            ctx.local.evals += 2;
            ctx.local.add("changes_iterator.queries", 2);
            let kv = it.iter_kv(col, q.prefix.as_deref(), q.start.as_deref(), q.dir);
            let keys = it.iter_keys(col, q.prefix.as_deref(), q.start.as_deref(), q.dir);
            let ok = matches!(&kv, Ok(Ok(o)) if *o == expected) && matches!(&keys, Ok(Ok(o)) if *o == expected_keys);
            if !ok {
                let d = format!(
                    "ChangesIterator over {} (col={}, prefix={}, start={}, {}): expected {} observed iter_store={:?} iter_store_keys={:?}",
                    commit.to_json(),
                    col.name,
                    hex_opt(q.prefix.as_deref()),
                    hex_opt(q.start.as_deref()),
                    dir_str(q.dir),
                    hex_kvs(&expected),
                    kv.map(|r| r.map(|o| hex_kvs(&o))),
                    keys.map(|r| r.map(|o| hex_keys(&o))),
                );
                ctx.violation(
                    format!(
                        "iter_mismatch backend=changes_iterator mode={} dir={}",
                        mode_of(q),
                        dir_str(q.dir)
                    ),
                    d,
                );
            }
        }
        for op in commit.ops().filter(|o| o.col == col.id) {
            ctx.local.evals += 1;
            let expected = inserted.get(col.id, &op.key);
            match it.get(col, &op.key) {
                Ok(Ok(o)) if o.as_ref() == expected => {}
                other => {
                    let d = format!(
                        "ChangesIterator over {}: get(col {}, [{}]) = {:?}, expected {}",
                        commit.to_json(),
                        col.name,
                        hexs(&op.key),
                        other,
                        hex_opt(expected.map(|v| v.as_slice()))
                    );
                    ctx.violation("get_mismatch backend=changes_iterator".to_string(), d);
                }
            }
        }
    }
}

/// every read method for every key of `keys` against the model; `who`
/// names the store in details, `sig_target` goes into signatures
#[allow(clippy::too_many_arguments)]
fn probe_reads(
    ctx: &mut Ctx,
    s: &dyn Kv,
    who: &str,
    sig_target: &str,
    col: Col,
    keys: &[Bytes],
    model: &Model,
    corrupt_exists: bool,
) {
    let mut corrupt = corrupt_exists;
    for (i, k) in keys.iter().enumerate() {
        ctx.local.evals += 5;
        ctx.local.count("point_reads");
        let expected = model.get(col.id, k);
        let len = expected.map(|v| v.len()).unwrap_or(0);
        let (offset, buf_len) = read_case(ctx.local.evals.wrapping_add(i as u64), len);
        match s.reads(col, k, offset, buf_len) {
            Ok(Ok(mut o)) => {
                if corrupt && o.exists {
                    corrupt = false;
                    o.exists = false;
                }
                let want = expected_reads(expected, offset, buf_len);
                let d = diff_reads(&want, &o);
                if let Some((method, _)) = d.first() {
                    let text = d.iter().map(|x| x.1.clone()).collect::<Vec<_>>().join("; ");
                    let detail = format!(
                        "{who} col {} key [{}] (offset {offset}, buffer {buf_len}): {text}",
                        col.name,
                        hexs(k)
                    );
                    let signature = if want.get != o.get {
                        format!("get_mismatch {sig_target}")
                    } else {
                        format!("read_method_disagrees_with_get method={method} {sig_target}")
                    };
                    ctx.violation(signature, detail);
                }
            }
            Ok(Err(e)) | Err(e) => {
                let d = format!("{who} reading col {} key [{}] failed: {e}", col.name, hexs(k));
                ctx.violation(format!("get_failed {sig_target}"), d);
            }
        }
    }
}

/// prefix / start / direction queries through a held snapshot
fn check_snapshot_queries(rng: &mut StdRng, ctx: &mut Ctx, snap: &dyn Kv, b: &Backend, col: Col, snap_model: &Model) {
    let colmap = snap_model.col(col.id);
    let keys = ctx.ks.keys(col);
    let both = [IterDirection::Forward, IterDirection::Reverse];
    for _ in 0..24 {
        let k = pick(rng, keys).clone();
        let min_cut = if col.prefixed { PREFIX_LEN } else { 0 };
        let cut = rng.gen_range(min_cut..=k.len());
        let d = *pick(rng, &both);
        let (prefix, start) = match rng.gen_range(0..3) {
            0 => (Some(k[..cut].to_vec()), None),
            1 => (None, Some(k.clone())),
            _ => (Some(k[..cut].to_vec()), Some(k.clone())),
        };
        let expected = model_iter(&colmap, prefix.as_deref(), start.as_deref(), d);
        let expected_keys: Vec<Bytes> = expected.iter().map(|(k, _)| k.clone()).collect();
        ctx.local.evals += 2;
        ctx.local.add("snapshot_view.queries", 2);
        let kv = snap.iter_kv(col, prefix.as_deref(), start.as_deref(), d);
        let ks_ = snap.iter_keys(col, prefix.as_deref(), start.as_deref(), d);
        let ok = matches!(&kv, Ok(Ok(o)) if *o == expected) && matches!(&ks_, Ok(Ok(o)) if *o == expected_keys);
        if !ok {
            let detail = format!(
                "{}: held latest_view, col {} prefix={} start={} {}: expected {} observed iter_store={:?} iter_store_keys={:?}",
                b.name,
                col.name,
                hex_opt(prefix.as_deref()),
                hex_opt(start.as_deref()),
                dir_str(d),
                hex_kvs(&expected),
                kv.map(|r| r.map(|o| hex_kvs(&o))),
                ks_.map(|r| r.map(|o| hex_keys(&o))),
            );
            ctx.violation(
                format!("snapshot_view_iter_mismatch backend={} dir={}", b.fam, dir_str(d)),
                detail,
            );
        }
    }
}

fn read_col(b: &Backend, col: Col) -> Result<ColMap, String> {
    match b.kv().iter_kv(col, None, None, IterDirection::Forward) {
        Ok(Ok(kv)) => Ok(kv.into_iter().collect()),
        Ok(Err(e)) => Err(format!("error item: {e}")),
        Err(p) => Err(format!("panic: {p}")),
    }
}

/// compare every used column of `b` with the model; returns the differing
/// (col, key, expected, observed) tuples
#[allow(clippy::type_complexity)]
fn content_diff(b: &Backend, cols: &[Col], model: &Model) -> Result<Vec<(u32, Bytes, Option<Bytes>, Option<Bytes>)>, String> {
    let mut diffs = Vec::new();
    for col in cols.iter().copied() {
        let observed = read_col(b, col)?;
        let expected = model.col(col.id);
        let keys: BTreeSet<&Bytes> = observed.keys().chain(expected.keys()).collect();
        for k in keys {
            let e = expected.get(k);
            let o = observed.get(k);
            if e != o {
                diffs.push((col.id, k.clone(), e.cloned(), o.cloned()));
            }
        }
    }
    Ok(diffs)
}

fn fmt_diffs(diffs: &[(u32, Bytes, Option<Bytes>, Option<Bytes>)]) -> String {
    diffs
        .iter()
        .take(12)
        .map(|(c, k, e, o)| {
            format!(
                "col {} key [{}]: expected {} observed {}",
                c,
                hexs(k),
                hex_opt(e.as_deref()),
                hex_opt(o.as_deref())
            )
        })
        .collect::<Vec<_>>()
        .join("; ")
}

#[allow(clippy::too_many_arguments)]
fn run_history(args: &Args, report: &Report, ks: &KeySpace, descs: &[DescInfo], shard: usize, shard_seed: u64, iteration: u64, p: &Params, selftest: u32) {
    let mut rng = rng_for(shard_seed, &[iteration]);
    proc::crumb_history(iteration);
    // two of three histories over the on-chain description, one over off-chain
    let desc = &descs[if (iteration as usize + shard) % 3 == 2 { 1 } else { 0 }];
    let cols = desc.cols.clone();
    let mut ctx = Ctx {
        report,
        local: Local::default(),
        selftest,
        shard,
        shard_seed,
        iteration,
        tier: args.tier_str(),
        history: Vec::new(),
        ks,
        desc,
    };
    ctx.local.count(&format!("histories.{}", desc.label));
    let policies = [
        StateRewindPolicy::NoRewind,
        StateRewindPolicy::RewindFullRange,
        StateRewindPolicy::RewindRange {
            size: NonZeroU64::new(1).unwrap(),
        },
        StateRewindPolicy::RewindRange {
            size: NonZeroU64::new(2).unwrap(),
        },
        StateRewindPolicy::RewindRange {
            size: NonZeroU64::new(5).unwrap(),
        },
    ];
    let cached = chance(&mut rng, 50);
    ctx.local
        .count(if cached { "histories.with_block_cache" } else { "histories.without_block_cache" });
    let mut backends = Vec::new();
    let mut specs: Vec<(&'static str, Option<StateRewindPolicy>)> = vec![("memory", None), ("rocksdb", None)];
    for (i, pol) in policies.into_iter().enumerate() {
        // RocksDB opens are expensive (fsync per column family); the quick tier
        // rotates the RewindRange size instead of opening all three
        if p.all_policies || i < 2 || i == 2 + ((iteration as usize + shard) % 3) {
            specs.push(("historical", Some(pol)));
        }
    }
    for (fam, pol) in specs {
        let t0 = std::time::Instant::now();
        let opened = Backend::new(desc, fam, pol, &args.scratch, cached);
        ctx.local.add("time_us.open", t0.elapsed().as_micros() as u64);
        match opened {
            Ok(b) => backends.push(b),
            Err(e) => {
                report.inconclusive(format!("cannot open backend {fam}: {e}"));
                return;
            }
        }
    }
    let mut model = Model::default();
    let mut height: u32 = rng.gen_range(0..3);
    let hot = hot_keys(&mut rng);
    let conflict_history = chance(&mut rng, 6);
    // two reopen rounds per history, somewhere in the second and last third
    let reopen_at: Vec<usize> = if p.reopen_rounds >= 2 {
        vec![
            rng.gen_range(p.commits / 3..2 * p.commits / 3),
            rng.gen_range(2 * p.commits / 3..p.commits - 2),
        ]
    } else {
        vec![rng.gen_range(p.commits / 3..p.commits - 5)]
    };
    let reopen_pick = rng.gen_range(0..8usize);
    // (backend index, snapshot, model at snapshot time)
    let mut snapshots: Vec<(usize, Box<dyn Kv>, Model)> = Vec::new();
    let mut sampled = false;

    for step in 0..p.commits {
        let is_last = step + 1 == p.commits;
        proc::crumb_step(step);
        if selftest == 9 && shard == 0 && step == 5 {
            // selftest: the process dies inside a "backend call"
            crumb(OpKind::IterStore, proc::FAM_ROCKSDB, 0, cols[0].id, 1, Some(&[0x11]), None);
            std::process::abort();
        }
        let dup = conflict_history && is_last;
        let commit = gen_commit(&mut rng, ks, &cols, &hot, dup);
        let with_height = !chance(&mut rng, 15);
        let h = if with_height {
            height += 1;
            Some(height)
        } else {
            None
        };
        ctx.history.push(json!({"height": h, "commit": commit.to_json()}));
        let before = model.clone();
        let overlapping = commit.overlapping_columns();
        ctx.local.count(if commit.list { "commits.list" } else { "commits.single" });
        if !overlapping.is_empty() {
            ctx.local.count("commits.list_with_overlapping_columns");
        }
        ctx.local.count(if h.is_some() { "commits.with_height" } else { "commits.without_height" });

        if dup {
            // outside the compared domain: only information is recorded
            ctx.local.count("excluded.commit_with_duplicate_key_in_list");
            for b in backends.iter().filter(|b| b.alive) {
                let r = b.commit(h, &commit);
                let k = match r {
                    Ok(Ok(())) => "accepted",
                    Ok(Err(_)) => "rejected",
                    Err(_) => "panicked",
                };
                ctx.local.count(&format!("info.duplicate_key_commit.{}.{}", b.name, k));
                if let Ok(d) = content_diff(b, &cols, &before) {
                    if !d.is_empty() {
                        ctx.local
                            .count(&format!("info.duplicate_key_commit.{}.content_changed", b.name));
                    }
                }
            }
            break;
        }

        model.apply(&commit);
        if !commit.list {
            check_changes_iterator(&mut rng, &mut ctx, &commit);
        }
        for i in 0..backends.len() {
            if !backends[i].alive {
                continue;
            }
            let effective = if selftest == 2
                && backends[i].policy == Some(StateRewindPolicy::NoRewind)
                && commit.batches.len() >= 2
            {
                let mut c = commit.clone();
                c.batches.pop();
                c
            } else {
                commit.clone()
            };
            let b = &backends[i];
            ctx.local.evals += 1;
            let t0 = std::time::Instant::now();
            let committed = b.commit(h, &effective);
            ctx.local.add("time_us.commit", t0.elapsed().as_micros() as u64);
            match committed {
                Ok(Ok(())) => {
                    ctx.local.count("commits.accepted");
                }
                Ok(Err(e)) => {
                    let d = format!(
                        "{} rejected a commit without duplicate keys (height {:?}): {e}; commit {}",
                        b.name,
                        h,
                        commit.to_json()
                    );
                    ctx.violation(format!("commit_rejected backend={}", b.fam), d);
                }
                Err(pn) => {
                    let d = format!("{} panicked in commit_changes (height {:?}): {pn}", b.name, h);
                    ctx.violation(format!("commit_panicked backend={}", b.fam), d);
                    backends[i].alive = false;
                    continue;
                }
            }
            // contents after the commit
            let t0 = std::time::Instant::now();
            let diffed = content_diff(b, &cols, &model);
            ctx.local.add("time_us.content_check", t0.elapsed().as_micros() as u64);
            match diffed {
                Err(e) => {
                    let d = format!("{}: reading the contents failed: {e}", b.name);
                    ctx.violation(format!("content_read_failed backend={}", b.fam), d);
                    backends[i].alive = false;
                }
                Ok(diffs) if diffs.is_empty() => {}
                Ok(diffs) => {
                    let lost_same_column_write = b.fam == "historical"
                        && b.policy != Some(StateRewindPolicy::NoRewind)
                        && h.is_some()
                        && commit.list
                        && diffs.iter().all(|(c, k, _, o)| {
                            overlapping.contains(c) && o.as_ref() == before.get(*c, k)
                        });
                    let signature = if lost_same_column_write {
                        "changes_list_same_column_write_lost backend=historical".to_string()
                    } else {
                        format!("content_mismatch_after_commit backend={}", b.fam)
                    };
                    let d = format!(
                        "{} after commit at height {:?}: {}; commit {}",
                        b.name,
                        h,
                        fmt_diffs(&diffs),
                        commit.to_json()
                    );
                    ctx.violation(signature, d);
                    // bring the backend back in line so the history can go on
                    let fix: Batch = diffs
                        .iter()
                        .map(|(c, k, e, _)| Op {
                            col: *c,
                            key: k.clone(),
                            val: e.clone(),
                        })
                        .collect();
                    let resynced = matches!(b.commit(None, &Commit::single(fix)), Ok(Ok(())))
                        && content_diff(b, &cols, &model).map(|d| d.is_empty()).unwrap_or(false);
                    if resynced {
                        ctx.local.count("harness.backend_resynced_after_mismatch");
                    } else {
                        ctx.local.count("harness.backend_dropped_after_mismatch");
                        backends[i].alive = false;
                    }
                }
            }
        }

        // snapshots taken before this commit must still show the old contents
        for (bi, snap, snap_model) in snapshots.drain(..) {
            let b = &backends[bi];
            // every read method and a sample of queries through the held snapshot
            let pcol = cols[(step + 1) % cols.len()];
            ctx.local.count("snapshot_view.probed");
            probe_reads(
                &mut ctx,
                snap.as_ref(),
                &format!("{} (latest_view held over commit #{step})", b.name),
                &format!("backend={} view=held_snapshot", b.fam),
                pcol,
                ks.keys(pcol),
                &snap_model,
                selftest == 5 && b.fam == "rocksdb",
            );
            check_snapshot_queries(&mut rng, &mut ctx, snap.as_ref(), b, pcol, &snap_model);
            for col in cols.iter().copied() {
                ctx.local.evals += 1;
                ctx.local.count("snapshot_view.column_checks");
                let expected: Vec<(Bytes, Bytes)> = snap_model.col(col.id).into_iter().collect();
                match snap.iter_kv(col, None, None, IterDirection::Forward) {
                    Ok(Ok(kv)) if kv == expected => {}
                    Ok(Ok(kv)) => {
                        let d = format!(
                            "{}: latest_view taken before commit #{step} shows col {} = {} after the commit, expected the old contents {}",
                            b.name,
                            col.name,
                            hex_kvs(&kv),
                            hex_kvs(&expected)
                        );
                        ctx.violation(format!("snapshot_view_changed_by_later_commit backend={}", b.fam), d);
                    }
                    Ok(Err(e)) | Err(e) => {
                        let d = format!("{}: iterating a held latest_view failed: {e}", b.name);
                        ctx.violation(format!("snapshot_view_read_failed backend={}", b.fam), d);
                    }
                }
            }
        }

        // point reads + queries on a rotating column
        let col = cols[(step + iteration as usize) % cols.len()];
        for b in backends.iter().filter(|b| b.alive) {
            probe_reads(
                &mut ctx,
                b.kv(),
                &b.name,
                &format!("backend={}", b.fam),
                col,
                ks.keys(col),
                &model,
                false,
            );
        }
        let t0 = std::time::Instant::now();
        run_queries(&mut rng, &mut ctx, &backends, &model, col, p);
        ctx.local.add("time_us.queries", t0.elapsed().as_micros() as u64);

        if !sampled && report.wants_sample() && step == 3 {
            sampled = true;
            report.sample(json!({
                "shard": shard, "iteration": iteration,
                "first_commits": ctx.history.clone(),
                "db": desc.label,
                "queried_column": col.name,
                "column_keys_after_commit_3": model.col(col.id).keys().map(|k| hexs(k)).collect::<Vec<_>>(),
            }));
        }

        // reopen the RocksDB-based backends now and then (moves data from the
        // memtable/WAL into SST files with bloom filters)
        if !is_last && reopen_at.contains(&step) {
            ctx.local.count("reopen_rounds");
            let n_hist = backends.iter().filter(|b| b.fam == "historical").count().max(1);
            let mut hist_idx = 0;
            for b in backends.iter_mut().filter(|b| b.alive) {
                if b.fam == "historical" {
                    hist_idx += 1;
                    if p.reopen_rounds < 2 && (hist_idx - 1) != reopen_pick % n_hist {
                        continue;
                    }
                }
                if b.fam != "memory" {
                    ctx.local.count(&format!("reopens.{}", b.fam));
                }
                let t0 = std::time::Instant::now();
                let reopened = b.reopen();
                ctx.local.add("time_us.reopen", t0.elapsed().as_micros() as u64);
                if let Err(e) = reopened {
                    report.inconclusive(format!("reopen of {} failed: {e}", b.name));
                    b.alive = false;
                }
            }
        } else if !is_last && chance(&mut rng, 35) {
            for (i, b) in backends.iter().enumerate().filter(|(_, b)| b.alive) {
                match b.snapshot() {
                    Ok(s) => {
                        ctx.local.count("snapshot_view.taken");
                        snapshots.push((i, s, model.clone()));
                    }
                    Err(e) => {
                        let d = format!("{}: latest_view failed: {e}", b.name);
                        ctx.violation(format!("latest_view_failed backend={}", b.fam), d);
                    }
                }
            }
        }
    }
    drop(snapshots);
    ctx.local.count("histories");
    ctx.local.flush(report);
}

/// Runs in a child process (`--child <shard>`, see `proc`): one shard, or the
/// one history of a replay.
pub fn run(args: &Args, report: &Report) {
    let selftest = selftest_mode(args);
    let ks = KeySpace::new();
    if let Some(r) = read_replay(args) {
        let shard_seed = r["seed"].as_u64().unwrap_or(0);
        let iteration = r["iteration"].as_u64().unwrap_or(0);
        let shard = r["shard"].as_u64().unwrap_or(0) as usize;
        let p = params(r["tier"].as_str() == Some("thorough"));
        let descs = [desc_info::<OnChain>(), desc_info::<OffChain>()];
        run_history(args, report, &ks, &descs, shard, shard_seed, iteration, &p, selftest);
        finish(args, report, selftest, true);
        return;
    }
    let mut p = params(args.is_thorough());
    p.probe_undefined = args.extra.contains_key("probe-undefined");
    if let Some(v) = args.extra.get("short-forward-prefix").and_then(|v| v.parse().ok()) {
        p.short_forward_prefix = v;
    }
    p.probe_undefined_empty = args.extra.get("probe-undefined").map(|v| v == "2").unwrap_or(false);
    let per_shard: u64 = args
        .extra
        .get("per-shard")
        .and_then(|s| s.parse().ok())
        .unwrap_or(args.by_tier(2, 8));
    let shard = proc::child_shard(args).unwrap_or(0);
    proc::run_child_shard(report, args, shard, |shard, shard_seed| {
        let descs = [desc_info::<OnChain>(), desc_info::<OffChain>()];
        for it in 0..per_shard {
            run_history(args, report, &ks, &descs, shard, shard_seed, it, &p, selftest);
        }
    });
    finish(args, report, selftest, false);
}

/// child: writes the partial result; parent: thresholds, self-test check and
/// the merged result
pub fn finish(args: &Args, report: &Report, selftest: u32, replay: bool) {
    if proc::child_shard(args).is_some() {
        proc::child_finish(args);
        report.finish(args, "exploration", "", false, &[]);
        return;
    }
    if !replay {
        let t = |q: u64, th: u64| args.by_tier(q, th);
        report.require("histories", t(24, 100));
        report.require("commits.list_with_overlapping_columns", t(300, 1500));
        report.require("queries.prefix.reverse.nonempty", t(80_000, 400_000));
        report.require("queries.prefix.forward.nonempty", t(80_000, 400_000));
        report.require("queries.start.reverse.nonempty", t(300_000, 1_500_000));
        report.require("queries.start.forward.nonempty", t(300_000, 1_500_000));
        report.require("queries.prefix+start.forward.nonempty", t(60_000, 300_000));
        report.require("queries.prefix+start.reverse.nonempty", t(60_000, 300_000));
        report.require("queries.reverse_prefix.nonempty.prefix_ends_with_ff", t(2_000, 10_000));
        report.require("queries.reverse_prefix.nonempty.successor_key_present", t(1_000, 5_000));
        report.require("queries.on_prefix_extractor_column", t(50_000, 250_000));
        report.require("reopen_rounds", t(24, 200));
        report.require("snapshot_view.column_checks", t(2_000, 10_000));
        report.require("snapshot_view.probed", t(400, 2_000));
        report.require("snapshot_view.queries", t(15_000, 75_000));
        report.require("point_reads", t(300_000, 1_500_000));
        report.require("histories.on_chain", t(12, 50));
        report.require("histories.off_chain", t(6, 25));
        report.require("queries.short_prefix_long_start.forward.spanning_heads", t(5_000, 25_000));
        report.require("queries.short_prefix_long_start.reverse.spanning_heads", t(5_000, 25_000));
        report.require("queries.short_prefix_short_start.forward.nonempty", t(500, 2_500));
        report.require("queries.short_prefix_only.forward.nonempty", t(1_000, 5_000));
    }
    if selftest > 0 && report.violation_count() == 0 {
        report.inconclusive(format!("selftest {selftest}: the perturbation was not detected"));
    }
    report.finish(
        args,
        "exploration",
        "history = seeded list of commits (single change sets and lists with overlapping columns/disjoint keys, inserts+removes, keys over {00,01,7F,FE,FF}^0..3 and, on the two prefix-extractor columns of the description, keys with seven 32-byte heads that share 1/15/16/30/31-byte prefixes; descriptions: on_chain (ContractsState, ContractsAssets) for two of three histories, off_chain (OwnedCoins, TransactionsByOwnerBlockIdx) for the third) applied to MemoryStore, RocksDb and HistoricalRocksDB x {NoRewind, RewindFullRange, RewindRange 1/2/5} (quick tier: NoRewind, RewindFullRange and one rotating RewindRange size per history) with close/reopen, half of the histories with a block cache; single change sets are also read back through ChangesIterator; one evaluation = one backend answer (commit+contents, get/exists/size_of_value/read_exact/read_zerofill, iter_store/iter_store_keys query; held snapshots are read, probed and queried too) compared with the sorted-map model; a query is counted distinct/non-trivial when its expected result is a non-empty strict subset of the column, keyed by (column contents, prefix, start, direction)",
        false,
        &[
            "commits containing the same (column,key) in two list elements are outside the compared domain (backends legitimately reject them differently); generated as the last commit of ~6% of the histories and only recorded",
            "queries with prefix and start where start does not begin with prefix are outside the documented contract and excluded (counted)",
            "on columns with a RocksDB fixed-prefix extractor (32 bytes) keys have at least 32 bytes; prefixes shorter than 32 bytes (including the empty one) are judged there in every shape: prefix-only forward and reverse, and together with a start key (>= 32 bytes and shorter), through both APIs (the forward prefix-only shape can be switched off with --short-forward-prefix 0: before its repair it read out of bounds inside RocksDB)",
            "RocksDB opened with DatabaseConfig::config_for_tests (lazy columns), with and without a 6 MiB cache",
            "a panic inside commit_changes / iter_store / get of a backend is reported as a violation (the backend did not deliver the contents the others hold)",
            "the histories run in child processes (one per shard); a child killed by SIGSEGV/SIGABRT/SIGBUS/SIGILL/SIGFPE is a violation attributed by the breadcrumb written before every backend call, any other abnormal child exit is inconclusive",
        ],
    );
}
