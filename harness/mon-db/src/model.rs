//! Reference models shared by the C09/C11/C12 monitors: a sorted map per column
//! with filter-and-sort iteration (written from the documented contract of
//! `IterableStore`, not from any backend), commit descriptions, conversions into
//! fuel-core's `Changes`, and a thread-local evidence accumulator.

use fuel_core_storage::{
    iter::IterDirection,
    kv_store::WriteOperation,
    transactional::{
        Changes,
        ReferenceBytesKey,
        StorageChanges,
    },
};
use std::collections::BTreeMap;
use vcommon::{
    Report,
    serde_json::{
        Value as Json,
        json,
    },
};

pub type Bytes = Vec<u8>;
pub type ColMap = BTreeMap<Bytes, Bytes>;

/// One write: `val == None` is a removal.
#[derive(Clone, Debug, PartialEq, Eq, Hash)]
pub struct Op {
    pub col: u32,
    pub key: Bytes,
    pub val: Option<Bytes>,
}

/// One `Changes` value (a map, so a later op on the same (col,key) wins).
pub type Batch = Vec<Op>;

#[derive(Clone, Debug, PartialEq, Eq, Hash)]
pub struct Commit {
    /// `false`: `StorageChanges::Changes(batches[0])`; `true`: `ChangesList(batches)`.
    pub list: bool,
    pub batches: Vec<Batch>,
}

impl Commit {
    pub fn single(batch: Batch) -> Self {
        Commit {
            list: false,
            batches: vec![batch],
        }
    }

    pub fn list(batches: Vec<Batch>) -> Self {
        Commit {
            list: true,
            batches,
        }
    }

    pub fn ops(&self) -> impl Iterator<Item = &Op> {
        self.batches.iter().flatten()
    }

    /// the same (col,key) occurs in two different list elements
    pub fn has_cross_batch_duplicate(&self) -> bool {
        let mut seen = std::collections::HashSet::new();
        for b in &self.batches {
            let mut local = std::collections::HashSet::new();
            for op in b {
                local.insert((op.col, op.key.clone()));
            }
            for k in local {
                if !seen.insert(k) {
                    return true;
                }
            }
        }
        false
    }

    /// columns written by more than one list element
    pub fn overlapping_columns(&self) -> Vec<u32> {
        let mut count: BTreeMap<u32, usize> = BTreeMap::new();
        for b in &self.batches {
            let cols: std::collections::BTreeSet<u32> = b.iter().map(|o| o.col).collect();
            for c in cols {
                *count.entry(c).or_default() += 1;
            }
        }
        count.into_iter().filter(|(_, n)| *n > 1).map(|(c, _)| c).collect()
    }

    pub fn to_storage_changes(&self) -> StorageChanges {
        if self.list {
            StorageChanges::ChangesList(self.batches.iter().map(|b| to_changes(b)).collect())
        } else {
            StorageChanges::Changes(to_changes(&self.batches[0]))
        }
    }

    pub fn to_json(&self) -> Json {
        json!({
            "list": self.list,
            "batches": self.batches.iter().map(|b| b.iter().map(op_json).collect::<Vec<_>>()).collect::<Vec<_>>(),
        })
    }
}

pub fn op_json(op: &Op) -> Json {
    json!({
        "col": op.col,
        "key": hex::encode(&op.key),
        "val": op.val.as_ref().map(hex::encode),
    })
}

pub fn to_changes(batch: &Batch) -> Changes {
    let mut changes = Changes::default();
    for op in batch {
        let w = match &op.val {
            Some(v) => WriteOperation::Insert(v.clone().into()),
            None => WriteOperation::Remove,
        };
        changes
            .entry(op.col)
            .or_default()
            .insert(ReferenceBytesKey::from(op.key.clone()), w);
    }
    changes
}

#[derive(Clone, Default, PartialEq, Eq, Debug)]
pub struct Model {
    pub cols: BTreeMap<u32, ColMap>,
}

impl Model {
    pub fn apply_op(&mut self, op: &Op) {
        let col = self.cols.entry(op.col).or_default();
        match &op.val {
            Some(v) => {
                col.insert(op.key.clone(), v.clone());
            }
            None => {
                col.remove(&op.key);
            }
        }
    }

    pub fn apply(&mut self, commit: &Commit) {
        for op in commit.ops() {
            self.apply_op(op);
        }
    }

    pub fn get(&self, col: u32, key: &[u8]) -> Option<&Bytes> {
        self.cols.get(&col).and_then(|c| c.get(key))
    }

    pub fn col(&self, col: u32) -> ColMap {
        self.cols.get(&col).cloned().unwrap_or_default()
    }
}

/// The documented meaning of `iter_store(column, prefix, start, direction)`:
/// all entries whose key has the prefix; with a start key, only those at or
/// after it in iteration order; ordered ascending (Forward) or descending
/// (Reverse). Written as filter + sort.
pub fn model_iter(
    map: &ColMap,
    prefix: Option<&[u8]>,
    start: Option<&[u8]>,
    direction: IterDirection,
) -> Vec<(Bytes, Bytes)> {
    let mut out: Vec<(Bytes, Bytes)> = map
        .iter()
        .filter(|(k, _)| prefix.map(|p| k.starts_with(p)).unwrap_or(true))
        .filter(|(k, _)| match (start, direction) {
            (None, _) => true,
            (Some(s), IterDirection::Forward) => k.as_slice() >= s,
            (Some(s), IterDirection::Reverse) => k.as_slice() <= s,
        })
        .map(|(k, v)| (k.clone(), v.clone()))
        .collect();
    out.sort();
    if direction == IterDirection::Reverse {
        out.reverse();
    }
    out
}

pub fn dir_str(d: IterDirection) -> &'static str {
    match d {
        IterDirection::Forward => "forward",
        IterDirection::Reverse => "reverse",
    }
}

pub fn hexs(b: &[u8]) -> String {
    hex::encode(b)
}

pub fn hex_opt(b: Option<&[u8]>) -> String {
    match b {
        None => "-".to_string(),
        Some(b) => format!("[{}]", hex::encode(b)),
    }
}

pub fn hex_keys(keys: &[Bytes]) -> String {
    let mut s = String::from("[");
    for (i, k) in keys.iter().enumerate() {
        if i > 0 {
            s.push(' ');
        }
        if i >= 24 {
            s.push_str(&format!("..+{}", keys.len() - i));
            break;
        }
        s.push_str(&hex::encode(k));
    }
    s.push(']');
    s
}

pub fn hex_kvs(kvs: &[(Bytes, Bytes)]) -> String {
    let mut s = String::from("[");
    for (i, (k, v)) in kvs.iter().enumerate() {
        if i > 0 {
            s.push(' ');
        }
        if i >= 24 {
            s.push_str(&format!("..+{}", kvs.len() - i));
            break;
        }
        s.push_str(&format!("{}={}", hex::encode(k), hex::encode(v)));
    }
    s.push(']');
    s
}

/// Evidence accumulated by one history without touching the shared mutex;
/// flushed into the `Report` at the end of the history.
#[derive(Default)]
pub struct Local {
    pub counts: BTreeMap<String, u64>,
    pub evals: u64,
    pub distinct: Vec<u64>,
}

impl Local {
    pub fn count(&mut self, k: &str) {
        self.add(k, 1);
    }

    pub fn add(&mut self, k: &str, n: u64) {
        if let Some(v) = self.counts.get_mut(k) {
            *v += n;
        } else {
            self.counts.insert(k.to_string(), n);
        }
    }

    pub fn flush(&mut self, report: &Report) {
        for (k, v) in std::mem::take(&mut self.counts) {
            report.add(&k, v);
        }
        report.evals(std::mem::take(&mut self.evals));
        let distinct = std::mem::take(&mut self.distinct);
        crate::proc::record_distinct(&distinct);
        for h in distinct {
            report.distinct_hash(h);
        }
    }
}

/// Prefix for violation signatures in self-test mode.
pub fn sig(selftest: u32, s: impl AsRef<str>) -> String {
    if selftest > 0 {
        format!("selftest:{}", s.as_ref())
    } else {
        s.as_ref().to_string()
    }
}

pub fn selftest_mode(args: &vcommon::Args) -> u32 {
    args.extra
        .get("selftest")
        .and_then(|s| s.parse().ok())
        .unwrap_or(0)
}

// ---------------------------------------------------------------------------
// Every read method of `KeyValueInspect`, judged against the documented meaning.

use fuel_core_storage::kv_store::KeyValueInspect;

/// outcome of `read_exact` / `read_zerofill`: `Ok((returned count, buffer))` or
/// the name of the `StorageReadError`
pub type ReadOutcome = Result<(usize, Bytes), String>;

#[derive(Clone, Debug, PartialEq, Eq)]
pub struct Reads {
    pub get: Option<Bytes>,
    pub exists: bool,
    pub size: Option<usize>,
    pub exact: ReadOutcome,
    pub zerofill: ReadOutcome,
}

/// (offset, buffer length) cases around the value length
pub fn read_case(selector: u64, len: usize) -> (usize, usize) {
    match selector % 6 {
        0 => (0, len),
        1 => (0, len + 1),
        2 => (len.min(1), len.saturating_sub(1)),
        3 => (len, 1),
        4 => (len + 1, 1),
        _ => (0, 0),
    }
}

/// calls get / exists / size_of_value / read_exact / read_zerofill; `Err` is a
/// storage error of any of them
pub fn do_reads<S>(s: &S, key: &[u8], col: S::Column, offset: usize, buf_len: usize) -> Result<Reads, String>
where
    S: KeyValueInspect + ?Sized,
{
    let get = s.get(key, col).map_err(|e| format!("get: {e}"))?.map(|v| v.to_vec());
    let exists = s.exists(key, col).map_err(|e| format!("exists: {e}"))?;
    let size = s.size_of_value(key, col).map_err(|e| format!("size_of_value: {e}"))?;
    let mut buf = vec![0xAAu8; buf_len];
    let exact = match s
        .read_exact(key, col, offset, &mut buf)
        .map_err(|e| format!("read_exact: {e}"))?
    {
        Ok(n) => Ok((n, buf.clone())),
        Err(e) => Err(format!("{e:?}")),
    };
    let mut buf = vec![0xAAu8; buf_len];
    let zerofill = match s
        .read_zerofill(key, col, offset, &mut buf)
        .map_err(|e| format!("read_zerofill: {e}"))?
    {
        Ok(n) => Ok((n, buf.clone())),
        Err(e) => Err(format!("{e:?}")),
    };
    Ok(Reads {
        get,
        exists,
        size,
        exact,
        zerofill,
    })
}

/// What the read methods must return for a stored value (`None` = no entry):
/// `read_exact` fills the whole buffer from `offset` or fails with OutOfBounds;
/// `read_zerofill` copies what is there from `offset` (OutOfBounds only if the
/// offset is past the end), zero-fills the rest and reports the value length.
pub fn expected_reads(value: Option<&Bytes>, offset: usize, buf_len: usize) -> Reads {
    let exact = match value {
        None => Err("KeyNotFound".to_string()),
        Some(v) => match offset.checked_add(buf_len) {
            Some(end) if end <= v.len() => Ok((buf_len, v[offset..end].to_vec())),
            _ => Err("OutOfBounds".to_string()),
        },
    };
    let zerofill = match value {
        None => Err("KeyNotFound".to_string()),
        Some(v) if offset > v.len() => Err("OutOfBounds".to_string()),
        Some(v) => {
            let mut buf = vec![0u8; buf_len];
            let n = buf_len.min(v.len() - offset);
            buf[..n].copy_from_slice(&v[offset..offset + n]);
            Ok((v.len(), buf))
        }
    };
    Reads {
        get: value.cloned(),
        exists: value.is_some(),
        size: value.map(|v| v.len()),
        exact,
        zerofill,
    }
}

/// names of the read methods whose answer differs, with expected/observed
pub fn diff_reads(expected: &Reads, observed: &Reads) -> Vec<(&'static str, String)> {
    let mut d = Vec::new();
    if expected.get != observed.get {
        d.push((
            "get",
            format!(
                "get: expected {} observed {}",
                hex_opt(expected.get.as_deref()),
                hex_opt(observed.get.as_deref())
            ),
        ));
    }
    if expected.exists != observed.exists {
        d.push(("exists", format!("exists: expected {} observed {}", expected.exists, observed.exists)));
    }
    if expected.size != observed.size {
        d.push((
            "size_of_value",
            format!("size_of_value: expected {:?} observed {:?}", expected.size, observed.size),
        ));
    }
    if expected.exact != observed.exact {
        d.push((
            "read_exact",
            format!("read_exact: expected {:?} observed {:?}", expected.exact, observed.exact),
        ));
    }
    if expected.zerofill != observed.zerofill {
        d.push((
            "read_zerofill",
            format!("read_zerofill: expected {:?} observed {:?}", expected.zerofill, observed.zerofill),
        ));
    }
    d
}
