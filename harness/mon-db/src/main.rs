//! Runtime monitors for the database layer of fuel-core:
//! C09 (height-linked commits), C11 (backend equivalence and iteration),
//! C12 (historical views and rollbacks).

use vcommon::*;

mod c09;
mod c11;
mod c12;
mod model;
mod proc;

fn main() {
    let args = Args::parse();
    install_quiet_panic_hook();
    let report = Report::new(&args.property);
    if let Err(e) = std::fs::create_dir_all(&args.scratch) {
        report.inconclusive(format!("cannot create scratch dir: {e}"));
    }
    match args.property.as_str() {
        "C09" => c09::run(&args, &report),
        // C11/C12 drive RocksDB: the histories run in child processes so that a
        // crash inside the storage backend is attributed instead of killing the monitor
        "C11" | "C12" => {
            let c11 = args.property == "C11";
            if proc::child_shard(&args).is_some() {
                proc::child_init(&args);
                if c11 {
                    c11::run(&args, &report)
                } else {
                    c12::run(&args, &report)
                }
            } else {
                let selftest = model::selftest_mode(&args);
                proc::parent_run(&args, &report, selftest);
                let replay = args.replay.is_some();
                if c11 {
                    c11::finish(&args, &report, selftest, replay)
                } else {
                    c12::finish(&args, &report, selftest, replay)
                }
            }
        }
        other => {
            report.inconclusive(format!("property {other} not implemented in this monitor"));
            report.finish(&args, "exploration", "", false, &[]);
        }
    }
}
