//! Runtime monitors for the database layer of fuel-core:
//! C09 (height-linked commits), C11 (backend equivalence and iteration),
//! C12 (historical views and rollbacks).

use vcommon::*;

mod c09;
mod c11;
mod c12;
mod model;

fn main() {
    let args = Args::parse();
    install_quiet_panic_hook();
    let report = Report::new(&args.property);
    if let Err(e) = std::fs::create_dir_all(&args.scratch) {
        report.inconclusive(format!("cannot create scratch dir: {e}"));
    }
    match args.property.as_str() {
        "C09" => c09::run(&args, &report),
        "C11" => c11::run(&args, &report),
        "C12" => c12::run(&args, &report),
        other => {
            report.inconclusive(format!("property {other} not implemented in this monitor"));
            report.finish(&args, "exploration", "", false, &[]);
        }
    }
}
