//! Crash containment for the RocksDB-backed monitors (C11, C12).
//!
//! The parent process re-executes this binary once per shard (`--child <shard>`).
//! A child runs the histories of its shard single-threaded and, before every
//! call that crosses into the storage backend, overwrites a fixed-size
//! *breadcrumb* record in a file under the scratch dir. If a child is killed by
//! SIGSEGV / SIGABRT / SIGBUS / SIGILL / SIGFPE the parent reports a violation
//! whose detail and replay are the decoded breadcrumb; any other abnormal exit
//! stays inconclusive. The results of the children are merged by the parent,
//! which also owns thresholds and the self-test check.

use std::{
    fs::File,
    os::unix::{
        fs::FileExt,
        process::ExitStatusExt,
    },
    path::{
        Path,
        PathBuf,
    },
    process::Command,
    sync::{
        Arc,
        Mutex,
        OnceLock,
        atomic::{
            AtomicU32,
            AtomicU64,
            AtomicUsize,
            Ordering,
        },
    },
    time::{
        Duration,
        Instant,
    },
};
use vcommon::{
    Args,
    Report,
    catch,
    mix,
    serde_json::{
        Value as Json,
        json,
    },
    tag,
};

// ------------------------------------------------------------------ breadcrumb

#[derive(Clone, Copy, Debug, PartialEq, Eq)]
#[repr(u8)]
pub enum OpKind {
    Open = 1,
    Reopen = 2,
    Commit = 3,
    LatestView = 4,
    Read = 5,
    IterStore = 6,
    IterStoreKeys = 7,
    ViewAt = 8,
    Rollback = 9,
    ViewRead = 10,
    ViewIter = 11,
}

fn op_name(b: u8) -> &'static str {
    match b {
        1 => "open",
        2 => "reopen",
        3 => "commit",
        4 => "latest_view",
        5 => "read",
        6 => "iter_store",
        7 => "iter_store_keys",
        8 => "view_at",
        9 => "rollback",
        10 => "view_read",
        11 => "view_iter",
        _ => "unknown",
    }
}

pub const FAM_MEMORY: u8 = 0;
pub const FAM_ROCKSDB: u8 = 1;
pub const FAM_HISTORICAL: u8 = 2;

fn fam_name(b: u8) -> &'static str {
    match b {
        0 => "memory",
        1 => "rocksdb",
        2 => "historical",
        _ => "unknown",
    }
}

/// 0 = none, 1 = NoRewind, 2 = RewindFullRange, 10+n = RewindRange{n}
fn policy_name(b: u8) -> String {
    match b {
        0 => "-".into(),
        1 => "NoRewind".into(),
        2 => "RewindFullRange".into(),
        n => format!("RewindRange{}", n - 10),
    }
}

const CRUMB_LEN: usize = 128;
const FIELD_MAX: usize = 48;

static CRUMB_FILE: OnceLock<File> = OnceLock::new();
static CRUMB_ITERATION: AtomicU32 = AtomicU32::new(0);
static CRUMB_STEP: AtomicU32 = AtomicU32::new(0);
static CRUMB_AUX: AtomicU64 = AtomicU64::new(0);

pub fn crumb_init(path: &Path) {
    if let Ok(f) = File::create(path) {
        let _ = CRUMB_FILE.set(f);
    }
}

pub fn crumb_history(iteration: u64) {
    CRUMB_ITERATION.store(iteration as u32, Ordering::Relaxed);
    CRUMB_STEP.store(0, Ordering::Relaxed);
}

pub fn crumb_step(step: usize) {
    CRUMB_STEP.store(step as u32, Ordering::Relaxed);
}

/// free-form number (C12: the block height the operation is about)
pub fn crumb_aux(aux: u64) {
    CRUMB_AUX.store(aux, Ordering::Relaxed);
}

/// Records the operation that is about to be executed. `a`/`b`: prefix/start
/// of a query, or key/- of a point read.
#[allow(clippy::too_many_arguments)]
pub fn crumb(op: OpKind, fam: u8, policy: u8, col: u32, dir: u8, a: Option<&[u8]>, b: Option<&[u8]>) {
    let Some(file) = CRUMB_FILE.get() else { return };
    let mut buf = [0u8; CRUMB_LEN];
    buf[0] = b'C';
    buf[1] = op as u8;
    buf[2] = fam;
    buf[3] = policy;
    buf[4] = dir;
    let put = |buf: &mut [u8; CRUMB_LEN], len_at: usize, full_at: usize, data_at: usize, v: Option<&[u8]>| match v {
        None => {
            buf[len_at] = 255;
        }
        Some(v) => {
            let n = v.len().min(FIELD_MAX);
            buf[len_at] = n as u8;
            buf[full_at] = v.len().min(255) as u8;
            buf[data_at..data_at + n].copy_from_slice(&v[..n]);
        }
    };
    put(&mut buf, 5, 6, 32, a);
    put(&mut buf, 7, 8, 32 + FIELD_MAX, b);
    buf[12..16].copy_from_slice(&col.to_le_bytes());
    buf[16..20].copy_from_slice(&CRUMB_ITERATION.load(Ordering::Relaxed).to_le_bytes());
    buf[20..24].copy_from_slice(&CRUMB_STEP.load(Ordering::Relaxed).to_le_bytes());
    buf[24..32].copy_from_slice(&CRUMB_AUX.load(Ordering::Relaxed).to_le_bytes());
    let _ = file.write_at(&buf, 0);
}

struct Decoded {
    op: &'static str,
    fam: &'static str,
    json: Json,
    text: String,
}

fn decode_crumb(path: &Path) -> Option<Decoded> {
    let buf = std::fs::read(path).ok()?;
    if buf.len() < CRUMB_LEN || buf[0] != b'C' {
        return None;
    }
    let field = |len_at: usize, full_at: usize, data_at: usize| -> Option<String> {
        if buf[len_at] == 255 {
            None
        } else {
            let n = buf[len_at] as usize;
            let mut s = hex::encode(&buf[data_at..data_at + n]);
            if (buf[full_at] as usize) > n {
                s.push_str(&format!("..({} bytes)", buf[full_at]));
            }
            Some(s)
        }
    };
    let a = field(5, 6, 32);
    let b = field(7, 8, 32 + FIELD_MAX);
    let col = u32::from_le_bytes(buf[12..16].try_into().ok()?);
    let iteration = u32::from_le_bytes(buf[16..20].try_into().ok()?);
    let step = u32::from_le_bytes(buf[20..24].try_into().ok()?);
    let aux = u64::from_le_bytes(buf[24..32].try_into().ok()?);
    let op = op_name(buf[1]);
    let fam = fam_name(buf[2]);
    let dir = match buf[4] {
        1 => "forward",
        2 => "reverse",
        _ => "-",
    };
    let json = json!({
        "op": op, "backend": fam, "policy": policy_name(buf[3]), "column_id": col,
        "prefix_or_key": a, "start": b, "direction": dir,
        "iteration": iteration, "step": step, "height_or_aux": aux,
    });
    let text = format!(
        "op {op} on backend {fam}({}) column id {col} prefix/key={} start={} direction={dir} (history {iteration}, step {step}, aux {aux})",
        policy_name(buf[3]),
        a.as_deref().map(|s| format!("[{s}]")).unwrap_or("-".into()),
        b.as_deref().map(|s| format!("[{s}]")).unwrap_or("-".into()),
    );
    Some(Decoded {
        op,
        fam,
        json,
        text,
    })
}

// ------------------------------------------------------------------ child side

static CHILD_DISTINCT: Mutex<Option<Vec<u64>>> = Mutex::new(None);

pub fn child_shard(args: &Args) -> Option<usize> {
    args.extra.get("child").and_then(|s| s.parse().ok())
}

/// in a child: remember the distinct-case hashes so that the parent can merge
/// them exactly
pub fn record_distinct(hashes: &[u64]) {
    if let Some(v) = CHILD_DISTINCT.lock().unwrap_or_else(|e| e.into_inner()).as_mut() {
        v.extend_from_slice(hashes);
    }
}

pub fn child_init(args: &Args) {
    *CHILD_DISTINCT.lock().unwrap_or_else(|e| e.into_inner()) = Some(Vec::new());
    if let Some(p) = args.extra.get("crumb") {
        crumb_init(Path::new(p));
    }
}

/// in a child: write the side file with the distinct hashes
pub fn child_finish(args: &Args) {
    let hashes = CHILD_DISTINCT
        .lock()
        .unwrap_or_else(|e| e.into_inner())
        .take()
        .unwrap_or_default();
    let mut bytes = Vec::with_capacity(hashes.len() * 8);
    for h in hashes {
        bytes.extend_from_slice(&h.to_le_bytes());
    }
    let mut p = args.out.clone().into_os_string();
    p.push(".distinct");
    let _ = std::fs::write(PathBuf::from(p), bytes);
}

/// Runs `f(shard, shard_seed)` for the shard of this child (same seeds as
/// `vcommon::run_shards` would hand out).
pub fn run_child_shard(report: &Report, args: &Args, shard: usize, f: impl FnOnce(usize, u64)) {
    let s = mix(args.seed, &[tag(&args.property), shard as u64]);
    if let Err(p) = catch(|| f(shard, s)) {
        report.inconclusive(format!("shard {shard} (seed {s}) panicked in harness: {p}"));
    }
}

// ----------------------------------------------------------------- parent side

fn child_args(args: &Args, shard: usize, out: &Path, crumb: &Path) -> Vec<String> {
    let mut v = vec![
        "--property".to_string(),
        args.property.clone(),
        "--seed".into(),
        args.seed.to_string(),
        "--tier".into(),
        args.tier_str().to_string(),
        "--out".into(),
        out.display().to_string(),
        "--scratch".into(),
        args.scratch.display().to_string(),
        "--threads".into(),
        "1".into(),
    ];
    if let Some(r) = &args.replay {
        v.push("--replay".into());
        v.push(r.display().to_string());
    }
    for (k, val) in &args.extra {
        if k == "child" || k == "crumb" {
            continue;
        }
        v.push(format!("--{k}"));
        v.push(val.clone());
    }
    v.push("--child".into());
    v.push(shard.to_string());
    v.push("--crumb".into());
    v.push(crumb.display().to_string());
    v
}

fn is_crash_signal(sig: i32) -> bool {
    // SIGILL, SIGABRT, SIGBUS, SIGFPE, SIGSEGV
    matches!(sig, 4 | 6 | 7 | 8 | 11)
}

fn merge_child_result(report: &Report, out: &Path, selftest: u32) -> Result<(), String> {
    let text = std::fs::read_to_string(out).map_err(|e| format!("no result file: {e}"))?;
    let r: Json = vcommon::serde_json::from_str(&text).map_err(|e| format!("unreadable result file: {e}"))?;
    report.evals(r["evaluations"].as_u64().unwrap_or(0));
    if let Some(c) = r["counters"].as_object() {
        for (k, v) in c {
            report.add(k, v.as_u64().unwrap_or(0));
        }
    }
    if let Some(s) = r["samples"].as_array() {
        for s in s {
            if report.wants_sample() {
                report.sample(s.clone());
            }
        }
    }
    if let Some(vs) = r["violations"].as_array() {
        for v in vs {
            report.violation(
                v["signature"].as_str().unwrap_or("unknown").to_string(),
                v["detail"].as_str().unwrap_or("").to_string(),
                v["replay"].clone(),
            );
        }
    }
    if let Some(c) = r["violation_signature_counts"].as_object() {
        for (k, v) in c {
            report.add(&format!("violations_total.{k}"), v.as_u64().unwrap_or(0));
        }
    }
    if let Some(i) = r["inconclusive"].as_array() {
        for i in i {
            report.inconclusive(i.as_str().unwrap_or("").to_string());
        }
    }
    if let Some(n) = r["notes"].as_array() {
        for n in n {
            report.note(n.as_str().unwrap_or("").to_string());
        }
    }
    let mut p = out.as_os_str().to_owned();
    p.push(".distinct");
    if let Ok(bytes) = std::fs::read(PathBuf::from(p)) {
        for c in bytes.chunks_exact(8) {
            report.distinct_hash(u64::from_le_bytes(c.try_into().unwrap()));
        }
    }
    let _ = selftest;
    Ok(())
}

/// Runs the property in child processes (one per shard, or a single one for a
/// replay) and merges their results into `report`.
pub fn parent_run(args: &Args, report: &Report, selftest: u32) {
    let exe = match std::env::current_exe() {
        Ok(e) => e,
        Err(e) => {
            report.inconclusive(format!("cannot locate the monitor binary: {e}"));
            return;
        }
    };
    let shards: usize = if args.replay.is_some() {
        1
    } else {
        args.extra.get("shards").and_then(|s| s.parse().ok()).unwrap_or(16)
    };
    let deadline = Duration::from_secs(args.by_tier(1500, 3 * 3600));
    let next = Arc::new(AtomicUsize::new(0));
    let workers = args.threads.min(shards).max(1);
    let mut handles = Vec::new();
    for _ in 0..workers {
        let next = next.clone();
        let args = args.clone();
        let report = report.clone();
        let exe = exe.clone();
        handles.push(std::thread::spawn(move || {
            loop {
                let shard = next.fetch_add(1, Ordering::SeqCst);
                if shard >= shards {
                    break;
                }
                let out = args.scratch.join(format!("child-{shard}.json"));
                let crumb = args.scratch.join(format!("crumb-{shard}.bin"));
                let _ = std::fs::remove_file(&out);
                let _ = std::fs::remove_file(&crumb);
                let mut child = match Command::new(&exe).args(child_args(&args, shard, &out, &crumb)).spawn() {
                    Ok(c) => c,
                    Err(e) => {
                        report.inconclusive(format!("cannot start child for shard {shard}: {e}"));
                        continue;
                    }
                };
                let start = Instant::now();
                let status = loop {
                    match child.try_wait() {
                        Ok(Some(s)) => break Some(s),
                        Ok(None) => {
                            if start.elapsed() > deadline {
                                let _ = child.kill();
                                let _ = child.wait();
                                break None;
                            }
                            std::thread::sleep(Duration::from_millis(20));
                        }
                        Err(_) => break None,
                    }
                };
                let Some(status) = status else {
                    report.inconclusive(format!(
                        "watchdog: child for shard {shard} exceeded {}s and was killed",
                        deadline.as_secs()
                    ));
                    continue;
                };
                if let Some(sig) = status.signal() {
                    let shard_seed = mix(args.seed, &[tag(&args.property), shard as u64]);
                    if is_crash_signal(sig) {
                        report.count("children.crashed");
                        let d = decode_crumb(&crumb);
                        let (op, fam, cj, text) = match &d {
                            Some(d) => (d.op, d.fam, d.json.clone(), d.text.clone()),
                            None => ("unknown", "unknown", Json::Null, "no breadcrumb was written".to_string()),
                        };
                        let signature = crate::model::sig(
                            selftest,
                            format!("backend_process_crashed signal={sig} during={op} backend={fam}"),
                        );
                        let detail = format!(
                            "the monitor process running shard {shard} (shard seed {shard_seed}) of {} was killed by signal {sig} inside the storage backend; last breadcrumb: {text}",
                            args.property
                        );
                        let iteration = cj["iteration"].as_u64().unwrap_or(0);
                        report.violation(
                            signature,
                            detail,
                            json!({
                                "shard": shard, "seed": shard_seed, "iteration": iteration,
                                "tier": args.tier_str(), "crashed_at": cj,
                            }),
                        );
                    } else {
                        report.inconclusive(format!("child for shard {shard} was terminated by signal {sig}"));
                    }
                    continue;
                }
                if !status.success() {
                    report.inconclusive(format!(
                        "child for shard {shard} exited with status {:?}",
                        status.code()
                    ));
                    continue;
                }
                report.count("children.completed");
                if let Err(e) = merge_child_result(&report, &out, selftest) {
                    report.inconclusive(format!("child for shard {shard}: {e}"));
                }
            }
        }));
    }
    for h in handles {
        let _ = h.join();
    }
}
