//! C09: database commits are height-linked and the reported height is exact.
//!
//! Driver: for every database description (on-chain, off-chain, relayer,
//! gas-price, compression) seeded commit sequences are sent through the real
//! `Database<D>` (`Modifiable::commit_changes`, the importer's
//! `ImporterDatabase::commit_changes` for lists on the on-chain database and
//! `commit_changes_with_height_update` for lists on the others), over a
//! `MemoryStore` or a RocksDB directory, with reopen in between.
//! Oracle: `HeightLinkModel` + sorted-map content model.

use crate::model::*;
use fuel_core::{
    database::{
        Database,
        commit_changes_with_height_update,
        database_description::{
            DatabaseDescription,
            DatabaseHeight,
            compression::CompressionDatabase,
            gas_price::GasPriceDatabase,
            off_chain::OffChain,
            on_chain::OnChain,
            relayer::Relayer,
        },
    },
    fuel_core_graphql_api::storage::{
        Column as OffChainColumn,
        blocks::FuelBlockIdsToHeights,
    },
    state::{
        historical_rocksdb::StateRewindPolicy,
        in_memory::memory_store::MemoryStore,
        rocks_db::DatabaseConfig,
    },
};
use fuel_core_compression_service::storage::{
    CompressedBlocks,
    column::CompressionColumn,
};
use fuel_core_gas_price_service::common::fuel_core_storage_adapter::storage::{
    GasPriceColumn,
    GasPriceMetadata,
};
use fuel_core_importer::ports::ImporterDatabase;
use fuel_core_relayer::storage::{
    Column as RelayerColumn,
    EventsHistory,
};
use fuel_core_storage::{
    Mappable,
    Result as StorageResult,
    blueprint::BlueprintCodec,
    codec::{
        Encode,
        Encoder,
    },
    column::Column as OnChainColumn,
    iter::{
        IterDirection,
        IterableStore,
        IteratorOverTable,
    },
    kv_store::StorageColumn,
    merkle::column::MerkleizedColumn,
    structured_storage::TableWithBlueprint,
    tables::FuelBlocks,
    transactional::{
        AtomicView,
        Changes,
        HistoricalView,
        Modifiable,
        StorageChanges,
    },
};
use fuel_core_types::{
    blockchain::primitives::{
        BlockId,
        DaBlockHeight,
    },
    fuel_types::{
        BlockHeight,
        Bytes32,
    },
};
use itertools::Itertools;
use std::{
    collections::{
        BTreeMap,
        BTreeSet,
    },
    num::NonZeroU64,
    path::Path,
    sync::Arc,
};
use tempfile::TempDir;
use vcommon::{
    Args,
    Report,
    catch,
    chance,
    hash64,
    pick,
    rand::{
        Rng,
        rngs::StdRng,
    },
    read_replay,
    rng_for,
    run_shards,
    serde_json::{
        Value as Json,
        json,
    },
};

fn enc_key<M>(k: &M::Key) -> Bytes
where
    M: Mappable + TableWithBlueprint,
    M::Blueprint: BlueprintCodec<M>,
{
    <<M::Blueprint as BlueprintCodec<M>>::KeyCodec as Encode<M::Key>>::encode(k)
        .as_bytes()
        .into_owned()
}

fn enc_val<M>(v: &M::Value) -> Bytes
where
    M: Mappable + TableWithBlueprint,
    M::Blueprint: BlueprintCodec<M>,
{
    <<M::Blueprint as BlueprintCodec<M>>::ValueCodec as Encode<M::Value>>::encode(v)
        .as_bytes()
        .into_owned()
}

type Col<T> = <<T as Desc>::D as DatabaseDescription>::Column;
type Height<T> = <<T as Desc>::D as DatabaseDescription>::Height;

/// What the harness needs to know about one database description.
pub trait Desc: 'static {
    type D: DatabaseDescription;
    const NAME: &'static str;
    /// largest representable height
    const MAX: u64;
    fn height_col() -> Col<Self>;
    /// the row of the height-defining table for height `h` (`variant` varies the
    /// value / the secondary key)
    fn height_row(h: u64, variant: u8) -> (Bytes, Bytes);
    /// columns for data that carries no height
    fn free_cols() -> Vec<Col<Self>>;
    fn new_db(store: Arc<MemoryStore<Self::D>>) -> Database<Self::D>;
    fn open_rocks(path: &Path, policy: StateRewindPolicy) -> Result<Database<Self::D>, String>;
    fn commit_single(db: &mut Database<Self::D>, changes: Changes) -> StorageResult<()>;
    fn commit_list(db: &mut Database<Self::D>, changes: StorageChanges) -> StorageResult<()>;
    fn persisted_height(db: &Database<Self::D>) -> Result<Option<u64>, String>;
}

fn open_rocks_generic<D>(path: &Path, policy: StateRewindPolicy) -> Result<Database<D>, String>
where
    D: DatabaseDescription,
    Database<D>: fuel_core_storage::StorageInspect<
            fuel_core::database::metadata::MetadataTable<D>,
            Error = fuel_core_storage::Error,
        >,
{
    Database::<D>::open_rocksdb(path, policy, DatabaseConfig::config_for_tests()).map_err(|e| format!("{e:?}"))
}

pub struct OnChainDesc;
impl Desc for OnChainDesc {
    type D = OnChain;
    const NAME: &'static str = "on_chain";
    const MAX: u64 = u32::MAX as u64;

    fn height_col() -> OnChainColumn {
        OnChainColumn::FuelBlocks
    }

    fn height_row(h: u64, variant: u8) -> (Bytes, Bytes) {
        (
            enc_key::<FuelBlocks>(&BlockHeight::from(h as u32)),
            vec![variant; 1 + (variant % 3) as usize],
        )
    }

    fn free_cols() -> Vec<OnChainColumn> {
        vec![OnChainColumn::Coins, OnChainColumn::Messages, OnChainColumn::ContractsRawCode]
    }

    fn new_db(store: Arc<MemoryStore<OnChain>>) -> Database<OnChain> {
        Database::<Self::D>::new(store)
    }

    fn open_rocks(path: &Path, policy: StateRewindPolicy) -> Result<Database<OnChain>, String> {
        open_rocks_generic::<OnChain>(path, policy)
    }

    fn commit_single(db: &mut Database<OnChain>, changes: Changes) -> StorageResult<()> {
        Modifiable::commit_changes(db, changes)
    }

    fn commit_list(db: &mut Database<OnChain>, changes: StorageChanges) -> StorageResult<()> {
        // the path the block importer uses
        ImporterDatabase::commit_changes(db, changes)
    }

    fn persisted_height(db: &Database<OnChain>) -> Result<Option<u64>, String> {
        db.latest_height_from_metadata()
            .map(|h| h.map(|h| h.as_u64()))
            .map_err(|e| format!("{e}"))
    }
}

pub struct OffChainDesc;
impl Desc for OffChainDesc {
    type D = OffChain;
    const NAME: &'static str = "off_chain";
    const MAX: u64 = u32::MAX as u64;

    fn height_col() -> OffChainColumn {
        OffChainColumn::FuelBlockIdsToHeights
    }

    fn height_row(h: u64, variant: u8) -> (Bytes, Bytes) {
        // block id: derived from a small alphabet so that ids are re-used
        let mut id = [variant % 4; 32];
        id[0] = (h % 7) as u8;
        let id = BlockId::from(Bytes32::from(id));
        (
            enc_key::<FuelBlockIdsToHeights>(&id),
            enc_val::<FuelBlockIdsToHeights>(&BlockHeight::from(h as u32)),
        )
    }

    fn free_cols() -> Vec<OffChainColumn> {
        vec![
            OffChainColumn::TransactionStatus,
            OffChainColumn::Statistic,
            OffChainColumn::ContractsInfo,
        ]
    }

    fn new_db(store: Arc<MemoryStore<OffChain>>) -> Database<OffChain> {
        Database::<Self::D>::new(store)
    }

    fn open_rocks(path: &Path, policy: StateRewindPolicy) -> Result<Database<OffChain>, String> {
        open_rocks_generic::<OffChain>(path, policy)
    }

    fn commit_single(db: &mut Database<OffChain>, changes: Changes) -> StorageResult<()> {
        Modifiable::commit_changes(db, changes)
    }

    fn commit_list(db: &mut Database<OffChain>, changes: StorageChanges) -> StorageResult<()> {
        commit_changes_with_height_update(db, changes, |iter| {
            iter.iter_all::<FuelBlockIdsToHeights>(Some(IterDirection::Reverse))
                .map(|result| result.map(|(_, height)| height))
                .try_collect()
        })
    }

    fn persisted_height(db: &Database<OffChain>) -> Result<Option<u64>, String> {
        db.latest_height_from_metadata()
            .map(|h| h.map(|h| h.as_u64()))
            .map_err(|e| format!("{e}"))
    }
}

pub struct RelayerDesc;
impl Desc for RelayerDesc {
    type D = Relayer;
    const NAME: &'static str = "relayer";
    const MAX: u64 = u64::MAX;

    fn height_col() -> RelayerColumn {
        RelayerColumn::History
    }

    fn height_row(h: u64, variant: u8) -> (Bytes, Bytes) {
        (
            enc_key::<EventsHistory>(&DaBlockHeight(h)),
            vec![variant; 1 + (variant % 3) as usize],
        )
    }

    fn free_cols() -> Vec<RelayerColumn> {
        // the relayer database has only the metadata and the history column
        vec![]
    }

    fn new_db(store: Arc<MemoryStore<Relayer>>) -> Database<Relayer> {
        Database::<Self::D>::new(store)
    }

    fn open_rocks(path: &Path, policy: StateRewindPolicy) -> Result<Database<Relayer>, String> {
        open_rocks_generic::<Relayer>(path, policy)
    }

    fn commit_single(db: &mut Database<Relayer>, changes: Changes) -> StorageResult<()> {
        Modifiable::commit_changes(db, changes)
    }

    fn commit_list(db: &mut Database<Relayer>, changes: StorageChanges) -> StorageResult<()> {
        commit_changes_with_height_update(db, changes, |iter| {
            iter.iter_all_keys::<EventsHistory>(Some(IterDirection::Reverse))
                .try_collect()
        })
    }

    fn persisted_height(db: &Database<Relayer>) -> Result<Option<u64>, String> {
        db.latest_height_from_metadata()
            .map(|h| h.map(|h| h.as_u64()))
            .map_err(|e| format!("{e}"))
    }
}

pub struct GasPriceDesc;
impl Desc for GasPriceDesc {
    type D = GasPriceDatabase;
    const NAME: &'static str = "gas_price";
    const MAX: u64 = u32::MAX as u64;

    fn height_col() -> GasPriceColumn {
        GasPriceColumn::State
    }

    fn height_row(h: u64, variant: u8) -> (Bytes, Bytes) {
        (
            enc_key::<GasPriceMetadata>(&BlockHeight::from(h as u32)),
            vec![variant; 1 + (variant % 3) as usize],
        )
    }

    fn free_cols() -> Vec<GasPriceColumn> {
        vec![GasPriceColumn::UnrecordedBlocks, GasPriceColumn::LatestRecordedHeight]
    }

    fn new_db(store: Arc<MemoryStore<GasPriceDatabase>>) -> Database<GasPriceDatabase> {
        Database::<Self::D>::new(store)
    }

    fn open_rocks(path: &Path, policy: StateRewindPolicy) -> Result<Database<GasPriceDatabase>, String> {
        open_rocks_generic::<GasPriceDatabase>(path, policy)
    }

    fn commit_single(db: &mut Database<GasPriceDatabase>, changes: Changes) -> StorageResult<()> {
        Modifiable::commit_changes(db, changes)
    }

    fn commit_list(db: &mut Database<GasPriceDatabase>, changes: StorageChanges) -> StorageResult<()> {
        commit_changes_with_height_update(db, changes, |iter| {
            iter.iter_all_keys::<GasPriceMetadata>(Some(IterDirection::Reverse))
                .try_collect()
        })
    }

    fn persisted_height(db: &Database<GasPriceDatabase>) -> Result<Option<u64>, String> {
        db.latest_height_from_metadata()
            .map(|h| h.map(|h| h.as_u64()))
            .map_err(|e| format!("{e}"))
    }
}

pub struct CompressionDesc;
impl Desc for CompressionDesc {
    type D = CompressionDatabase;
    const NAME: &'static str = "compression";
    const MAX: u64 = u32::MAX as u64;

    fn height_col() -> MerkleizedColumn<CompressionColumn> {
        MerkleizedColumn::TableColumn(CompressionColumn::CompressedBlocks)
    }

    fn height_row(h: u64, variant: u8) -> (Bytes, Bytes) {
        (
            enc_key::<CompressedBlocks>(&BlockHeight::from(h as u32)),
            vec![variant; 1 + (variant % 3) as usize],
        )
    }

    fn free_cols() -> Vec<MerkleizedColumn<CompressionColumn>> {
        vec![
            MerkleizedColumn::TableColumn(CompressionColumn::Address),
            MerkleizedColumn::TableColumn(CompressionColumn::AssetId),
        ]
    }

    fn new_db(store: Arc<MemoryStore<CompressionDatabase>>) -> Database<CompressionDatabase> {
        Database::<Self::D>::new(store)
    }

    fn open_rocks(path: &Path, policy: StateRewindPolicy) -> Result<Database<CompressionDatabase>, String> {
        open_rocks_generic::<CompressionDatabase>(path, policy)
    }

    fn commit_single(db: &mut Database<CompressionDatabase>, changes: Changes) -> StorageResult<()> {
        Modifiable::commit_changes(db, changes)
    }

    fn commit_list(db: &mut Database<CompressionDatabase>, changes: StorageChanges) -> StorageResult<()> {
        commit_changes_with_height_update(db, changes, |iter| {
            iter.iter_all_keys::<CompressedBlocks>(Some(IterDirection::Reverse))
                .try_collect()
        })
    }

    fn persisted_height(db: &Database<CompressionDatabase>) -> Result<Option<u64>, String> {
        db.latest_height_from_metadata()
            .map(|h| h.map(|h| h.as_u64()))
            .map_err(|e| format!("{e}"))
    }
}

/// `HeightLinkModel`: the latest height and what the property demands of the
/// next commit.
#[derive(Clone, Copy, Debug, PartialEq, Eq)]
enum Demand {
    MustReject(&'static str),
    MustAccept,
    /// e.g. the same height in two list elements: one height, but the
    /// implementation may (and does) treat it as malformed
    Either,
}

fn demand(prev: Option<u64>, heights: &[u64], cross_dup: bool) -> Demand {
    let set: BTreeSet<u64> = heights.iter().copied().collect();
    if set.len() >= 2 {
        return Demand::MustReject("two_heights");
    }
    match (prev, set.iter().next().copied()) {
        (Some(_), None) => Demand::MustReject("missing_height"),
        (Some(p), Some(h)) if p.checked_add(1) != Some(h) => Demand::MustReject("unlinked_height"),
        _ => {
            if heights.len() <= 1 && !cross_dup {
                Demand::MustAccept
            } else {
                Demand::Either
            }
        }
    }
}

#[derive(Clone)]
struct GenCommit {
    kind: &'static str,
    commit: Commit,
    /// heights of the inserted rows of the height-defining table, one entry per
    /// (list element, row)
    heights: Vec<u64>,
}

struct Gen<'a, T: Desc> {
    rng: &'a mut StdRng,
    /// list elements may share columns (not on a history-keeping RocksDB, see C11)
    overlap_ok: bool,
    _t: std::marker::PhantomData<T>,
}

const FREE_KEYS: [&[u8]; 5] = [&[0x00], &[0x01], &[0x7F, 0x01], &[0xFF], &[0xFF, 0xFF]];

impl<T: Desc> Gen<'_, T> {
    fn height_op(&mut self, h: u64) -> Op {
        let variant = self.rng.gen_range(0..6u8);
        let (key, val) = T::height_row(h, variant);
        Op {
            col: T::height_col().id(),
            key,
            val: Some(val),
        }
    }

    fn free_ops(&mut self) -> Vec<Op> {
        let cols = T::free_cols();
        let mut ops = Vec::new();
        if cols.is_empty() {
            return ops;
        }
        for _ in 0..self.rng.gen_range(0..4) {
            let col = pick(self.rng, &cols).id();
            let key = pick(self.rng, &FREE_KEYS).to_vec();
            let val = if chance(self.rng, 25) {
                None
            } else {
                Some(vec![self.rng.gen_range(0..3u8); self.rng.gen_range(0..3)])
            };
            ops.push(Op { col, key, val });
        }
        ops
    }

    fn pick_other_height(&mut self, prev: Option<u64>) -> u64 {
        let p = prev.unwrap_or(0);
        let cands = [
            p,
            p.saturating_add(2),
            p.saturating_sub(1),
            0,
            1,
            p.saturating_add(3),
            self.rng.gen_range(0..8),
            T::MAX,
            p.saturating_sub(2),
        ];
        (*pick(self.rng, &cands)).min(T::MAX)
    }

    fn generate(&mut self, prev: Option<u64>, committed: &[u64]) -> GenCommit {
        let next = match prev {
            None => *pick(self.rng, &[0u64, 1, 1, 3, 5]),
            Some(p) => p.saturating_add(1).min(T::MAX),
        };
        let roll = self.rng.gen_range(0..100);
        let (kind, mut height_rows): (&'static str, Vec<u64>) = if roll < 46 {
            ("next", vec![next])
        } else if roll < 58 {
            ("no_height", vec![])
        } else if roll < 66 {
            ("repeat", vec![prev.unwrap_or(next)])
        } else if roll < 74 {
            ("skip", vec![next.saturating_add(1 + self.rng.gen_range(0..2)).min(T::MAX)])
        } else if roll < 80 {
            ("back", vec![prev.unwrap_or(1).saturating_sub(1 + self.rng.gen_range(0..2))])
        } else if roll < 88 {
            let other = if chance(self.rng, 50) {
                next.saturating_add(1).min(T::MAX)
            } else {
                self.pick_other_height(prev)
            };
            ("next_and_other", vec![next, other])
        } else if roll < 92 {
            ("same_height_twice", vec![next, next])
        } else if roll < 97 {
            ("random", vec![self.pick_other_height(prev)])
        } else if roll < 98 {
            ("max", vec![T::MAX])
        } else {
            ("two_others", vec![self.pick_other_height(prev), self.pick_other_height(prev)])
        };
        if chance(self.rng, 50) {
            height_rows.reverse();
        }
        let mut ops: Vec<(Op, Option<u64>)> = Vec::new();
        for h in &height_rows {
            ops.push((self.height_op(*h), Some(*h)));
        }
        for op in self.free_ops() {
            ops.push((op, None));
        }
        // now and then remove the row of an older height (carries no height)
        if !committed.is_empty() && chance(self.rng, 8) {
            let h = *pick(self.rng, committed);
            let (key, _) = T::height_row(h, 0);
            ops.push((
                Op {
                    col: T::height_col().id(),
                    key,
                    val: None,
                },
                None,
            ));
        }
        let as_list = chance(self.rng, 40);
        let n_batches = if as_list { self.rng.gen_range(1..=3) } else { 1 };
        let mut batches: Vec<Vec<(Op, Option<u64>)>> = vec![Vec::new(); n_batches];
        let mut col_home: BTreeMap<u32, usize> = BTreeMap::new();
        for (op, h) in ops {
            let mut i = self.rng.gen_range(0..n_batches);
            if !self.overlap_ok {
                i = *col_home.entry(op.col).or_insert(i);
            }
            batches[i].push((op, h));
        }
        // a `Changes` is a map: a later op on the same (col,key) replaces the earlier one
        let mut heights = Vec::new();
        let mut final_batches = Vec::new();
        for b in batches {
            let mut m: BTreeMap<(u32, Bytes), (Op, Option<u64>)> = BTreeMap::new();
            for (op, h) in b {
                m.insert((op.col, op.key.clone()), (op, h));
            }
            let mut batch = Vec::new();
            for (_, (op, h)) in m {
                if let (Some(h), Some(_)) = (h, &op.val) {
                    heights.push(h);
                }
                batch.push(op);
            }
            final_batches.push(batch);
        }
        let commit = if as_list {
            Commit::list(final_batches)
        } else {
            Commit::single(final_batches.pop().unwrap())
        };
        GenCommit {
            kind,
            commit,
            heights,
        }
    }
}

enum Backing<T: Desc> {
    Mem(Arc<MemoryStore<T::D>>),
    Rocks(TempDir, StateRewindPolicy),
}

fn policy_name(p: StateRewindPolicy) -> String {
    match p {
        StateRewindPolicy::NoRewind => "NoRewind".into(),
        StateRewindPolicy::RewindFullRange => "RewindFullRange".into(),
        StateRewindPolicy::RewindRange { size } => format!("RewindRange{size}"),
    }
}

fn read_col<T: Desc>(db: &Database<T::D>, col: Col<T>) -> Result<ColMap, String> {
    catch(|| {
        let mut m = ColMap::new();
        for item in db.iter_store(col, None, None, IterDirection::Forward) {
            let (k, v) = item.map_err(|e| format!("{e}"))?;
            m.insert(k, v.to_vec());
        }
        Ok::<_, String>(m)
    })
    .unwrap_or_else(|p| Err(format!("panic: {p}")))
}

fn content_diff<T: Desc>(db: &Database<T::D>, model: &Model) -> Result<Vec<String>, String> {
    let mut cols = T::free_cols();
    cols.push(T::height_col());
    let mut diffs = Vec::new();
    for col in cols {
        let observed = read_col::<T>(db, col)?;
        let expected = model.col(col.id());
        let keys: BTreeSet<&Bytes> = observed.keys().chain(expected.keys()).collect();
        for k in keys {
            if observed.get(k) != expected.get(k) {
                diffs.push(format!(
                    "col {} key [{}]: expected {} observed {}",
                    col.id(),
                    hexs(k),
                    hex_opt(expected.get(k).map(|v| v.as_slice())),
                    hex_opt(observed.get(k).map(|v| v.as_slice()))
                ));
            }
        }
    }
    Ok(diffs)
}

struct Hist<'a> {
    report: &'a Report,
    local: Local,
    selftest: u32,
    replay: Json,
    ops: Vec<Json>,
    db_name: &'static str,
}

impl Hist<'_> {
    fn violation(&mut self, signature: String, detail: String) {
        let mut r = self.replay.clone();
        r["ops"] = Json::Array(self.ops.clone());
        self.local.count("violations.raised");
        self.report.violation(
            sig(self.selftest, format!("{signature} db={}", self.db_name)),
            detail,
            r,
        );
    }
}

#[allow(clippy::too_many_arguments)]
fn run_history<T: Desc>(
    args: &Args,
    report: &Report,
    shard: usize,
    shard_seed: u64,
    iteration: u64,
    steps: usize,
    selftest: u32,
    thorough: bool,
) where
    Height<T>: DatabaseHeight,
{
    let mut rng = rng_for(shard_seed, &[vcommon::tag(T::NAME), iteration]);
    // RocksDB opens are expensive (an fsync per column family and per reopen)
    // deterministic share: every 10th (quick) / 5th (thorough) history per database
    let use_rocks = (iteration as usize + shard) % if thorough { 5 } else { 10 } == 0;
    let policies = [
        StateRewindPolicy::NoRewind,
        StateRewindPolicy::RewindFullRange,
        StateRewindPolicy::RewindRange {
            size: NonZeroU64::new(2).unwrap(),
        },
    ];
    let mut backing: Backing<T> = if use_rocks {
        match TempDir::new_in(&args.scratch) {
            Ok(d) => Backing::Rocks(d, *pick(&mut rng, &policies)),
            Err(e) => {
                report.inconclusive(format!("tempdir: {e}"));
                return;
            }
        }
    } else {
        Backing::Mem(Arc::new(MemoryStore::<T::D>::default()))
    };
    let backend_name = match &backing {
        Backing::Mem(_) => "memory".to_string(),
        Backing::Rocks(_, p) => format!("rocksdb({})", policy_name(*p)),
    };
    let mut hist = Hist {
        report,
        local: Local::default(),
        selftest,
        replay: json!({"shard": shard, "seed": shard_seed, "iteration": iteration, "tier": if thorough { "thorough" } else { "quick" }, "db": T::NAME, "steps": steps, "backend": backend_name}),
        ops: Vec::new(),
        db_name: T::NAME,
    };
    let open = |backing: &Backing<T>| -> Result<Database<T::D>, String> {
        match backing {
            Backing::Mem(store) => catch(|| T::new_db(store.clone())).map_err(|p| format!("panic: {p}")),
            Backing::Rocks(dir, policy) => catch(|| T::open_rocks(dir.path(), *policy))
                .unwrap_or_else(|p| Err(format!("panic: {p}"))),
        }
    };
    let mut db = match open(&backing) {
        Ok(db) => db,
        Err(e) => {
            report.inconclusive(format!("cannot open {} database on {backend_name}: {e}", T::NAME));
            return;
        }
    };
    let mut model = Model::default();
    let mut prev: Option<u64> = None;
    let mut committed: Vec<u64> = Vec::new();
    let mut window: Vec<(&'static str, bool)> = Vec::new();
    let pfx = format!("{}.", T::NAME);
    hist.local.count(&format!("{pfx}histories.{}", if use_rocks { "rocksdb" } else { "memory" }));

    for step in 0..steps {
        // reopen now and then
        if step > 0 && chance(&mut rng, if !use_rocks { 12 } else if thorough { 5 } else { 3 }) {
            drop(db);
            if let Backing::Rocks(_, policy) = &mut backing {
                if chance(&mut rng, 50) {
                    *policy = *pick(&mut rng, &policies);
                }
            }
            db = match open(&backing) {
                Ok(db) => db,
                Err(e) => {
                    report.inconclusive(format!("cannot reopen {} database on {backend_name}: {e}", T::NAME));
                    hist.local.flush(report);
                    return;
                }
            };
            hist.ops.push(json!({"reopen": true}));
            hist.local.count(&format!("{pfx}reopens"));
            hist.local.evals += 1;
            let observed = HistoricalView::latest_height(&db).map(|h| h.as_u64());
            if observed != prev {
                let d = format!(
                    "{} on {backend_name}: after reopen latest_height() = {observed:?}, last successfully committed height {prev:?}",
                    T::NAME
                );
                hist.violation("latest_height_mismatch_after_reopen".into(), d);
            }
            match content_diff::<T>(&db, &model) {
                Ok(d) if d.is_empty() => {}
                Ok(d) => {
                    let d = format!("{} on {backend_name}: contents after reopen differ: {}", T::NAME, d.join("; "));
                    hist.violation("content_mismatch_after_reopen".into(), d);
                }
                Err(e) => report.inconclusive(format!("reading contents failed: {e}")),
            }
        }

        let overlap_ok = match &backing {
            Backing::Mem(_) => true,
            Backing::Rocks(_, p) => *p == StateRewindPolicy::NoRewind,
        };
        let g = Gen::<T> {
            rng: &mut rng,
            overlap_ok,
            _t: Default::default(),
        }
        .generate(prev, &committed);
        let cross_dup = g.commit.has_cross_batch_duplicate();
        let dem = demand(prev, &g.heights, cross_dup);
        hist.ops.push(json!({"kind": g.kind, "heights": g.heights, "prev": prev, "commit": g.commit.to_json()}));

        let changes = g.commit.to_storage_changes();
        let result = catch(|| match changes {
            StorageChanges::Changes(c) => T::commit_single(&mut db, c),
            list => T::commit_list(&mut db, list),
        });
        let mut accepted = match result {
            Ok(Ok(())) => true,
            Ok(Err(e)) => {
                let e = format!("{e}");
                let class = [
                    "MultipleHeightsInCommit",
                    "HeightsAreNotLinked",
                    "NewHeightIsNotSet",
                    "FailedToAdvanceHeight",
                    "ConflictingChanges",
                    "Conflicting changes",
                ]
                .iter()
                .find(|c| e.contains(*c))
                .copied()
                .unwrap_or("other");
                hist.local.count(&format!("{pfx}rejections.{class}"));
                false
            }
            Err(p) => {
                report.inconclusive(format!(
                    "{} on {backend_name}: commit_changes panicked (kind {}): {p}",
                    T::NAME,
                    g.kind
                ));
                break;
            }
        };
        // selftest 2: a deliberately wrong wrapper reports success for a rejected commit
        let faked = selftest == 2 && !accepted && g.kind == "no_height" && prev.is_some();
        let really_accepted = accepted;
        if faked {
            accepted = true;
        }
        hist.local.evals += 1;
        hist.local.count(&format!(
            "{pfx}commits.{}.{}",
            g.kind,
            if accepted { "accepted" } else { "rejected" }
        ));
        hist.local.count(&format!(
            "{pfx}commits.{}",
            if g.commit.list { "list" } else { "single" }
        ));
        match (dem, accepted) {
            (Demand::MustReject(reason), true) => {
                let d = format!(
                    "{} on {backend_name}: commit accepted although it is malformed ({reason}): latest height before {prev:?}, heights carried {:?}; commit {}",
                    T::NAME,
                    g.heights,
                    g.commit.to_json()
                );
                hist.violation(format!("accepted_commit_{reason}"), d);
            }
            (Demand::MustAccept, false) => {
                let d = format!(
                    "{} on {backend_name}: well-formed commit rejected: latest height before {prev:?}, heights carried {:?}; commit {}",
                    T::NAME,
                    g.heights,
                    g.commit.to_json()
                );
                hist.violation("rejected_linked_commit".into(), d);
            }
            (Demand::Either, _) => hist.local.count(&format!("{pfx}excluded.accept_or_reject_both_allowed")),
            _ => {}
        }
        if really_accepted {
            model.apply(&g.commit);
            if let Some(h) = g.heights.iter().max().copied() {
                prev = Some(h);
                committed.push(h);
            }
        }
        if prev.is_some() {
            hist.local.count(&format!("{pfx}commits.after_first_height"));
        }

        // the reported height
        let mut observed = HistoricalView::latest_height(&db).map(|h| h.as_u64());
        if selftest == 1 && !accepted && prev.is_some() {
            observed = prev.map(|p| p.wrapping_add(1));
        }
        hist.local.evals += 1;
        if observed != prev {
            let d = format!(
                "{} on {backend_name}: latest_height() = {observed:?} after a{} commit (kind {}), last successfully committed height {prev:?}",
                T::NAME,
                if accepted { "n accepted" } else { " rejected" },
                g.kind
            );
            hist.violation(
                format!(
                    "latest_height_mismatch after={}",
                    if accepted { "accepted_commit" } else { "rejected_commit" }
                ),
                d,
            );
            if selftest == 0 {
                // continue from what the database reports
                prev = observed;
            }
        }
        match T::persisted_height(&db) {
            Ok(p) if p == prev => {}
            Ok(p) => {
                let d = format!(
                    "{} on {backend_name}: persisted metadata height {p:?} after a{} commit, last successfully committed height {prev:?}",
                    T::NAME,
                    if accepted { "n accepted" } else { " rejected" }
                );
                hist.violation("persisted_height_mismatch".into(), d);
            }
            Err(e) => report.inconclusive(format!("reading the metadata failed: {e}")),
        }
        // (MemoryStore::latest_view copies the whole store: sampled)
        let check_view = chance(&mut rng, 30);
        match catch(|| {
            if check_view {
                AtomicView::latest_view(&db).map(|v| v.metadata().map(|h| h.as_u64()))
            } else {
                Ok(prev)
            }
        }) {
            Ok(Ok(h)) => {
                if h != prev {
                    let d = format!(
                        "{} on {backend_name}: latest_view() carries height {h:?}, last successfully committed height {prev:?}",
                        T::NAME
                    );
                    hist.violation("latest_view_height_mismatch".into(), d);
                }
            }
            Ok(Err(e)) => report.inconclusive(format!("latest_view failed: {e}")),
            Err(p) => report.inconclusive(format!("latest_view panicked: {p}")),
        }
        // contents: exactly the accepted commits
        hist.local.evals += 1;
        let resync = |model: &mut Model| {
            let mut cols = T::free_cols();
            cols.push(T::height_col());
            for col in cols {
                if let Ok(m) = read_col::<T>(&db, col) {
                    model.cols.insert(col.id(), m);
                }
            }
        };
        match content_diff::<T>(&db, &model) {
            Ok(d) if d.is_empty() => {}
            Ok(_) if cross_dup && !really_accepted => {
                // a (column,key) repeated across list elements: the stores are
                // allowed to reject such a list after applying a part of it
                // (MemoryStore does); outside the judged domain, see C11
                hist.local
                    .count(&format!("{pfx}excluded.partial_application_of_rejected_duplicate_key_list"));
                resync(&mut model);
            }
            Ok(d) => {
                let signature = if accepted {
                    "content_mismatch_after_accepted_commit"
                } else {
                    "content_changed_by_rejected_commit"
                };
                let d = format!(
                    "{} on {backend_name}: {} (kind {}); commit {}",
                    T::NAME,
                    d.join("; "),
                    g.kind,
                    g.commit.to_json()
                );
                hist.violation(signature.into(), d);
                // continue from what the database holds now
                resync(&mut model);
            }
            Err(e) => report.inconclusive(format!("reading contents failed: {e}")),
        }

        window.push((g.kind, accepted));
        if window.len() > 3 {
            window.remove(0);
        }
        if window.len() == 3 && prev.is_some() && window.iter().any(|(_, a)| !*a) {
            hist.local
                .distinct
                .push(hash64(&(T::NAME, use_rocks, &window, g.commit.list)));
        }
    }
    if report.wants_sample() && iteration == 0 {
        report.sample(json!({"db": T::NAME, "backend": backend_name, "ops": hist.ops.iter().take(8).cloned().collect::<Vec<_>>()}));
    }
    drop(db);
    hist.local.count("histories");
    hist.local.flush(report);
}

#[allow(clippy::too_many_arguments)]
fn run_one(args: &Args, report: &Report, db: &str, shard: usize, shard_seed: u64, it: u64, steps: usize, selftest: u32, thorough: bool) {
    match db {
        "on_chain" => run_history::<OnChainDesc>(args, report, shard, shard_seed, it, steps, selftest, thorough),
        "off_chain" => run_history::<OffChainDesc>(args, report, shard, shard_seed, it, steps, selftest, thorough),
        "relayer" => run_history::<RelayerDesc>(args, report, shard, shard_seed, it, steps, selftest, thorough),
        "gas_price" => run_history::<GasPriceDesc>(args, report, shard, shard_seed, it, steps, selftest, thorough),
        _ => run_history::<CompressionDesc>(args, report, shard, shard_seed, it, steps, selftest, thorough),
    }
}

const DBS: [&str; 5] = ["on_chain", "off_chain", "relayer", "gas_price", "compression"];

pub fn run(args: &Args, report: &Report) {
    let selftest = selftest_mode(args);
    if let Some(r) = read_replay(args) {
        let shard_seed = r["seed"].as_u64().unwrap_or(0);
        let iteration = r["iteration"].as_u64().unwrap_or(0);
        let shard = r["shard"].as_u64().unwrap_or(0) as usize;
        let steps = r["steps"].as_u64().unwrap_or(30) as usize;
        let db = r["db"].as_str().unwrap_or("on_chain").to_string();
        let thorough = r["tier"].as_str() == Some("thorough");
        run_one(args, report, &db, shard, shard_seed, iteration, steps, selftest, thorough);
        finish(args, report, selftest, true);
        return;
    }
    let steps: usize = args.by_tier(60, 60);
    let per_shard: u64 = args
        .extra
        .get("per-shard")
        .and_then(|s| s.parse().ok())
        .unwrap_or(args.by_tier(8, 40));
    let args2 = args.clone();
    let report2 = report.clone();
    let thorough = args.is_thorough();
    let shards: usize = args.extra.get("shards").and_then(|s| s.parse().ok()).unwrap_or(16);
    run_shards(report, args, shards, move |shard, shard_seed| {
        for it in 0..per_shard {
            for db in DBS {
                run_one(&args2, &report2, db, shard, shard_seed, it, steps, selftest, thorough);
            }
        }
    });
    finish(args, report, selftest, false);
}

fn finish(args: &Args, report: &Report, selftest: u32, replay: bool) {
    if !replay {
        let t = |q: u64, th: u64| args.by_tier(q, th);
        for db in DBS {
            report.require(&format!("{db}.commits.next.accepted"), t(1000, 6000));
            report.require(&format!("{db}.commits.after_first_height"), t(2500, 15_000));
            report.require(&format!("{db}.rejections.MultipleHeightsInCommit"), t(250, 1500));
            report.require(&format!("{db}.rejections.HeightsAreNotLinked"), t(700, 4000));
            report.require(&format!("{db}.rejections.NewHeightIsNotSet"), t(300, 1800));
            report.require(&format!("{db}.commits.list"), t(1000, 6000));
            report.require(&format!("{db}.reopens"), t(250, 1500));
            report.require(&format!("{db}.histories.rocksdb"), t(6, 80));
            report.require(&format!("{db}.histories.memory"), t(40, 300));
        }
    }
    if selftest > 0 && report.violation_count() == 0 {
        report.inconclusive(format!("selftest {selftest}: the perturbation was not detected"));
    }
    report.finish(
        args,
        "exploration",
        "history = seeded sequence of commits to Database<D> for D in {on_chain, off_chain, relayer, gas_price, compression} on MemoryStore or RocksDB (NoRewind/RewindFullRange/RewindRange2, reopen with possibly changed policy); each commit is one of next/no_height/repeat/skip/back/next_and_other/same_height_twice/random/max/two_others, as a single change set or a list, mixed with height-less rows and removals; one evaluation = one judged commit result, one reported-height check or one content check; distinct/non-trivial = window of three consecutive commits after the first height containing at least one rejected commit, keyed by (db, backend kind, kinds+results, list?)",
        false,
        &[
            "a row removal in the height-defining table carries no height (matches how the commit inspects only inserted rows)",
            "commits that carry one height in two rows/list elements or repeat a (column,key) across list elements may be accepted or rejected; only atomicity and the reported height are judged for them",
            "lists for the non-on-chain databases go through the public commit_changes_with_height_update with a height lookup equivalent to the one in the Modifiable impl (the Modifiable impls only take single change sets)",
            "on history-keeping RocksDB (rewind policies) list elements never share a column, to keep the C11 finding about flattened lists out of this check",
            "undecodable rows in the height-defining table are not generated",
        ],
    );
}
