//! C12: historical views (`view_at`) and rollbacks reproduce past state exactly,
//! including restarts that change the rewind policy.
//!
//! Driver: a real `Database<OnChain>` opened with `Database::open_rocksdb` in a
//! scratch directory; seeded histories of block commits (overlapping writes,
//! deletes, re-inserts, unchanged values), restarts with another
//! `StateRewindPolicy`, `rollback_last_block` and re-commits. After every step
//! `view_at(h)` is taken for every committed height and every key of a small
//! fixed-length key space is read through it.
//! Oracle: the model keeps the full map after every block.

use crate::{
    model::*,
    proc::{
        self,
        FAM_HISTORICAL,
        OpKind,
        crumb,
    },
};
use fuel_core::{
    database::{
        Database,
        database_description::on_chain::OnChain,
        metadata::MetadataTable,
    },
    state::{
        historical_rocksdb::StateRewindPolicy,
        rocks_db::DatabaseConfig,
    },
};
use fuel_core_storage::{
    StorageAsRef,
    column::Column,
    iter::{
        IterDirection,
        IterableStore,
    },
    kv_store::{
        KeyValueInspect,
        StorageColumn,
    },
    transactional::{
        AtomicView,
        HistoricalView,
        Modifiable,
    },
};
use fuel_core_types::fuel_types::BlockHeight;
use std::{
    collections::BTreeSet,
    num::NonZeroU64,
};
use tempfile::TempDir;
use vcommon::{
    Args,
    Report,
    catch,
    chance,
    hash64,
    pick,
    rand::{
        Rng,
        rngs::StdRng,
    },
    read_replay,
    rng_for,
    serde_json::{
        Value as Json,
        json,
    },
};

const ALPHA: [u8; 5] = [0x00, 0x01, 0x7F, 0xFE, 0xFF];
const DATA_COLS: [Column; 3] = [Column::Coins, Column::Messages, Column::ContractsState];

/// fixed-length keys per column (the real tables are prefix-free)
fn keyspace() -> Vec<(Column, Bytes)> {
    let mut v = Vec::new();
    for a in ALPHA {
        v.push((Column::Coins, vec![a]));
    }
    for a in ALPHA {
        for b in [0x00u8, 0xFF] {
            v.push((Column::Messages, vec![a, b]));
        }
    }
    for head in [0x11u8, 0xFF] {
        for t in [0x00u8, 0x7F, 0xFF] {
            let mut k = vec![head; 32];
            k.push(t);
            v.push((Column::ContractsState, k));
        }
    }
    v
}

fn block_key(h: u64) -> Bytes {
    (h as u32).to_be_bytes().to_vec()
}

fn policy_name(p: StateRewindPolicy) -> String {
    match p {
        StateRewindPolicy::NoRewind => "NoRewind".into(),
        StateRewindPolicy::RewindFullRange => "Full".into(),
        StateRewindPolicy::RewindRange { size } => format!("Range{size}"),
    }
}

fn range(n: u64) -> StateRewindPolicy {
    StateRewindPolicy::RewindRange {
        size: NonZeroU64::new(n).unwrap(),
    }
}

struct Block {
    height: u64,
    state: Model,
    /// the reverse diff of this height is certainly retained (committed under a
    /// rewind policy and not in the pruned range of any later commit)
    history_retained: bool,
    /// a reverse diff for this height is present: the block was committed under a
    /// rewind policy and no later RewindRange commit pruned exactly this height
    /// (a RewindRange{n} commit at height x prunes height x-n only). Used to
    /// label wrong answers: a height above the requested one without a diff is
    /// a gap in the history.
    diff_present: bool,
}

/// a view kept over later operations
struct Held {
    height: u64,
    view: Box<dyn KeyValueInspect<Column = Column>>,
    expected: Model,
    /// the view was below the latest height when taken (it depends on reverse diffs)
    needs_history: bool,
    /// since the view was taken, reverse diffs above its height were removed
    /// (by a rollback or by the RewindRange pruning of a later commit)
    history_removed_since: bool,
}

struct Hist<'a> {
    report: &'a Report,
    local: Local,
    selftest: u32,
    replay: Json,
    ops: Vec<Json>,
    events: Vec<String>,
}

impl Hist<'_> {
    fn violation(&mut self, signature: &str, detail: String) {
        let mut r = self.replay.clone();
        r["ops"] = Json::Array(self.ops.clone());
        self.local.count("violations.raised");
        let detail = format!("{detail}; events so far: {}", self.events.join(" "));
        self.report.violation(sig(self.selftest, signature), detail, r);
    }
}

/// breadcrumb before a call into the RocksDB-backed database (see `proc`)
fn mark(op: OpKind, col: u32, dir: u8, a: Option<&[u8]>, b: Option<&[u8]>) {
    crumb(op, FAM_HISTORICAL, 0, col, dir, a, b);
}

fn open(dir: &TempDir, policy: StateRewindPolicy, cached: bool) -> Result<Database<OnChain>, String> {
    mark(OpKind::Open, 0, 0, None, None);
    let mut cfg = DatabaseConfig::config_for_tests();
    if cached {
        // block + row cache as in production configurations
        cfg.cache_capacity = Some(6 * 1024 * 1024);
    }
    catch(|| {
        Database::<OnChain>::open_rocksdb(dir.path(), policy, cfg)
            .map_err(|e| format!("{e:?}"))
    })
    .unwrap_or_else(|p| Err(format!("panic: {p}")))
}

fn all_cols() -> Vec<Column> {
    let mut v = DATA_COLS.to_vec();
    v.push(Column::FuelBlocks);
    v
}

fn read_cols(s: &dyn IterableStore<Column = Column>) -> Result<Model, String> {
    catch(|| {
        let mut m = Model::default();
        for col in all_cols() {
            let mut cm = ColMap::new();
            for item in s.iter_store(col, None, None, IterDirection::Forward) {
                let (k, v) = item.map_err(|e| format!("{e}"))?;
                cm.insert(k, v.to_vec());
            }
            if !cm.is_empty() {
                m.cols.insert(col.id(), cm);
            }
        }
        Ok::<_, String>(m)
    })
    .unwrap_or_else(|p| Err(format!("panic: {p}")))
}

/// iteration through an iterable view (whole columns in both directions and
/// prefix / start queries) against the model state
fn check_iteration(
    hist: &mut Hist,
    view: &dyn IterableStore<Column = Column>,
    ks: &[(Column, Bytes)],
    expected: &Model,
) -> Result<Vec<String>, String> {
    let mut mismatches = Vec::new();
    for col in all_cols() {
        let colmap = expected.col(col.id());
        let mut queries: Vec<(Option<Bytes>, Option<Bytes>)> = vec![(None, None)];
        let mut seen = BTreeSet::new();
        for (_, k) in ks.iter().filter(|(c, _)| c.id() == col.id()) {
            // ContractsState has a fixed 32-byte prefix extractor: prefixes there
            // are whole 32-byte heads (see C11 for the shorter ones)
            let p = if col.id() == Column::ContractsState.id() {
                k[..32].to_vec()
            } else {
                vec![k[0]]
            };
            if seen.insert(p.clone()) {
                queries.push((Some(p.clone()), None));
                queries.push((None, Some(k.clone())));
                queries.push((Some(p), Some(k.clone())));
            }
        }
        for (prefix, start) in queries {
            for dir in [IterDirection::Forward, IterDirection::Reverse] {
                hist.local.evals += 1;
                hist.local.count("view_iterations");
                let want = model_iter(&colmap, prefix.as_deref(), start.as_deref(), dir);
                let dcode = if dir == IterDirection::Forward { 1 } else { 2 };
                mark(OpKind::ViewIter, col.id(), dcode, prefix.as_deref(), start.as_deref());
                let got = catch(|| {
                    let mut out = Vec::new();
                    for item in view.iter_store(col, prefix.as_deref(), start.as_deref(), dir) {
                        let (k, v) = item.map_err(|e| format!("{e}"))?;
                        out.push((k, v.to_vec()));
                    }
                    Ok::<_, String>(out)
                })
                .unwrap_or_else(|p| Err(format!("panic: {p}")))?;
                let got_keys = catch(|| {
                    let mut out = Vec::new();
                    for item in view.iter_store_keys(col, prefix.as_deref(), start.as_deref(), dir) {
                        out.push(item.map_err(|e| format!("{e}"))?);
                    }
                    Ok::<_, String>(out)
                })
                .unwrap_or_else(|p| Err(format!("panic: {p}")))?;
                let want_keys: Vec<Bytes> = want.iter().map(|(k, _)| k.clone()).collect();
                if got != want || got_keys != want_keys {
                    mismatches.push(format!(
                        "iter(col {:?}, prefix={}, start={}, {}): expected {} observed iter_store={} iter_store_keys={}",
                        col,
                        hex_opt(prefix.as_deref()),
                        hex_opt(start.as_deref()),
                        dir_str(dir),
                        hex_kvs(&want),
                        hex_kvs(&got),
                        hex_keys(&got_keys)
                    ));
                }
            }
        }
    }
    Ok(mismatches)
}

fn strip_empty(m: &Model) -> Model {
    let mut out = Model::default();
    for (c, cm) in &m.cols {
        if !cm.is_empty() && *c != Column::Metadata.id() {
            out.cols.insert(*c, cm.clone());
        }
    }
    out
}

fn model_diff(expected: &Model, observed: &Model) -> Vec<String> {
    let mut d = Vec::new();
    let cols: BTreeSet<u32> = expected.cols.keys().chain(observed.cols.keys()).copied().collect();
    for c in cols {
        let e = expected.col(c);
        let o = observed.col(c);
        let keys: BTreeSet<&Bytes> = e.keys().chain(o.keys()).collect();
        for k in keys {
            if e.get(k) != o.get(k) {
                d.push(format!(
                    "col {c} key [{}]: expected {} observed {}",
                    hexs(k),
                    hex_opt(e.get(k).map(|v| v.as_slice())),
                    hex_opt(o.get(k).map(|v| v.as_slice()))
                ));
            }
        }
    }
    d
}

fn gen_val(rng: &mut StdRng) -> Bytes {
    pick(rng, &[vec![], vec![1u8], vec![2u8], vec![1u8, 2, 3]]).clone()
}

fn gen_block(rng: &mut StdRng, ks: &[(Column, Bytes)], current: &Model, height: Option<u64>) -> Commit {
    let mut batch: Batch = Vec::new();
    if let Some(h) = height {
        batch.push(Op {
            col: Column::FuelBlocks.id(),
            key: block_key(h),
            val: Some(vec![rng.gen_range(0..4u8); rng.gen_range(1..3)]),
        });
    }
    let n = rng.gen_range(0..7);
    let mut used = BTreeSet::new();
    for _ in 0..n {
        let (col, key) = pick(rng, ks).clone();
        if !used.insert((col.id(), key.clone())) {
            continue;
        }
        let existing = current.get(col.id(), &key).cloned();
        let val = if chance(rng, 30) {
            None
        } else if existing.is_some() && chance(rng, 20) {
            existing.clone() // value equal to the previous one
        } else {
            Some(gen_val(rng))
        };
        batch.push(Op {
            col: col.id(),
            key,
            val,
        });
    }
    Commit::single(batch)
}

#[allow(clippy::too_many_arguments)]
/// every read method and iteration of a `latest_view()` (fresh or held)
fn check_latest_view(
    hist: &mut Hist,
    view: &dyn IterableStore<Column = Column>,
    ks: &[(Column, Bytes)],
    expected: &Model,
    kind: &str,
    what: &str,
) {
    hist.local.count(&format!("latest_views.{kind}.checked"));
    match check_view_reads(hist, view, ks, &BTreeSet::new(), expected, 0) {
        Ok(m) => {
            if !m.values.is_empty() {
                hist.violation(
                    &format!("latest_view_wrong_value view={kind}"),
                    format!("latest_view ({kind}) after {what}: {}", m.values.join("; ")),
                );
            }
            if let Some((method, _)) = m.methods.first() {
                hist.violation(
                    &format!("view_read_method_disagrees_with_get method={method} view={kind}_latest"),
                    format!(
                        "latest_view ({kind}) after {what}: {}",
                        m.methods.iter().take(5).map(|x| x.1.clone()).collect::<Vec<_>>().join("; ")
                    ),
                );
            }
        }
        Err(e) => hist.violation("view_read_failed", format!("latest_view ({kind}) after {what}: {e}")),
    }
    match check_iteration(hist, view, ks, expected) {
        Ok(m) if m.is_empty() => {}
        Ok(m) => hist.violation(
            &format!("latest_view_iteration_mismatch view={kind}"),
            format!("latest_view ({kind}) after {what}: {}", m.iter().take(4).cloned().collect::<Vec<_>>().join("; ")),
        ),
        Err(e) => hist.violation("view_read_failed", format!("iterating latest_view ({kind}) after {what}: {e}")),
    }
}

fn check_latest(hist: &mut Hist, db: &Database<OnChain>, ks: &[(Column, Bytes)], chain: &[Block], base: &Model, what: &str) {
    let expected_height = chain.last().map(|b| b.height);
    let expected_state = chain.last().map(|b| &b.state).unwrap_or(base);
    hist.local.evals += 1;
    let observed = HistoricalView::latest_height(db).map(|h| u32::from(h) as u64);
    if observed != expected_height {
        hist.violation(
            &format!("latest_height_mismatch after={what}"),
            format!("latest_height() = {observed:?}, expected {expected_height:?} after {what}"),
        );
    }
    match db.latest_height_from_metadata() {
        Ok(h) => {
            let h = h.map(|h| u32::from(h) as u64);
            if h != expected_height {
                hist.violation(
                    &format!("persisted_height_mismatch after={what}"),
                    format!("metadata height {h:?}, expected {expected_height:?} after {what}"),
                );
            }
        }
        Err(e) => hist.report.inconclusive(format!("reading metadata failed: {e}")),
    }
    hist.local.evals += 1;
    mark(OpKind::LatestView, 0, 0, None, None);
    match catch(|| AtomicView::latest_view(db)) {
        Ok(Ok(view)) => {
            match read_cols(&view) {
                Ok(observed) => {
                    let d = model_diff(&strip_empty(expected_state), &observed);
                    if !d.is_empty() {
                        hist.violation(
                            &format!("latest_state_mismatch after={what}"),
                            format!("latest_view() after {what}: {}", d.join("; ")),
                        );
                    }
                }
                Err(e) => hist.report.inconclusive(format!("reading latest view failed: {e}")),
            }
            check_latest_view(hist, &view, ks, expected_state, "fresh", what);
        }
        Ok(Err(e)) => hist.report.inconclusive(format!("latest_view failed: {e}")),
        Err(p) => hist.report.inconclusive(format!("latest_view panicked: {p}")),
    }
}

/// what the reads through a view showed against the model state
#[derive(Default)]
struct ViewDiff {
    /// `get` returned a wrong value
    values: Vec<String>,
    /// `get` was right but another read method of the same view disagreed:
    /// (method, description)
    methods: Vec<(&'static str, String)>,
}

/// Reads every key through every read method of the view (get, exists,
/// size_of_value, read_exact, read_zerofill) and compares with the model state.
fn check_view_reads(
    hist: &mut Hist,
    view: &dyn KeyValueInspect<Column = Column>,
    ks: &[(Column, Bytes)],
    block_heights: &BTreeSet<u64>,
    expected: &Model,
    corrupt: u32,
) -> Result<ViewDiff, String> {
    let mut diff = ViewDiff::default();
    let mut keys: Vec<(Column, Bytes)> = ks.to_vec();
    for h in block_heights {
        keys.push((Column::FuelBlocks, block_key(*h)));
    }
    let mut corrupt = corrupt;
    for (i, (col, key)) in keys.into_iter().enumerate() {
        hist.local.evals += 5;
        hist.local.count("view_reads");
        let e = expected.get(col.id(), &key);
        let len = e.map(|v| v.len()).unwrap_or(0);
        let (offset, buf_len) = read_case(hist.local.evals.wrapping_add(i as u64), len);
        mark(OpKind::ViewRead, col.id(), 0, Some(&key), None);
        let mut o = match catch(|| do_reads(view, &key, col, offset, buf_len)) {
            Ok(Ok(o)) => o,
            Ok(Err(e)) => return Err(format!("col {:?} key [{}]: {e}", col, hexs(&key))),
            Err(p) => return Err(format!("reading col {:?} key [{}] panicked: {p}", col, hexs(&key))),
        };
        if corrupt == 1 {
            corrupt = 0;
            o.get = Some(vec![0xEE]);
        }
        if corrupt == 3 && o.exists {
            // selftest: a view whose `exists` forgets the entry while `get` has it
            corrupt = 0;
            o.exists = false;
        }
        let want = expected_reads(e, offset, buf_len);
        let d = diff_reads(&want, &o);
        if d.is_empty() {
            continue;
        }
        if want.get != o.get {
            diff.values.push(format!(
                "col {:?} key [{}]: expected {} observed {}",
                col,
                hexs(&key),
                hex_opt(e.map(|v| v.as_slice())),
                hex_opt(o.get.as_deref())
            ));
        } else {
            for (m, text) in d {
                diff.methods
                    .push((m, format!("col {:?} key [{}] (offset {offset}, buffer {buf_len}): {text}", col, hexs(&key))));
            }
        }
    }
    Ok(diff)
}

#[derive(Clone)]
struct Params {
    steps: usize,
    /// percent of steps that restart the database (each restart is a RocksDB
    /// close + open with WAL replay: the dominating cost)
    restart_percent: u32,
}

fn params(thorough: bool, steps: Option<usize>) -> Params {
    let mut p = if thorough {
        Params {
            steps: 50,
            restart_percent: 12,
        }
    } else {
        Params {
            steps: 40,
            restart_percent: 8,
        }
    };
    if let Some(s) = steps {
        p.steps = s;
    }
    p
}

fn run_history(args: &Args, report: &Report, shard: usize, shard_seed: u64, iteration: u64, p: &Params, selftest: u32) {
    let mut rng = rng_for(shard_seed, &[iteration]);
    proc::crumb_history(iteration);
    let ks = keyspace();
    let policies = [
        StateRewindPolicy::NoRewind,
        StateRewindPolicy::RewindFullRange,
        range(1),
        range(2),
        range(3),
        range(5),
    ];
    let fixed_policy = chance(&mut rng, 35);
    let mut policy = if fixed_policy {
        *pick(&mut rng, &policies[1..])
    } else {
        *pick(&mut rng, &policies)
    };
    let dir = match TempDir::new_in(&args.scratch) {
        Ok(d) => d,
        Err(e) => {
            report.inconclusive(format!("tempdir: {e}"));
            return;
        }
    };
    let mut hist = Hist {
        report,
        local: Local::default(),
        selftest,
        replay: json!({"shard": shard, "seed": shard_seed, "iteration": iteration, "tier": args.tier_str(), "steps": p.steps}),
        ops: Vec::new(),
        events: Vec::new(),
    };
    let cached = chance(&mut rng, 50);
    hist.local
        .count(if cached { "histories.with_block_cache" } else { "histories.without_block_cache" });
    let mut db = match open(&dir, policy, cached) {
        Ok(db) => db,
        Err(e) => {
            report.inconclusive(format!("cannot open rocksdb database: {e}"));
            return;
        }
    };
    hist.events.push(format!("open({})", policy_name(policy)));
    hist.ops.push(json!({"open": policy_name(policy)}));
    hist.local
        .count(if fixed_policy { "histories.fixed_policy" } else { "histories.changing_policy" });

    let mut base = Model::default();
    let mut chain: Vec<Block> = Vec::new();
    let mut all_heights: BTreeSet<u64> = BTreeSet::new();
    // held views: (height, view, expected state)
    #[allow(clippy::type_complexity)]
    let mut held: Vec<Held> = Vec::new();
    #[allow(clippy::type_complexity)]
    let mut held_latest: Vec<(Box<dyn IterableStore<Column = Column>>, Model)> = Vec::new();
    let first_height: u64 = *pick(&mut rng, &[0u64, 1, 1, 4]);

    // height-less commits before the first block (regenesis-like)
    for _ in 0..rng.gen_range(0..3) {
        let c = gen_block(&mut rng, &ks, &base, None);
        hist.ops.push(json!({"genesis_commit": c.to_json()}));
        mark(OpKind::Commit, 0, 0, None, None);
            match catch(|| Modifiable::commit_changes(&mut db, to_changes(&c.batches[0]))) {
            Ok(Ok(())) => {
                base.apply(&c);
                hist.events.push("G".into());
                hist.local.count("commits.without_height");
            }
            Ok(Err(e)) => {
                hist.violation(
                    "heightless_commit_rejected_before_first_block",
                    format!("commit without height rejected while the database has no height: {e}"),
                );
            }
            Err(pn) => {
                report.inconclusive(format!("commit panicked: {pn}"));
                return;
            }
        }
    }

    for step in 0..p.steps {
        proc::crumb_step(step);
        if selftest == 9 && shard == 0 && step == 6 {
            mark(OpKind::ViewRead, Column::Coins.id(), 0, Some(&[0x7F]), None);
            std::process::abort();
        }
        let roll = rng.gen_range(0..100);
        let what: String;
        if roll < 58 || chain.is_empty() {
            // ---- commit the next block
            let h = chain.last().map(|b| b.height + 1).unwrap_or(first_height);
            let current = chain.last().map(|b| b.state.clone()).unwrap_or_else(|| base.clone());
            let c = gen_block(&mut rng, &ks, &current, Some(h));
            hist.ops.push(json!({"commit": h, "policy": policy_name(policy), "changes": c.to_json()}));
            proc::crumb_aux(h);
            mark(OpKind::Commit, 0, 0, None, None);
            match catch(|| Modifiable::commit_changes(&mut db, to_changes(&c.batches[0]))) {
                Ok(Ok(())) => {}
                Ok(Err(e)) => {
                    hist.violation(
                        "linked_commit_rejected",
                        format!("commit of block {h} on top of {:?} rejected: {e}", chain.last().map(|b| b.height)),
                    );
                    break;
                }
                Err(pn) => {
                    report.inconclusive(format!("commit of block {h} panicked: {pn}"));
                    break;
                }
            }
            let mut state = current;
            state.apply(&c);
            let retained = policy != StateRewindPolicy::NoRewind;
            if let StateRewindPolicy::RewindRange { size } = policy {
                let pruned_up_to = h.saturating_sub(size.get());
                for b in chain.iter_mut() {
                    if b.height <= pruned_up_to {
                        b.history_retained = false;
                    }
                    if b.height == pruned_up_to {
                        b.diff_present = false;
                    }
                }
                for v in held.iter_mut() {
                    if v.needs_history && pruned_up_to > v.height {
                        v.history_removed_since = true;
                    }
                }
            }
            chain.push(Block {
                height: h,
                state,
                history_retained: retained,
                diff_present: retained,
            });
            all_heights.insert(h);
            hist.events.push(format!("C{h}"));
            hist.local.count(&format!("commits.under.{}", policy_name(policy)));
            what = "commit".into();
        } else if roll < 74 {
            // ---- rollback
            if chain.len() <= 1 {
                hist.local.count("excluded.rollback_of_first_block");
                continue;
            }
            hist.ops.push(json!({"rollback": chain.last().map(|b| b.height)}));
            // views must not outlive ... they may: a view is a snapshot
            let top_retained = chain.last().unwrap().history_retained;
            let top = chain.last().unwrap().height;
            hist.local.evals += 1;
            proc::crumb_aux(top);
            mark(OpKind::Rollback, 0, 0, None, None);
            match catch(|| db.rollback_last_block()) {
                Ok(Ok(())) => {
                    chain.pop();
                    for v in held.iter_mut() {
                        if v.needs_history && top > v.height {
                            v.history_removed_since = true;
                        }
                    }
                    hist.events.push(format!("R{top}"));
                    hist.local.count("rollbacks.ok");
                    hist.local
                        .distinct
                        .push(hash64(&(&hist.events, "rollback")));
                    what = "rollback".into();
                }
                Ok(Err(e)) => {
                    let e = format!("{e}");
                    hist.local.count("rollbacks.failed");
                    hist.events.push(format!("r{top}"));
                    if top_retained {
                        hist.violation(
                            "rollback_failed_although_history_retained",
                            format!(
                                "rollback_last_block() of block {top} failed ({e}) although the block was committed under a rewind policy and is inside the retained range"
                            ),
                        );
                    }
                    what = "failed_rollback".into();
                }
                Err(pn) => {
                    hist.violation("rollback_panicked", format!("rollback_last_block() of block {top} panicked: {pn}"));
                    break;
                }
            }
            if selftest == 2 && what == "rollback" {
                // deliberately wrong expectation: pretend the block is still there
                let fake = Block {
                    height: top,
                    state: chain.last().unwrap().state.clone(),
                    history_retained: false,
                    diff_present: false,
                };
                chain.push(fake);
                check_latest(&mut hist, &db, &ks, &chain, &base, &what);
                chain.pop();
            }
        } else if roll < 74 + p.restart_percent {
            // ---- restart, possibly with another policy
            held.clear();
            held_latest.clear();
            drop(db);
            let old = policy;
            if !fixed_policy && chance(&mut rng, 80) {
                policy = *pick(&mut rng, &policies);
            }
            db = match open(&dir, policy, cached) {
                Ok(db) => db,
                Err(e) => {
                    report.inconclusive(format!("cannot reopen rocksdb database: {e}"));
                    hist.local.flush(report);
                    return;
                }
            };
            hist.ops.push(json!({"restart": policy_name(policy)}));
            hist.events.push(format!("X({})", policy_name(policy)));
            hist.local.count("restarts");
            if old != policy {
                hist.local.count("restarts.policy_changed");
            }
            what = "restart".into();
        } else {
            // ---- take a view and hold it over the following steps
            if let Some(b) = chain.get(rng.gen_range(0..chain.len().max(1))) {
                let h = b.height;
                proc::crumb_aux(h);
                mark(OpKind::ViewAt, 0, 0, None, None);
                if let Ok(Ok(v)) = catch(|| db.view_at(&BlockHeight::from(h as u32))) {
                    let contiguous = chain.iter().filter(|x| x.height > h).all(|x| x.history_retained);
                    if contiguous && held.len() < 4 {
                        held.push(Held {
                            height: h,
                            view: Box::new(v),
                            expected: b.state.clone(),
                            needs_history: Some(h) != chain.last().map(|l| l.height),
                            history_removed_since: false,
                        });
                        hist.local.count("held_views.taken");
                    }
                }
            }
            // a view at the current height (a snapshot of the latest state) and
            // an iterable latest_view, both held over the following steps
            if let Some(l) = chain.last() {
                if held.len() < 5 {
                    proc::crumb_aux(l.height);
                    mark(OpKind::ViewAt, 0, 0, None, None);
                    if let Ok(Ok(v)) = catch(|| db.view_at(&BlockHeight::from(l.height as u32))) {
                        held.push(Held {
                            height: l.height,
                            view: Box::new(v),
                            expected: l.state.clone(),
                            needs_history: false,
                            history_removed_since: false,
                        });
                        hist.local.count("held_views.taken_at_latest");
                    }
                }
                if held_latest.len() < 2 {
                    mark(OpKind::LatestView, 0, 0, None, None);
                    if let Ok(Ok(v)) = catch(|| AtomicView::latest_view(&db)) {
                        held_latest.push((Box::new(v), l.state.clone()));
                        hist.local.count("held_latest_views.taken");
                    }
                }
            }
            continue;
        }

        // ---- after every step: latest, all heights, held views
        check_latest(&mut hist, &db, &ks, &chain, &base, &what);
        let latest = chain.last().map(|b| b.height);
        for (i, b) in chain.iter().enumerate() {
            let h = b.height;
            // a height above `h` has no reverse diff: committed under NoRewind, or
            // pruned while lower heights kept their diffs (policy change)
            let gap = chain[i + 1..].iter().any(|x| !x.diff_present);
            if gap != chain[i + 1..].iter().any(|x| !x.history_retained) {
                hist.local.count("info.gap_labels_disagree");
            }
            let differs = chain
                .last()
                .map(|l| DATA_COLS.iter().any(|c| l.state.col(c.id()) != b.state.col(c.id())))
                .unwrap_or(false);
            proc::crumb_aux(h);
            mark(OpKind::ViewAt, 0, 0, None, None);
            match catch(|| db.view_at(&BlockHeight::from(h as u32))) {
                Ok(Ok(view)) => {
                    hist.local.count(if Some(h) == latest {
                        "views.ok.latest_height"
                    } else if gap {
                        "views.ok.history_gap_above"
                    } else {
                        "views.ok.history_contiguous"
                    });
                    let corrupt = if (selftest == 1 || selftest == 3) && !gap && Some(h) != latest {
                        selftest
                    } else {
                        0
                    };
                    let mut reads = check_view_reads(&mut hist, &view, &ks, &all_heights, &b.state, corrupt);
                    // the metadata row read through the view carries the height
                    if let Ok(m) = &mut reads {
                        hist.local.evals += 1;
                        match catch(|| {
                            let height = view
                                .storage::<MetadataTable<OnChain>>()
                                .get(&())
                                .map(|m| m.map(|m| u32::from(*m.height()) as u64))
                                .map_err(|e| format!("{e}"))?;
                            let contains = view
                                .storage::<MetadataTable<OnChain>>()
                                .contains_key(&())
                                .map_err(|e| format!("{e}"))?;
                            Ok::<_, String>((height, contains))
                        }) {
                            Ok(Ok((mh, contains))) => {
                                if mh != Some(h) {
                                    m.values
                                        .push(format!("metadata row: expected height {h} observed {mh:?}"));
                                } else if !contains {
                                    m.methods.push((
                                        "contains_key",
                                        "metadata row: contains_key = false although get returns the row".into(),
                                    ));
                                }
                            }
                            Ok(Err(e)) => reads = Err(format!("reading the metadata row failed: {e}")),
                            Err(pn) => reads = Err(format!("reading the metadata row panicked: {pn}")),
                        }
                    }
                    match reads {
                        Ok(m) if m.values.is_empty() && m.methods.is_empty() => {
                            if differs && Some(h) != latest {
                                hist.local.count("views.ok.state_differs_from_latest");
                                hist.local
                                    .distinct
                                    .push(hash64(&(&hist.events, latest.unwrap_or(0) - h)));
                            }
                        }
                        Ok(m) => {
                            if !m.values.is_empty() {
                                let signature = if gap {
                                    "view_at_wrong_value cause=history_gap_above_height"
                                } else {
                                    "view_at_wrong_value cause=none_history_contiguous"
                                };
                                hist.violation(
                                    signature,
                                    format!(
                                        "view_at({h}) (latest {latest:?}, policy now {}) returned {} wrong value(s): {}; heights above without a reverse diff: {:?}",
                                        policy_name(policy),
                                        m.values.len(),
                                        m.values.iter().take(5).cloned().collect::<Vec<_>>().join("; "),
                                        chain[i + 1..].iter().filter(|x| !x.diff_present).map(|x| x.height).collect::<Vec<_>>()
                                    ),
                                );
                            }
                            if let Some((method, _)) = m.methods.first() {
                                hist.violation(
                                    &format!("view_read_method_disagrees_with_get method={method} view=fresh"),
                                    format!(
                                        "view_at({h}) (latest {latest:?}): {}",
                                        m.methods.iter().take(5).map(|x| x.1.clone()).collect::<Vec<_>>().join("; ")
                                    ),
                                );
                            }
                        }
                        Err(e) => {
                            hist.violation("view_read_failed", format!("view_at({h}) succeeded but {e}"));
                        }
                    }
                }
                Ok(Err(e)) => {
                    let e = format!("{e}");
                    if e.contains("NoHistoryForRequestedHeight") {
                        hist.local.count(if gap {
                            "views.no_history.gap_above"
                        } else {
                            "views.no_history.history_contiguous"
                        });
                    } else {
                        hist.violation(
                            "view_at_failed_with_other_error",
                            format!("view_at({h}) failed with an error that is not the no-history error: {e}"),
                        );
                    }
                }
                Err(pn) => {
                    hist.violation("view_at_panicked", format!("view_at({h}) panicked: {pn}"));
                }
            }
        }
        // heights that were never committed (or rolled back): only observed
        if let Some(l) = latest {
            let probe = l + 1;
            proc::crumb_aux(probe);
            mark(OpKind::ViewAt, 0, 0, None, None);
            match catch(|| db.view_at(&BlockHeight::from(probe as u32))) {
                Ok(Ok(_)) => hist.local.count("info.view_at_future_height.ok"),
                Ok(Err(_)) => hist.local.count("info.view_at_future_height.error"),
                Err(_) => hist.local.count("info.view_at_future_height.panic"),
            }
        }
        // held views still show their height
        let mut still = Vec::new();
        for v in held.drain(..) {
            // a held view of a height that has been rolled back meanwhile is
            // still a snapshot of the old chain
            let h = v.height;
            match check_view_reads(&mut hist, v.view.as_ref(), &ks, &BTreeSet::new(), &v.expected, 0) {
                Ok(m) if m.values.is_empty() && m.methods.is_empty() => {
                    hist.local.count(if v.history_removed_since {
                        "held_views.rechecked.after_history_removal"
                    } else {
                        "held_views.rechecked"
                    });
                    if chance(&mut rng, 60) {
                        still.push(v);
                    }
                }
                Ok(m) => {
                    if !m.values.is_empty() {
                        let signature = if v.history_removed_since {
                            "held_view_changed cause=history_above_removed_by_later_rollback_or_pruning"
                        } else {
                            "held_view_changed cause=none_history_untouched"
                        };
                        hist.violation(
                            signature,
                            format!("a view_at({h}) taken earlier changed after {what}: {}", m.values.join("; ")),
                        );
                    }
                    if let Some((method, _)) = m.methods.first() {
                        hist.violation(
                            &format!("view_read_method_disagrees_with_get method={method} view=held"),
                            format!(
                                "a view_at({h}) taken earlier, after {what}: {}",
                                m.methods.iter().take(5).map(|x| x.1.clone()).collect::<Vec<_>>().join("; ")
                            ),
                        );
                    }
                }
                Err(e) => hist.violation("view_read_failed", format!("held view_at({h}): {e}")),
            }
        }
        held = still;
        let mut still_latest = Vec::new();
        for (view, expected) in held_latest.drain(..) {
            check_latest_view(&mut hist, view.as_ref(), &ks, &expected, "held", &what);
            hist.local.count("held_latest_views.rechecked");
            if chance(&mut rng, 60) {
                still_latest.push((view, expected));
            }
        }
        held_latest = still_latest;
        let _ = step;
    }
    if report.wants_sample() && iteration == 0 {
        report.sample(json!({"events": hist.events.join(" "), "first_ops": hist.ops.iter().take(5).cloned().collect::<Vec<_>>()}));
    }
    drop(held);
    drop(held_latest);
    drop(db);
    hist.local.count("histories");
    hist.local.flush(report);
}

pub fn run(args: &Args, report: &Report) {
    let selftest = selftest_mode(args);
    if let Some(r) = read_replay(args) {
        let shard_seed = r["seed"].as_u64().unwrap_or(0);
        let iteration = r["iteration"].as_u64().unwrap_or(0);
        let shard = r["shard"].as_u64().unwrap_or(0) as usize;
        let p = params(
            r["tier"].as_str() == Some("thorough"),
            r["steps"].as_u64().map(|s| s as usize),
        );
        run_history(args, report, shard, shard_seed, iteration, &p, selftest);
        finish(args, report, selftest, true);
        return;
    }
    let p = params(args.is_thorough(), None);
    let per_shard: u64 = args
        .extra
        .get("per-shard")
        .and_then(|s| s.parse().ok())
        .unwrap_or(args.by_tier(3, 16));
    let shard = proc::child_shard(args).unwrap_or(0);
    proc::run_child_shard(report, args, shard, |shard, shard_seed| {
        for it in 0..per_shard {
            run_history(args, report, shard, shard_seed, it, &p, selftest);
        }
    });
    finish(args, report, selftest, false);
}

/// child: writes the partial result; parent: thresholds, self-test check and
/// the merged result
pub fn finish(args: &Args, report: &Report, selftest: u32, replay: bool) {
    if proc::child_shard(args).is_some() {
        proc::child_finish(args);
        report.finish(args, "exploration", "", false, &[]);
        return;
    }
    if !replay {
        let t = |q: u64, th: u64| args.by_tier(q, th);
        report.require("histories", t(24, 200));
        report.require("views.ok.history_contiguous", t(1000, 10_000));
        report.require("views.ok.state_differs_from_latest", t(1000, 10_000));
        report.require("views.no_history.gap_above", t(1000, 10_000));
        report.require("rollbacks.ok", t(50, 500));
        report.require("restarts.policy_changed", t(15, 150));
        report.require("held_views.rechecked", t(50, 300));
        report.require("view_reads", t(60_000, 600_000));
        report.require("held_views.taken_at_latest", t(40, 400));
        report.require("held_latest_views.rechecked", t(40, 400));
        report.require("view_iterations", t(20_000, 200_000));
    }
    if selftest > 0 && report.violation_count() == 0 {
        report.inconclusive(format!("selftest {selftest}: the perturbation was not detected"));
    }
    report.finish(
        args,
        "exploration",
        "history = seeded sequence over a RocksDB-backed Database<OnChain>: height-less genesis commits, block commits (FuelBlocks row + inserts/deletes/re-inserts/unchanged values over 21 fixed-length keys in Coins/Messages/ContractsState), restarts with a (possibly different) StateRewindPolicy out of {NoRewind, Full, Range1/2/3/5}, rollback_last_block, held views; after every step view_at(h) for every committed height is read for every key and compared with the model's map after block h; every key is read through get, exists, size_of_value, read_exact and read_zerofill (offsets/lengths around the value length), latest_view()s are also iterated (whole columns, prefix, start, both directions, both APIs), fresh and held over later commits/rollbacks; one evaluation = one compared read-method answer / iteration / height / rollback; distinct/non-trivial = successful view below the latest height whose expected state differs from the latest state, keyed by (event history, distance to latest), and successful rollbacks keyed by event history",
        false,
        &[
            "a failing view_at is never a violation (the property allows the no-history error); its share is reported and bounded by thresholds on successful views",
            "keys have one fixed length per column (real tables are prefix-free; ViewAtHeight::get compares found_key[..key.len()])",
            "rolling back the very first committed block is not generated (no previous height exists)",
            "rollback failure is a violation only when the latest block was committed under a rewind policy and no later commit's RewindRange window excluded it",
            "restarts are clean shutdowns (drop + reopen); crash points inside a commit are not injected",
            "block commits are single change sets (lists are C11's subject)",
            "the histories run in child processes (one per shard); a child killed by SIGSEGV/SIGABRT/SIGBUS/SIGILL/SIGFPE is a violation attributed by the breadcrumb written before every database call, any other abnormal child exit is inconclusive",
            "read_zerofill's returned count is compared with the value length (what both the default and the RocksDb implementation return), the buffers of failed reads are not compared",
        ],
    );
}
