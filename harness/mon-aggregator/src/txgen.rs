//! Structural generator of fuel transactions / receipts over small alphabets.
//!
//! Shared (via `#[path]`) by mon-aggregator (C43), mon-compress (C33) and
//! mon-consensus (C15). Everything is a pure function of the rng stream.
//! The transactions are *structurally* well-formed values built with the fuel-tx
//! constructors (the same ones `fuel_core_types::test_helpers` uses); they are not
//! executed, so no claim of VM validity is made.
#![allow(dead_code)]

use fuel_core_types::{
    fuel_asm::{
        PanicInstruction,
        PanicReason,
    },
    fuel_tx::{
        BlobBody,
        BlobIdExt,
        Input,
        Output,
        Receipt,
        ScriptExecutionResult,
        StorageSlot,
        Transaction,
        TxPointer,
        UpgradePurpose,
        UploadBody,
        UtxoId,
        Witness,
        field::ReceiptsRoot,
        input::contract::Contract as InputContract,
        output::contract::Contract as OutputContract,
        policies::{
            Policies,
            PolicyType,
        },
    },
    fuel_types::{
        Address,
        AssetId,
        BlobId,
        BlockHeight,
        Bytes32,
        ContractId,
        Nonce,
        Salt,
        SubAssetId,
    },
};
use rand::{
    Rng,
    rngs::StdRng,
};

pub fn b32(rng: &mut StdRng) -> [u8; 32] {
    let mut b = [0u8; 32];
    rng.fill(&mut b[..]);
    b
}

/// u64 with boundary values over-represented
pub fn word(rng: &mut StdRng) -> u64 {
    match rng.gen_range(0..12) {
        0 => 0,
        1 => 1,
        2 => u64::MAX,
        3 => u32::MAX as u64,
        4 => u32::MAX as u64 + 1,
        5 => u16::MAX as u64 + 1,
        6 | 7 => rng.gen_range(0..1000),
        _ => rng.r#gen(),
    }
}

pub fn idx16(rng: &mut StdRng) -> u16 {
    match rng.gen_range(0..8) {
        0 => 0,
        1 => 1,
        2 => u16::MAX,
        3 => 255,
        4 => 256,
        _ => rng.r#gen(),
    }
}

pub fn idx32(rng: &mut StdRng) -> u32 {
    match rng.gen_range(0..8) {
        0 => 0,
        1 => 1,
        2 => u32::MAX,
        3 => u16::MAX as u32 + 1,
        _ => rng.r#gen(),
    }
}

pub fn bytes(rng: &mut StdRng, max: usize) -> Vec<u8> {
    let len = match rng.gen_range(0..6) {
        0 => 0,
        1 => 1,
        _ => rng.gen_range(0..=max),
    };
    let mut v = vec![0u8; len];
    rng.fill(&mut v[..]);
    v
}

pub fn tx_pointer(rng: &mut StdRng) -> TxPointer {
    TxPointer::new(BlockHeight::new(idx32(rng)), idx16(rng))
}

pub fn utxo_id(rng: &mut StdRng) -> UtxoId {
    UtxoId::new(b32(rng).into(), idx16(rng))
}

/// Which alphabet elements carry identical bytes in several roles.
#[derive(Clone, Copy, Debug, PartialEq, Eq)]
pub enum Sharing {
    None,
    Half,
    All,
}

/// Small value alphabets; element 0 of every alphabet is the type's default
/// value (which DA compression maps to the reserved default key).
#[derive(Clone, Debug)]
pub struct Alphabet {
    pub addrs: Vec<Address>,
    pub assets: Vec<AssetId>,
    pub contracts: Vec<ContractId>,
    pub scripts: Vec<Vec<u8>>,
    pub predicates: Vec<Vec<u8>>,
    /// percentage of draws that return a fresh random value instead
    pub fresh_pct: u32,
}

impl Alphabet {
    pub fn new(rng: &mut StdRng, n: usize, fresh_pct: u32) -> Self {
        Self::with_sharing(rng, n, fresh_pct, Sharing::None)
    }

    /// Like [`Alphabet::new`], but alphabet element `i` may carry the *same bytes* in
    /// several roles: the same 32 bytes as address, asset id and contract id, and the
    /// same non-empty byte string as script code and predicate code (values of
    /// different registry keyspaces that collide byte-wise).
    pub fn with_sharing(
        rng: &mut StdRng,
        n: usize,
        fresh_pct: u32,
        sharing: Sharing,
    ) -> Self {
        let n = n.max(2);
        let mut a = Alphabet {
            addrs: vec![Address::default()],
            assets: vec![AssetId::default()],
            contracts: vec![ContractId::default()],
            scripts: vec![vec![]],
            predicates: vec![vec![]],
            fresh_pct,
        };
        for i in 1..n {
            let shared = match sharing {
                Sharing::None => false,
                Sharing::Half => i % 2 == 1,
                Sharing::All => true,
            };
            let base = b32(rng);
            a.addrs.push(Address::new(base));
            a.assets.push(AssetId::new(if shared { base } else { b32(rng) }));
            a.contracts
                .push(ContractId::new(if shared { base } else { b32(rng) }));
            let l = rng.gen_range(1..40);
            let code: Vec<u8> = (0..l).map(|_| rng.r#gen::<u8>()).collect();
            a.scripts.push(code.clone());
            if shared {
                a.predicates.push(code);
            } else {
                let l = rng.gen_range(1..40);
                a.predicates.push((0..l).map(|_| rng.r#gen::<u8>()).collect());
            }
        }
        a
    }

    fn fresh(&self, rng: &mut StdRng) -> bool {
        rng.gen_range(0..100u32) < self.fresh_pct
    }

    pub fn addr(&self, rng: &mut StdRng) -> Address {
        if self.fresh(rng) {
            Address::new(b32(rng))
        } else {
            self.addrs[rng.gen_range(0..self.addrs.len())]
        }
    }

    pub fn asset(&self, rng: &mut StdRng) -> AssetId {
        if self.fresh(rng) {
            AssetId::new(b32(rng))
        } else {
            self.assets[rng.gen_range(0..self.assets.len())]
        }
    }

    pub fn contract(&self, rng: &mut StdRng) -> ContractId {
        if self.fresh(rng) {
            ContractId::new(b32(rng))
        } else {
            self.contracts[rng.gen_range(0..self.contracts.len())]
        }
    }

    pub fn script(&self, rng: &mut StdRng) -> Vec<u8> {
        if self.fresh(rng) {
            let l = rng.gen_range(1..60);
            (0..l).map(|_| rng.r#gen::<u8>()).collect()
        } else {
            self.scripts[rng.gen_range(0..self.scripts.len())].clone()
        }
    }

    pub fn predicate(&self, rng: &mut StdRng) -> Vec<u8> {
        if self.fresh(rng) {
            let l = rng.gen_range(1..60);
            (0..l).map(|_| rng.r#gen::<u8>()).collect()
        } else {
            self.predicates[rng.gen_range(0..self.predicates.len())].clone()
        }
    }
}

#[derive(Clone, Debug)]
pub struct CoinRef {
    pub utxo_id: UtxoId,
    pub owner: Address,
    pub amount: u64,
    pub asset_id: AssetId,
    pub tx_pointer: TxPointer,
}

#[derive(Clone, Debug)]
pub struct MsgRef {
    pub sender: Address,
    pub recipient: Address,
    pub nonce: Nonce,
    pub amount: u64,
    pub data: Vec<u8>,
}

/// Where coin / message inputs come from.
pub trait Source {
    fn coin(&mut self, rng: &mut StdRng, a: &Alphabet) -> Option<CoinRef>;
    /// `with_data`: the message must (true) / must not (false) carry data
    fn msg(&mut self, rng: &mut StdRng, a: &Alphabet, with_data: bool) -> Option<MsgRef>;
}

/// Unconstrained random coins and messages.
pub struct FreeSource;

impl Source for FreeSource {
    fn coin(&mut self, rng: &mut StdRng, a: &Alphabet) -> Option<CoinRef> {
        Some(CoinRef {
            utxo_id: utxo_id(rng),
            owner: a.addr(rng),
            amount: word(rng),
            asset_id: a.asset(rng),
            tx_pointer: tx_pointer(rng),
        })
    }

    fn msg(&mut self, rng: &mut StdRng, a: &Alphabet, with_data: bool) -> Option<MsgRef> {
        Some(MsgRef {
            sender: a.addr(rng),
            recipient: a.addr(rng),
            nonce: Nonce::new(b32(rng)),
            amount: word(rng),
            data: if with_data {
                // data inputs may legally carry empty data as well
                bytes(rng, 48)
            } else {
                vec![]
            },
        })
    }
}

#[derive(Clone, Debug)]
pub struct Opts {
    /// fill the fields that execution fills in (roots, change amounts, variable
    /// outputs, receipts root, contract utxo ids / tx pointers)
    pub executed_form: bool,
    pub max_inputs: usize,
    pub max_outputs: usize,
    pub max_witnesses: usize,
}

impl Default for Opts {
    fn default() -> Self {
        Opts {
            executed_form: true,
            max_inputs: 5,
            max_outputs: 5,
            max_witnesses: 3,
        }
    }
}

pub const INPUT_VARIANTS: u8 = 7;
pub const OUTPUT_VARIANTS: u8 = 5;
pub const TX_KINDS: u8 = 6;
pub const RECEIPT_VARIANTS: u8 = 13;

pub fn input_variant_name(i: &Input) -> &'static str {
    match i {
        Input::CoinSigned(_) => "CoinSigned",
        Input::CoinPredicate(_) => "CoinPredicate",
        Input::Contract(_) => "Contract",
        Input::MessageCoinSigned(_) => "MessageCoinSigned",
        Input::MessageCoinPredicate(_) => "MessageCoinPredicate",
        Input::MessageDataSigned(_) => "MessageDataSigned",
        Input::MessageDataPredicate(_) => "MessageDataPredicate",
    }
}

pub fn output_variant_name(o: &Output) -> &'static str {
    match o {
        Output::Coin { .. } => "Coin",
        Output::Contract(_) => "Contract",
        Output::Change { .. } => "Change",
        Output::Variable { .. } => "Variable",
        Output::ContractCreated { .. } => "ContractCreated",
    }
}

pub fn tx_kind_name(t: &Transaction) -> &'static str {
    match t {
        Transaction::Script(_) => "Script",
        Transaction::Create(_) => "Create",
        Transaction::Mint(_) => "Mint",
        Transaction::Upgrade(_) => "Upgrade",
        Transaction::Upload(_) => "Upload",
        Transaction::Blob(_) => "Blob",
    }
}

pub fn receipt_variant_name(r: &Receipt) -> &'static str {
    match r {
        Receipt::Call { .. } => "Call",
        Receipt::Return { .. } => "Return",
        Receipt::ReturnData { .. } => "ReturnData",
        Receipt::Panic { .. } => "Panic",
        Receipt::Revert { .. } => "Revert",
        Receipt::Log { .. } => "Log",
        Receipt::LogData { .. } => "LogData",
        Receipt::Transfer { .. } => "Transfer",
        Receipt::TransferOut { .. } => "TransferOut",
        Receipt::ScriptResult { .. } => "ScriptResult",
        Receipt::MessageOut { .. } => "MessageOut",
        Receipt::Mint { .. } => "Mint",
        Receipt::Burn { .. } => "Burn",
    }
}

pub fn input_contract(rng: &mut StdRng, a: &Alphabet, o: &Opts) -> InputContract {
    if o.executed_form {
        InputContract {
            utxo_id: utxo_id(rng),
            balance_root: b32(rng).into(),
            state_root: b32(rng).into(),
            tx_pointer: tx_pointer(rng),
            contract_id: a.contract(rng),
        }
    } else {
        InputContract {
            utxo_id: Default::default(),
            balance_root: Default::default(),
            state_root: Default::default(),
            tx_pointer: Default::default(),
            contract_id: a.contract(rng),
        }
    }
}

pub fn output_contract(rng: &mut StdRng, o: &Opts, n_inputs: usize) -> OutputContract {
    let input_index = if n_inputs > 0 && rng.gen_bool(0.7) {
        rng.gen_range(0..n_inputs) as u16
    } else {
        idx16(rng)
    };
    if o.executed_form {
        OutputContract {
            input_index,
            balance_root: b32(rng).into(),
            state_root: b32(rng).into(),
        }
    } else {
        OutputContract {
            input_index,
            balance_root: Default::default(),
            state_root: Default::default(),
        }
    }
}

/// `variant` in `0..INPUT_VARIANTS`; falls back to a contract input if the
/// source has no coin / message to offer.
pub fn gen_input(
    rng: &mut StdRng,
    a: &Alphabet,
    src: &mut dyn Source,
    o: &Opts,
    variant: u8,
) -> Input {
    let fallback = |rng: &mut StdRng| Input::Contract(input_contract(rng, a, o));
    match variant % INPUT_VARIANTS {
        0 => match src.coin(rng, a) {
            Some(c) => Input::coin_signed(
                c.utxo_id,
                c.owner,
                c.amount,
                c.asset_id,
                c.tx_pointer,
                idx16(rng),
            ),
            None => fallback(rng),
        },
        1 => match src.coin(rng, a) {
            Some(c) => Input::coin_predicate(
                c.utxo_id,
                c.owner,
                c.amount,
                c.asset_id,
                c.tx_pointer,
                word(rng),
                a.predicate(rng),
                bytes(rng, 40),
            ),
            None => fallback(rng),
        },
        2 => fallback(rng),
        3 => match src.msg(rng, a, false) {
            Some(m) => Input::message_coin_signed(
                m.sender,
                m.recipient,
                m.amount,
                m.nonce,
                idx16(rng),
            ),
            None => fallback(rng),
        },
        4 => match src.msg(rng, a, false) {
            Some(m) => Input::message_coin_predicate(
                m.sender,
                m.recipient,
                m.amount,
                m.nonce,
                word(rng),
                a.predicate(rng),
                bytes(rng, 40),
            ),
            None => fallback(rng),
        },
        5 => match src.msg(rng, a, true) {
            Some(m) => Input::message_data_signed(
                m.sender,
                m.recipient,
                m.amount,
                m.nonce,
                idx16(rng),
                m.data,
            ),
            None => fallback(rng),
        },
        _ => match src.msg(rng, a, true) {
            Some(m) => Input::message_data_predicate(
                m.sender,
                m.recipient,
                m.amount,
                m.nonce,
                word(rng),
                m.data,
                a.predicate(rng),
                bytes(rng, 40),
            ),
            None => fallback(rng),
        },
    }
}

pub fn gen_output(
    rng: &mut StdRng,
    a: &Alphabet,
    o: &Opts,
    variant: u8,
    n_inputs: usize,
) -> Output {
    match variant % OUTPUT_VARIANTS {
        0 => Output::coin(a.addr(rng), word(rng), a.asset(rng)),
        1 => Output::Contract(output_contract(rng, o, n_inputs)),
        2 => Output::change(
            a.addr(rng),
            if o.executed_form { word(rng) } else { 0 },
            a.asset(rng),
        ),
        3 => {
            if o.executed_form {
                Output::variable(a.addr(rng), word(rng), a.asset(rng))
            } else {
                Output::variable(Default::default(), 0, Default::default())
            }
        }
        _ => Output::contract_created(a.contract(rng), b32(rng).into()),
    }
}

pub const POLICY_TYPES: [PolicyType; 6] = [
    PolicyType::Tip,
    PolicyType::WitnessLimit,
    PolicyType::Maturity,
    PolicyType::MaxFee,
    PolicyType::Expiration,
    PolicyType::Owner,
];

/// `mask`: which of the six policies are set (bit i = POLICY_TYPES[i]).
pub fn gen_policies(rng: &mut StdRng, mask: u8) -> Policies {
    let mut p = Policies::new();
    for (i, t) in POLICY_TYPES.iter().enumerate() {
        if mask & (1 << i) != 0 {
            let v = match t {
                // heights are u32 in the specification
                PolicyType::Maturity | PolicyType::Expiration => idx32(rng) as u64,
                _ => word(rng),
            };
            p.set(*t, Some(v));
        }
    }
    p
}

fn gen_witnesses(rng: &mut StdRng, o: &Opts, min: usize) -> Vec<Witness> {
    let n = rng.gen_range(min..=o.max_witnesses.max(min));
    (0..n).map(|_| Witness::from(bytes(rng, 80))).collect()
}

fn gen_inputs(
    rng: &mut StdRng,
    a: &Alphabet,
    src: &mut dyn Source,
    o: &Opts,
) -> Vec<Input> {
    let n = rng.gen_range(0..=o.max_inputs);
    (0..n)
        .map(|_| {
            let v = rng.gen_range(0..INPUT_VARIANTS);
            gen_input(rng, a, src, o, v)
        })
        .collect()
}

fn gen_outputs(rng: &mut StdRng, a: &Alphabet, o: &Opts, n_inputs: usize) -> Vec<Output> {
    let n = rng.gen_range(0..=o.max_outputs);
    (0..n)
        .map(|_| {
            let v = rng.gen_range(0..OUTPUT_VARIANTS);
            gen_output(rng, a, o, v, n_inputs)
        })
        .collect()
}

/// kind: 0 Script, 1 Create, 2 Upgrade(ConsensusParameters), 3 Upgrade(StateTransition),
/// 4 Upload, 5 Blob. Never a Mint (see [`gen_mint`]).
pub fn gen_tx(
    rng: &mut StdRng,
    a: &Alphabet,
    src: &mut dyn Source,
    o: &Opts,
    kind: u8,
) -> Transaction {
    let inputs = gen_inputs(rng, a, src, o);
    let outputs = gen_outputs(rng, a, o, inputs.len());
    let mask = if rng.gen_bool(0.15) {
        0
    } else if rng.gen_bool(0.15) {
        0b11_1111
    } else {
        rng.gen_range(0..64u8)
    };
    let policies = gen_policies(rng, mask);
    match kind % TX_KINDS {
        0 => {
            let witnesses = gen_witnesses(rng, o, 0);
            let mut s = Transaction::script(
                word(rng),
                a.script(rng),
                bytes(rng, 60),
                policies,
                inputs,
                outputs,
                witnesses,
            );
            if o.executed_form {
                *s.receipts_root_mut() = b32(rng).into();
            }
            Transaction::Script(s)
        }
        1 => {
            let witnesses = gen_witnesses(rng, o, 1);
            let n_slots = rng.gen_range(0..4);
            let mut slots: Vec<StorageSlot> = Vec::new();
            for _ in 0..n_slots {
                let k: Bytes32 = b32(rng).into();
                if slots.iter().all(|s| s.key() != &k) {
                    slots.push(StorageSlot::new(k, b32(rng).into()));
                }
            }
            let bwi = if rng.gen_bool(0.7) {
                rng.gen_range(0..witnesses.len()) as u16
            } else {
                idx16(rng)
            };
            Transaction::Create(Transaction::create(
                bwi,
                policies,
                Salt::new(b32(rng)),
                slots,
                inputs,
                outputs,
                witnesses,
            ))
        }
        2 => {
            let witnesses = gen_witnesses(rng, o, 1);
            Transaction::Upgrade(Transaction::upgrade(
                UpgradePurpose::ConsensusParameters {
                    witness_index: idx16(rng),
                    checksum: b32(rng).into(),
                },
                policies,
                inputs,
                outputs,
                witnesses,
            ))
        }
        3 => {
            let witnesses = gen_witnesses(rng, o, 0);
            Transaction::Upgrade(Transaction::upgrade(
                UpgradePurpose::StateTransition {
                    root: b32(rng).into(),
                },
                policies,
                inputs,
                outputs,
                witnesses,
            ))
        }
        4 => {
            let witnesses = gen_witnesses(rng, o, 1);
            let n_proof = rng.gen_range(0..4);
            let body = UploadBody {
                root: b32(rng).into(),
                witness_index: idx16(rng),
                subsection_index: idx16(rng),
                subsections_number: idx16(rng),
                proof_set: (0..n_proof).map(|_| b32(rng).into()).collect(),
            };
            Transaction::Upload(Transaction::upload(
                body, policies, inputs, outputs, witnesses,
            ))
        }
        _ => {
            let witnesses = gen_witnesses(rng, o, 0);
            let payload = bytes(rng, 100);
            let body = BlobBody {
                id: if rng.gen_bool(0.5) {
                    BlobId::compute(&payload)
                } else {
                    BlobId::new(b32(rng))
                },
                witness_index: idx16(rng),
            };
            Transaction::Blob(Transaction::blob(
                body, policies, inputs, outputs, witnesses,
            ))
        }
    }
}

pub fn gen_mint(
    rng: &mut StdRng,
    a: &Alphabet,
    o: &Opts,
    height: BlockHeight,
    tx_index: u16,
) -> Transaction {
    let ic = input_contract(rng, a, o);
    let mut oc = output_contract(rng, o, 1);
    oc.input_index = 0;
    Transaction::Mint(Transaction::mint(
        TxPointer::new(height, tx_index),
        ic,
        oc,
        word(rng),
        a.asset(rng),
        word(rng),
    ))
}

fn opt_data(rng: &mut StdRng) -> Option<Vec<u8>> {
    match rng.gen_range(0..4) {
        0 => None,
        1 => Some(vec![]),
        _ => Some(bytes(rng, 48)),
    }
}

/// `variant` in `0..RECEIPT_VARIANTS`; `reason` is the raw panic-reason byte used
/// for `Panic` receipts (decoded by fuel-asm, so unknown bytes become
/// `UnknownPanicReason`, exactly as the VM would produce them).
pub fn gen_receipt(rng: &mut StdRng, a: &Alphabet, variant: u8, reason: u8) -> Receipt {
    let sub = |rng: &mut StdRng| SubAssetId::new(b32(rng));
    match variant % RECEIPT_VARIANTS {
        0 => Receipt::call(
            a.contract(rng),
            a.contract(rng),
            word(rng),
            a.asset(rng),
            word(rng),
            word(rng),
            word(rng),
            word(rng),
            word(rng),
        ),
        1 => Receipt::ret(a.contract(rng), word(rng), word(rng), word(rng)),
        2 => {
            if rng.gen_bool(0.5) {
                Receipt::return_data(
                    a.contract(rng),
                    word(rng),
                    word(rng),
                    word(rng),
                    bytes(rng, 48),
                )
            } else {
                Receipt::return_data_with_len(
                    a.contract(rng),
                    word(rng),
                    word(rng),
                    b32(rng).into(),
                    word(rng),
                    word(rng),
                    opt_data(rng),
                )
            }
        }
        3 => {
            let pr = PanicReason::from(reason);
            let pi = PanicInstruction::error(pr, idx32(rng));
            let cid = if rng.gen_bool(0.5) {
                Some(a.contract(rng))
            } else {
                None
            };
            Receipt::panic(a.contract(rng), pi, word(rng), word(rng))
                .with_panic_contract_id(cid)
        }
        4 => Receipt::revert(a.contract(rng), word(rng), word(rng), word(rng)),
        5 => Receipt::log(
            a.contract(rng),
            word(rng),
            word(rng),
            word(rng),
            word(rng),
            word(rng),
            word(rng),
        ),
        6 => {
            if rng.gen_bool(0.5) {
                Receipt::log_data(
                    a.contract(rng),
                    word(rng),
                    word(rng),
                    word(rng),
                    word(rng),
                    word(rng),
                    bytes(rng, 48),
                )
            } else {
                Receipt::log_data_with_len(
                    a.contract(rng),
                    word(rng),
                    word(rng),
                    word(rng),
                    word(rng),
                    b32(rng).into(),
                    word(rng),
                    word(rng),
                    opt_data(rng),
                )
            }
        }
        7 => Receipt::transfer(
            a.contract(rng),
            a.contract(rng),
            word(rng),
            a.asset(rng),
            word(rng),
            word(rng),
        ),
        8 => Receipt::transfer_out(
            a.contract(rng),
            a.addr(rng),
            word(rng),
            a.asset(rng),
            word(rng),
            word(rng),
        ),
        9 => {
            let r = match rng.gen_range(0..6) {
                0 => ScriptExecutionResult::Success,
                1 => ScriptExecutionResult::Revert,
                2 => ScriptExecutionResult::Panic,
                // generic failure codes, including the ones that collide with the
                // numeric encoding of the other variants
                3 => ScriptExecutionResult::GenericFailure(rng.gen_range(0..4)),
                _ => ScriptExecutionResult::GenericFailure(word(rng)),
            };
            Receipt::script_result(r, word(rng))
        }
        10 => {
            let data = opt_data(rng);
            let (len, digest) = match (&data, rng.gen_bool(0.7)) {
                (Some(d), true) => (d.len() as u64, Output::message_digest(d)),
                _ => (word(rng), b32(rng).into()),
            };
            Receipt::message_out_with_len(
                a.addr(rng),
                a.addr(rng),
                word(rng),
                Nonce::new(b32(rng)),
                len,
                digest,
                data,
            )
        }
        11 => Receipt::mint(sub(rng), a.contract(rng), word(rng), word(rng), word(rng)),
        _ => Receipt::burn(sub(rng), a.contract(rng), word(rng), word(rng), word(rng)),
    }
}

/// RFC 6962 Merkle tree hash (leaf prefix 0x00, node prefix 0x01, split at the
/// largest power of two smaller than n), written from the RFC; used as the
/// independent model of fuel's binary Merkle roots.
pub fn rfc6962_root(leaves: &[Vec<u8>]) -> [u8; 32] {
    use sha2::{
        Digest,
        Sha256,
    };
    fn mth(leaves: &[Vec<u8>]) -> [u8; 32] {
        match leaves.len() {
            0 => Sha256::digest(b"").into(),
            1 => {
                let mut h = Sha256::new();
                h.update([0u8]);
                h.update(&leaves[0]);
                h.finalize().into()
            }
            n => {
                let mut k = 1usize;
                while k * 2 < n {
                    k *= 2;
                }
                let l = mth(&leaves[..k]);
                let r = mth(&leaves[k..]);
                let mut h = Sha256::new();
                h.update([1u8]);
                h.update(l);
                h.update(r);
                h.finalize().into()
            }
        }
    }
    mth(leaves)
}
