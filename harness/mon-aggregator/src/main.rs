//! C43 — block aggregator protobuf conversions round-trip, `StorageDB::store_block`
//! accepts only contiguous heights.
//!
//! Part A (inputs): structurally generated blocks (every transaction kind, input /
//! output variant, policy subset, receipt variant, every panic-reason byte, optional
//! fields None/Some(empty)/Some(data)) whose generated header fields are consistent
//! with their transactions and receipts (the only blocks the node produces and the only
//! ones the conversion can support, because `fuel_block_from_protobuf` re-derives the
//! generated header fields) are converted fuel -> proto -> fuel, both on the message
//! structs and through the prost wire encoding used by `ProtobufBlockConverter`.
//! Oracle: result == input (block, id, receipts).
//!
//! Part B (histories): random store sequences (next / repeat / back / gap / far) are
//! applied to the real `StorageDB` over (a) a plain shared KV store without any
//! height logic of its own and (b) the production `Database<BlockAggregatorDatabase>`.
//! Oracle: a 10-line contiguity model (first store defines the start; afterwards only
//! `current + 1` is accepted; a rejected store changes nothing).

mod txgen;

use fuel_core::database::{
    Database,
    database_description::block_aggregator::BlockAggregatorDatabase,
};
use fuel_core_block_aggregator_api::{
    blocks::old_block_source::{
        BlockConverter,
        convertor_adapter::{
            ProtobufBlockConverter,
            fuel_to_proto_conversions::{
                proto_header_from_header,
                proto_receipts_from_receipts,
                proto_tx_from_tx,
            },
            proto_to_fuel_conversions::fuel_block_from_protobuf,
        },
    },
    db::{
        BlocksStorage,
        storage_db::StorageDB,
        table::{
            Blocks,
            Column,
        },
    },
    protobuf_types::{
        Block as ProtoBlock,
        V1Block as ProtoV1Block,
        block::VersionedBlock as ProtoVersionedBlock,
    },
};
use fuel_core_storage::{
    Result as StorageResult,
    StorageAsRef,
    kv_store::{
        KeyValueInspect,
        Value,
        WriteOperation,
    },
    structured_storage::AsStructuredStorage,
    transactional::{
        Changes,
        Modifiable,
    },
};
use fuel_core_types::{
    blockchain::{
        block::Block,
        header::{
            ApplicationHeader,
            ConsensusHeader,
            PartialBlockHeader,
        },
        primitives::Empty,
    },
    fuel_tx::{
        Input,
        Output,
        Receipt,
        Transaction,
        Witness,
        field::{
            Inputs,
            Outputs,
            Policies as PoliciesField,
            Witnesses,
        },
        policies::Policies,
    },
    fuel_types::{
        BlockHeight,
        MessageId,
        canonical::Serialize,
    },
    tai64::Tai64,
};
use prost::Message as _;
use rand::{
    Rng,
    rngs::StdRng,
};
use serde_json::json;
use std::{
    collections::{
        BTreeMap,
        BTreeSet,
        HashMap,
    },
    sync::{
        Arc,
        Mutex,
    },
};
use txgen::*;
use vcommon::*;

fn main() {
    let args = Args::parse();
    install_quiet_panic_hook();
    let report = Report::new(&args.property);
    match args.property.as_str() {
        "C43" => c43(&args, &report),
        other => {
            report.inconclusive(format!(
                "property {other} not implemented in this monitor"
            ));
            report.finish(&args, "exploration", "", false, &[]);
        }
    }
}

// ---------------------------------------------------------------------------
// Part A: round trip
// ---------------------------------------------------------------------------

struct RtCase {
    block: Block,
    receipts: Vec<Vec<Receipt>>,
}

/// message ids that end up in the block header: the ids of the `MessageOut`
/// receipts of every transaction that did not revert / panic, in order
/// (fuel-specs: only successful transactions emit messages).
fn outbox_ids(receipts: &[Vec<Receipt>]) -> Vec<MessageId> {
    let mut ids = Vec::new();
    for group in receipts {
        let failed = group
            .iter()
            .any(|r| matches!(r, Receipt::Revert { .. } | Receipt::Panic { .. }));
        if !failed {
            for r in group {
                if let Some(id) = r.message_id() {
                    ids.push(id);
                }
            }
        }
    }
    ids
}

fn gen_rt_case(rng: &mut StdRng, iter: u64) -> RtCase {
    let alpha = Alphabet::new(rng, 4, 30);
    let mut src = FreeSource;
    let n_txs = match rng.gen_range(0..10) {
        0 => 0,
        1 => 1,
        _ => rng.gen_range(1..=5),
    };
    let height = BlockHeight::new(idx32(rng));
    let mut txs = Vec::new();
    for i in 0..n_txs {
        let opts = Opts {
            executed_form: rng.gen_bool(0.7),
            ..Default::default()
        };
        // force every kind / variant to come up on a fixed schedule
        let kind = if i == 0 {
            (iter % 7) as u8
        } else {
            rng.gen_range(0..7u8)
        };
        let tx = if kind == 6 {
            let ti = idx16(rng);
            gen_mint(rng, &alpha, &opts, height, ti)
        } else {
            let mut tx = gen_tx(rng, &alpha, &mut src, &opts, kind);
            if i == 0 {
                force_variants(rng, &alpha, &mut src, &opts, &mut tx, iter);
            }
            tx
        };
        txs.push(tx);
    }
    let n_groups = match rng.gen_range(0..10) {
        0 => 0,
        1 => n_txs + 1,
        _ => n_txs,
    };
    let mut receipts = Vec::new();
    for g in 0..n_groups {
        let n = rng.gen_range(0..6);
        let mut group = Vec::new();
        for k in 0..n {
            let (variant, reason) = if g == 0 && k == 0 {
                ((iter % 13) as u8, ((iter / 13) % 256) as u8)
            } else {
                (rng.gen_range(0..RECEIPT_VARIANTS), rng.r#gen())
            };
            group.push(gen_receipt(rng, &alpha, variant, reason));
        }
        receipts.push(group);
    }
    if n_groups > 0 && receipts[0].is_empty() {
        receipts[0].push(gen_receipt(
            rng,
            &alpha,
            (iter % 13) as u8,
            ((iter / 13) % 256) as u8,
        ));
    }
    let header = PartialBlockHeader {
        application: ApplicationHeader {
            da_height: word(rng).into(),
            consensus_parameters_version: idx32(rng),
            state_transition_bytecode_version: idx32(rng),
            generated: Empty,
        },
        consensus: ConsensusHeader {
            prev_root: if rng.gen_bool(0.2) {
                Default::default()
            } else {
                b32(rng).into()
            },
            height,
            time: Tai64(word(rng)),
            generated: Empty,
        },
    };
    let event_inbox_root = if rng.gen_bool(0.3) {
        Default::default()
    } else {
        b32(rng).into()
    };
    let ids = outbox_ids(&receipts);
    let block = Block::new(header, txs, &ids, event_inbox_root)
        .expect("fewer than u16::MAX transactions");
    RtCase { block, receipts }
}

/// make sure input variant `iter % 7`, output variant `iter % 5` and policy mask
/// `iter % 64` occur in the first transaction
fn force_variants(
    rng: &mut StdRng,
    a: &Alphabet,
    src: &mut dyn Source,
    o: &Opts,
    tx: &mut Transaction,
    iter: u64,
) {
    let input = gen_input(rng, a, src, o, (iter % 7) as u8);
    let output = gen_output(rng, a, o, (iter % 5) as u8, 1);
    let policies = gen_policies(rng, (iter % 64) as u8);
    macro_rules! patch {
        ($t:expr) => {{
            $t.inputs_mut().push(input);
            $t.outputs_mut().push(output);
            *$t.policies_mut() = policies;
        }};
    }
    match tx {
        Transaction::Script(t) => patch!(t),
        Transaction::Create(t) => patch!(t),
        Transaction::Upgrade(t) => patch!(t),
        Transaction::Upload(t) => patch!(t),
        Transaction::Blob(t) => patch!(t),
        Transaction::Mint(_) => {}
    }
}

fn parts(
    tx: &Transaction,
) -> Option<(&Policies, &Vec<Input>, &Vec<Output>, &Vec<Witness>)> {
    match tx {
        Transaction::Script(t) => {
            Some((t.policies(), t.inputs(), t.outputs(), t.witnesses()))
        }
        Transaction::Create(t) => {
            Some((t.policies(), t.inputs(), t.outputs(), t.witnesses()))
        }
        Transaction::Upgrade(t) => {
            Some((t.policies(), t.inputs(), t.outputs(), t.witnesses()))
        }
        Transaction::Upload(t) => {
            Some((t.policies(), t.inputs(), t.outputs(), t.witnesses()))
        }
        Transaction::Blob(t) => {
            Some((t.policies(), t.inputs(), t.outputs(), t.witnesses()))
        }
        Transaction::Mint(_) => None,
    }
}

fn trunc(s: String) -> String {
    if s.chars().count() > 700 {
        let t: String = s.chars().take(700).collect();
        format!("{t}…")
    } else {
        s
    }
}

/// Where do (block, receipts) and (block', receipts') differ? `None` = equal.
/// Returns (stable location key, human detail).
fn diff(
    a: &Block,
    ra: &[Vec<Receipt>],
    b: &Block,
    rb: &[Vec<Receipt>],
) -> Option<(String, String)> {
    let (ha, hb) = (a.header(), b.header());
    macro_rules! hf {
        ($name:literal, $e:expr) => {{
            let f = $e;
            let (x, y) = (f(ha), f(hb));
            if x != y {
                return Some((
                    format!("header.{}", $name),
                    format!("expected {x:?} got {y:?}"),
                ));
            }
        }};
    }
    use fuel_core_types::blockchain::header::BlockHeader as H;
    hf!("da_height", |h: &H| h.da_height());
    hf!("consensus_parameters_version", |h: &H| h
        .consensus_parameters_version());
    hf!("state_transition_bytecode_version", |h: &H| h
        .state_transition_bytecode_version());
    hf!("transactions_count", |h: &H| h.transactions_count());
    hf!("message_receipt_count", |h: &H| h.message_receipt_count());
    hf!("transactions_root", |h: &H| h.transactions_root());
    hf!("message_outbox_root", |h: &H| h.message_outbox_root());
    hf!("event_inbox_root", |h: &H| h.event_inbox_root());
    hf!("prev_root", |h: &H| *h.prev_root());
    hf!("height", |h: &H| *h.height());
    hf!("time", |h: &H| h.time());
    hf!("application_hash", |h: &H| *h.application_hash());
    let (ta, tb) = (a.transactions(), b.transactions());
    if ta.len() != tb.len() {
        return Some((
            "transactions.len".into(),
            format!("expected {} got {}", ta.len(), tb.len()),
        ));
    }
    for (i, (x, y)) in ta.iter().zip(tb.iter()).enumerate() {
        if x == y && x.to_bytes() == y.to_bytes() {
            continue;
        }
        let kind = tx_kind_name(x);
        if kind != tx_kind_name(y) {
            return Some((
                format!("tx={kind} part=kind"),
                format!("tx #{i}: expected {kind} got {}", tx_kind_name(y)),
            ));
        }
        if let (Some(px), Some(py)) = (parts(x), parts(y)) {
            if px.0 != py.0 {
                return Some((
                    format!("tx={kind} part=policies"),
                    format!("tx #{i}: expected {:?} got {:?}", px.0, py.0),
                ));
            }
            if px.1.len() != py.1.len() {
                return Some((
                    format!("tx={kind} part=inputs.len"),
                    format!("tx #{i}"),
                ));
            }
            for (ix, iy) in px.1.iter().zip(py.1.iter()) {
                if ix != iy {
                    return Some((
                        format!("tx={kind} part=input variant={}", input_variant_name(ix)),
                        trunc(format!("tx #{i}: expected {ix:?} got {iy:?}")),
                    ));
                }
            }
            if px.2.len() != py.2.len() {
                return Some((
                    format!("tx={kind} part=outputs.len"),
                    format!("tx #{i}"),
                ));
            }
            for (ox, oy) in px.2.iter().zip(py.2.iter()) {
                if ox != oy {
                    return Some((
                        format!(
                            "tx={kind} part=output variant={}",
                            output_variant_name(ox)
                        ),
                        trunc(format!("tx #{i}: expected {ox:?} got {oy:?}")),
                    ));
                }
            }
            if px.3 != py.3 {
                return Some((
                    format!("tx={kind} part=witnesses"),
                    trunc(format!("tx #{i}: expected {:?} got {:?}", px.3, py.3)),
                ));
            }
        }
        return Some((
            format!("tx={kind} part=body"),
            trunc(format!("tx #{i}: expected {x:?} got {y:?}")),
        ));
    }
    if ra.len() != rb.len() {
        return Some((
            "receipts.groups".into(),
            format!("expected {} groups got {}", ra.len(), rb.len()),
        ));
    }
    for (g, (ga, gb)) in ra.iter().zip(rb.iter()).enumerate() {
        if ga.len() != gb.len() {
            return Some((
                "receipts.group.len".into(),
                format!("group {g}: expected {} got {}", ga.len(), gb.len()),
            ));
        }
        for (x, y) in ga.iter().zip(gb.iter()) {
            if x == y {
                continue;
            }
            let v = receipt_variant_name(x);
            if let (
                Receipt::Panic {
                    id: i1,
                    reason: r1,
                    pc: p1,
                    is: s1,
                    contract_id: c1,
                },
                Receipt::Panic {
                    id: i2,
                    reason: r2,
                    pc: p2,
                    is: s2,
                    contract_id: c2,
                },
            ) = (x, y)
            {
                let field = if r1.reason() != r2.reason() {
                    format!("reason.reason value={:?}", r1.reason())
                } else if r1.instruction() != r2.instruction() {
                    "reason.instruction".to_string()
                } else if i1 != i2 {
                    "id".to_string()
                } else if p1 != p2 || s1 != s2 {
                    "pc/is".to_string()
                } else if c1 != c2 {
                    "contract_id".to_string()
                } else {
                    "?".to_string()
                };
                return Some((
                    format!("receipt=Panic field={field}"),
                    trunc(format!("expected {x:?} got {y:?}")),
                ));
            }
            return Some((
                format!("receipt={v}"),
                trunc(format!("expected {x:?} got {y:?}")),
            ));
        }
    }
    if a.id() != b.id() {
        return Some((
            "block_id".into(),
            format!("expected {:?} got {:?}", a.id(), b.id()),
        ));
    }
    if a != b {
        return Some(("block(other)".into(), "blocks differ".into()));
    }
    None
}

type RtResult = Result<(Block, Vec<Vec<Receipt>>), String>;

fn roundtrip_struct(c: &RtCase) -> RtResult {
    let proto_block = ProtoBlock {
        versioned_block: Some(ProtoVersionedBlock::V1(ProtoV1Block {
            header: Some(proto_header_from_header(c.block.header())),
            transactions: c.block.transactions().iter().map(proto_tx_from_tx).collect(),
            receipts: c
                .receipts
                .iter()
                .map(|r| proto_receipts_from_receipts(r))
                .collect(),
        })),
    };
    fuel_block_from_protobuf(proto_block).map_err(|e| format!("{e}"))
}

fn roundtrip_wire(c: &RtCase) -> RtResult {
    let bytes = ProtobufBlockConverter
        .convert_block(&c.block, &c.receipts)
        .map_err(|e| format!("convert_block: {e}"))?;
    let proto_block = ProtoBlock::decode(&*bytes).map_err(|e| format!("decode: {e}"))?;
    fuel_block_from_protobuf(proto_block).map_err(|e| format!("{e}"))
}

fn shape_key(c: &RtCase) -> u64 {
    let mut kinds = BTreeMap::<&str, u32>::new();
    let mut vars = BTreeSet::<String>::new();
    for tx in c.block.transactions() {
        *kinds.entry(tx_kind_name(tx)).or_default() += 1;
        if let Some((p, i, o, w)) = parts(tx) {
            vars.insert(format!("p{}", p.bits()));
            for x in i {
                vars.insert(format!("i{}", input_variant_name(x)));
            }
            for x in o {
                vars.insert(format!("o{}", output_variant_name(x)));
            }
            vars.insert(format!("w{}", w.len().min(3)));
        }
    }
    for g in &c.receipts {
        for r in g {
            vars.insert(format!("r{}", receipt_variant_name(r)));
        }
    }
    hash64(&(kinds, vars, c.receipts.len()))
}

fn observe_case(report: &Report, c: &RtCase, reasons: &Mutex<BTreeSet<u8>>) {
    report.count("rt.cases");
    if c.block.transactions().is_empty() {
        report.count("rt.empty_blocks");
    }
    for tx in c.block.transactions() {
        report.count(&format!("rt.tx.{}", tx_kind_name(tx)));
        if let Transaction::Upgrade(u) = tx {
            use fuel_core_types::fuel_tx::{
                UpgradePurpose,
                field::UpgradePurpose as _,
            };
            match u.upgrade_purpose() {
                UpgradePurpose::ConsensusParameters { .. } => {
                    report.count("rt.upgrade.ConsensusParameters")
                }
                UpgradePurpose::StateTransition { .. } => {
                    report.count("rt.upgrade.StateTransition")
                }
            }
        }
        if let Some((p, i, o, w)) = parts(tx) {
            for (k, t) in POLICY_TYPES.iter().enumerate() {
                if p.is_set(*t) {
                    report.count(&format!("rt.policy.{k}"));
                }
            }
            if p.is_empty() {
                report.count("rt.policy.none");
            }
            for x in i {
                report.count(&format!("rt.input.{}", input_variant_name(x)));
            }
            for x in o {
                report.count(&format!("rt.output.{}", output_variant_name(x)));
            }
            if w.is_empty() {
                report.count("rt.witnesses.none");
            }
        }
    }
    for g in &c.receipts {
        if g.is_empty() {
            report.count("rt.receipt_group.empty");
        }
        let failed = g
            .iter()
            .any(|r| matches!(r, Receipt::Revert { .. } | Receipt::Panic { .. }));
        if failed && g.iter().any(|r| r.message_id().is_some()) {
            // its messages must NOT be committed to by the header
            report.count("rt.reverted_group_with_message_out");
        }
        for r in g {
            report.count(&format!("rt.receipt.{}", receipt_variant_name(r)));
            match r {
                Receipt::Panic {
                    reason,
                    contract_id,
                    ..
                } => {
                    reasons.lock().unwrap().insert(*reason.reason() as u8);
                    if contract_id.is_some() {
                        report.count("rt.receipt.Panic.contract_id.some");
                    } else {
                        report.count("rt.receipt.Panic.contract_id.none");
                    }
                }
                Receipt::ReturnData { data, .. }
                | Receipt::LogData { data, .. }
                | Receipt::MessageOut { data, .. } => match data {
                    None => report.count("rt.receipt.data.none"),
                    Some(d) if d.is_empty() => report.count("rt.receipt.data.empty"),
                    Some(_) => report.count("rt.receipt.data.some"),
                },
                _ => {}
            }
        }
    }
    if c.block.header().message_receipt_count() > 0 {
        report.count("rt.blocks_with_outbox_messages");
    }
}

fn judge_rt(
    report: &Report,
    c: &RtCase,
    selftest: u32,
    replay: serde_json::Value,
) {
    report.eval();
    let pfx = if selftest > 0 { "selftest:" } else { "" };
    for (path, f) in [
        ("struct", roundtrip_struct as fn(&RtCase) -> RtResult),
        ("wire", roundtrip_wire as fn(&RtCase) -> RtResult),
    ] {
        let res = catch(|| f(c));
        let (mut block, mut receipts) = match res {
            Err(p) => {
                report.count("rt.panics");
                report.violation(
                    format!("{pfx}roundtrip_panic path={path}"),
                    format!("conversion panicked: {p}"),
                    replay.clone(),
                );
                return;
            }
            Ok(Err(e)) => {
                report.count("rt.errors");
                // keep the message but not the data-dependent tail in the signature
                let short: String = e.chars().take(60).collect();
                report.violation(
                    format!("{pfx}roundtrip_error path={path} err={short}"),
                    format!("a supported block failed to convert back: {e}"),
                    replay.clone(),
                );
                return;
            }
            Ok(Ok(v)) => v,
        };
        // harness-side perturbations proving the oracle is not vacuous
        match selftest {
            1 => {
                let h = block.header().da_height();
                block.header_mut().set_da_height((h.0 ^ 1).into());
            }
            2 => {
                if let Some(g) = receipts.iter_mut().find(|g| g.len() >= 2) {
                    if g[0] != g[1] {
                        g.swap(0, 1);
                    }
                }
            }
            3 => {
                if let Some(tx) = block.transactions_mut().first_mut() {
                    if let Transaction::Script(s) = tx {
                        s.witnesses_mut().push(vec![1u8].into());
                    }
                }
            }
            _ => {}
        }
        if let Some((loc, detail)) = diff(&c.block, &c.receipts, &block, &receipts) {
            report.count("rt.mismatches");
            let sig = if path == "struct" {
                format!("{pfx}roundtrip_mismatch {loc}")
            } else {
                format!("{pfx}roundtrip_mismatch(wire only) {loc}")
            };
            report.violation(sig, detail, replay.clone());
            // the wire path would report the same thing again
            return;
        }
        report.count(&format!("rt.ok.{path}"));
    }
}

// ---------------------------------------------------------------------------
// Part B: store sequences
// ---------------------------------------------------------------------------

/// Plain shared key-value store (no height logic of its own): the harness keeps a
/// handle so it can read back what `StorageDB` wrote.
#[derive(Clone, Default)]
struct SharedKv(Arc<Mutex<HashMap<(u32, Vec<u8>), Value>>>);

impl KeyValueInspect for SharedKv {
    type Column = Column;

    fn get(&self, key: &[u8], column: Self::Column) -> StorageResult<Option<Value>> {
        Ok(self
            .0
            .lock()
            .unwrap()
            .get(&(column.as_u32(), key.to_vec()))
            .cloned())
    }
}

impl Modifiable for SharedKv {
    fn commit_changes(&mut self, changes: Changes) -> StorageResult<()> {
        let mut m = self.0.lock().unwrap();
        for (column, ops) in changes {
            for (key, op) in ops {
                let key: Vec<u8> = key.into();
                match op {
                    WriteOperation::Insert(v) => {
                        m.insert((column, key), v);
                    }
                    WriteOperation::Remove => {
                        m.remove(&(column, key));
                    }
                }
            }
        }
        Ok(())
    }
}

fn block_bytes_for(rng: &mut StdRng, height: u32) -> Arc<[u8]> {
    let header = PartialBlockHeader {
        application: Default::default(),
        consensus: ConsensusHeader {
            prev_root: b32(rng).into(),
            height: height.into(),
            time: Tai64(rng.r#gen()),
            generated: Empty,
        },
    };
    let block = Block::new(header, vec![], &[], Default::default()).unwrap();
    ProtobufBlockConverter
        .convert_block(&block, &[])
        .expect("convert_block")
}

trait ReadBack {
    fn read_block(&self, h: u32) -> Result<Option<Arc<[u8]>>, String>;
}

impl<S> ReadBack for S
where
    S: KeyValueInspect<Column = Column>,
{
    fn read_block(&self, h: u32) -> Result<Option<Arc<[u8]>>, String> {
        self.as_structured_storage()
            .storage_as_ref::<Blocks>()
            .get(&BlockHeight::new(h))
            .map(|o| o.map(|c| c.into_owned()))
            .map_err(|e| format!("{e}"))
    }
}

#[derive(Clone, Debug, serde::Serialize)]
struct StoreOp {
    class: &'static str,
    height: u32,
}

fn gen_store_seq(rng: &mut StdRng, len: usize) -> Vec<StoreOp> {
    // heights 0..=6 (design), plus windows further up and at the very top of u32
    let base: u32 = match rng.gen_range(0..8) {
        0..=3 => 0,
        4 => 1,
        5 => rng.gen_range(2..1000),
        6 => 0x00ff_fffd,
        _ => u32::MAX - rng.gen_range(1..5),
    };
    let mut cur: Option<u32> = None;
    let mut ops = Vec::new();
    for _ in 0..len {
        let (class, h) = match cur {
            None => ("first", base.saturating_add(rng.gen_range(0..3))),
            Some(c) => match rng.gen_range(0..100) {
                0..=44 => match c.checked_add(1) {
                    Some(n) => ("next", n),
                    None => ("wrap", 0),
                },
                45..=57 => ("repeat", c),
                58..=69 => ("back", c.saturating_sub(rng.gen_range(1..4))),
                70..=84 => ("gap", c.saturating_add(rng.gen_range(2..4))),
                85..=92 => ("far", rng.r#gen()),
                _ => ("zero", 0),
            },
        };
        // classes are named by intent; normalise the degenerate draws
        let class = match (cur, class) {
            (Some(c), _) if c.checked_add(1) == Some(h) => "next",
            (Some(c), "back" | "zero" | "far" | "gap") if h == c => "repeat",
            (_, k) => k,
        };
        // the generator's view of the outcome is only used to steer the walk
        if cur.is_none() || cur.and_then(|c| c.checked_add(1)) == Some(h) {
            cur = Some(h);
        }
        ops.push(StoreOp { class, height: h });
    }
    ops
}

fn run_store_seq<S>(
    report: &Report,
    backend: &'static str,
    storage: S,
    handle: &dyn ReadBack,
    ops: &[StoreOp],
    rng: &mut StdRng,
    selftest: u32,
    replay: serde_json::Value,
) where
    S: Modifiable + Send + Sync + KeyValueInspect<Column = Column>,
{
    let pfx = if selftest > 0 { "selftest:" } else { "" };
    let mut db = StorageDB::new(storage);
    // the model
    let mut cur: Option<u32> = None;
    let mut stored: BTreeMap<u32, Arc<[u8]>> = BTreeMap::new();
    let mut trace: Vec<String> = Vec::new();
    for (i, op) in ops.iter().enumerate() {
        report.eval();
        report.count("store.ops");
        let bytes = block_bytes_for(rng, op.height);
        let h = BlockHeight::new(op.height);
        let res = catch(|| futures::executor::block_on(db.store_block(h, &bytes)));
        let mut ok = match res {
            Err(p) => {
                report.inconclusive(format!("store_block panicked: {p}"));
                return;
            }
            Ok(r) => r.is_ok(),
        };
        if selftest == 4 && op.class == "gap" {
            // deliberately wrong wrapper: claims a gap store succeeded
            ok = true;
        }
        if selftest == 5 && op.class == "next" && i % 3 == 2 {
            // deliberately wrong wrapper: claims the next height was refused
            ok = false;
        }
        let expect_ok = match cur {
            None => true,
            Some(c) => c.checked_add(1) == Some(op.height),
        };
        trace.push(format!(
            "{}({}):{}",
            op.class,
            op.height,
            if ok { "ok" } else { "err" }
        ));
        report.count(&format!(
            "store.{}.{}",
            if ok { "accepted" } else { "rejected" },
            op.class
        ));
        if ok && !expect_ok {
            let sig = if cur == Some(u32::MAX) {
                format!(
                    "{pfx}store_block accepted a height after u32::MAX backend={backend}"
                )
            } else {
                format!(
                    "{pfx}store_block accepted non-contiguous height class={} backend={backend}",
                    op.class
                )
            };
            report.violation(
                sig,
                format!(
                    "current height {cur:?}, store_block({}) returned Ok; history: {}",
                    op.height,
                    trace.join(" ")
                ),
                replay.clone(),
            );
            return;
        }
        if !ok && expect_ok {
            report.violation(
                format!(
                    "{pfx}store_block rejected the {} height backend={backend}",
                    if cur.is_none() { "first" } else { "next contiguous" }
                ),
                format!(
                    "current height {cur:?}, store_block({}) returned Err; history: {}",
                    op.height,
                    trace.join(" ")
                ),
                replay.clone(),
            );
            return;
        }
        if ok {
            cur = Some(op.height);
            stored.insert(op.height, bytes.clone());
        }
        // a rejected store changes nothing; an accepted one is visible
        let got_cur = db.get_current_height().map(|o| o.map(|h| *h));
        match got_cur {
            Ok(g) if g == cur => {}
            other => {
                report.violation(
                    format!("{pfx}current height wrong after store backend={backend}"),
                    format!(
                        "model {cur:?}, get_current_height() = {other:?}; history: {}",
                        trace.join(" ")
                    ),
                    replay.clone(),
                );
                return;
            }
        }
        let mut probe: BTreeSet<u32> = stored.keys().copied().collect();
        probe.insert(op.height);
        for ph in probe {
            let got = handle.read_block(ph);
            let want = stored.get(&ph).cloned();
            if got.as_ref().ok() != Some(&want) {
                report.violation(
                    format!(
                        "{pfx}stored block differs from model after {} store backend={backend}",
                        if ok { "accepted" } else { "rejected" }
                    ),
                    format!(
                        "height {ph}: model has {} bytes, storage returned {:?}; history: {}",
                        want.map(|b| b.len() as i64).unwrap_or(-1),
                        got.map(|o| o.map(|b| b.len())),
                        trace.join(" ")
                    ),
                    replay.clone(),
                );
                return;
            }
        }
    }
    let classes: Vec<&str> = ops.iter().map(|o| o.class).collect();
    if classes.iter().any(|c| *c != "first" && *c != "next") {
        report.distinct(&("store", backend, trace.clone()));
    }
    if report.wants_sample() && ops.len() > 4 {
        report.sample(json!({"kind": "store_sequence", "backend": backend, "history": trace}));
    }
}

// ---------------------------------------------------------------------------

fn c43(args: &Args, report: &Report) {
    let selftest: u32 = args
        .extra
        .get("selftest")
        .and_then(|s| s.parse().ok())
        .unwrap_or(0);
    let replay = read_replay(args);
    let reasons: Arc<Mutex<BTreeSet<u8>>> = Default::default();

    let rt_shards = args.by_tier(16usize, 64);
    let rt_iters = args.by_tier(4000u64, 40_000);
    let st_shards = args.by_tier(16usize, 64);
    let st_seqs = args.by_tier(300u64, 3000);

    if let Some(rp) = &replay {
        // re-execute exactly the recorded case
        let part = rp["part"].as_str().unwrap_or("");
        let shard_seed = rp["shard_seed"].as_u64().unwrap_or(0);
        let iter = rp["iteration"].as_u64().unwrap_or(0);
        if part == "roundtrip" {
            let mut rng = rng_for(shard_seed, &[tag("rt"), iter]);
            let c = gen_rt_case(&mut rng, iter);
            observe_case(report, &c, &reasons);
            judge_rt(report, &c, selftest, rp.clone());
        } else {
            let mut rng = rng_for(shard_seed, &[tag("store"), iter]);
            let ops = gen_store_seq(&mut rng, 14);
            store_both(report, &ops, &mut rng, selftest, rp.clone());
        }
        report.finish(args, "exploration", RULE, false, ASSUMPTIONS);
        return;
    }

    {
        let report2 = report.clone();
        let reasons = reasons.clone();
        run_shards(report, args, rt_shards, move |shard, seed| {
            for i in 0..rt_iters {
                // a global iteration number drives the forced-variant schedule so that
                // the shards together sweep it
                let iter = i * rt_shards as u64 + shard as u64;
                let mut rng = rng_for(seed, &[tag("rt"), iter]);
                let c = gen_rt_case(&mut rng, iter);
                observe_case(&report2, &c, &reasons);
                if !c.block.transactions().is_empty()
                    && c.receipts.iter().any(|g| !g.is_empty())
                {
                    report2.distinct_hash(shape_key(&c));
                }
                if report2.wants_sample() && i == 3 {
                    report2.sample(json!({
                        "kind": "roundtrip_case",
                        "txs": c.block.transactions().iter().map(tx_kind_name).collect::<Vec<_>>(),
                        "receipts": c.receipts.iter().map(|g| g.iter().map(receipt_variant_name).collect::<Vec<_>>()).collect::<Vec<_>>(),
                        "header": trunc(format!("{:?}", c.block.header())),
                    }));
                }
                let rp = json!({"part": "roundtrip", "seed": seed, "shard_seed": seed, "shard": shard, "iteration": iter});
                judge_rt(&report2, &c, selftest, rp);
            }
        });
    }
    {
        let report2 = report.clone();
        run_shards(report, args, st_shards, move |shard, seed| {
            for i in 0..st_seqs {
                let mut rng = rng_for(seed, &[tag("store"), i]);
                let ops = gen_store_seq(&mut rng, 14);
                let rp = json!({"part": "store", "seed": seed, "shard_seed": seed, "shard": shard, "iteration": i, "ops": ops});
                store_both(&report2, &ops, &mut rng, selftest, rp);
            }
        });
    }

    let n_reasons = reasons.lock().unwrap().len() as u64;
    report.add("rt.panic_reasons_distinct", n_reasons);
    report.info(
        "panic_reasons_seen",
        json!(reasons.lock().unwrap().iter().collect::<Vec<_>>()),
    );

    if selftest == 0 {
        report.require("rt.cases", args.by_tier(60_000, 2_000_000));
        report.require("rt.ok.struct", args.by_tier(50_000, 1_500_000));
        for k in ["Script", "Create", "Mint", "Upgrade", "Upload", "Blob"] {
            report.require(&format!("rt.tx.{k}"), 500);
        }
        report.require("rt.upgrade.ConsensusParameters", 200);
        report.require("rt.upgrade.StateTransition", 200);
        for k in [
            "CoinSigned",
            "CoinPredicate",
            "Contract",
            "MessageCoinSigned",
            "MessageCoinPredicate",
            "MessageDataSigned",
            "MessageDataPredicate",
        ] {
            report.require(&format!("rt.input.{k}"), 500);
        }
        for k in ["Coin", "Contract", "Change", "Variable", "ContractCreated"] {
            report.require(&format!("rt.output.{k}"), 500);
        }
        for k in 0..6 {
            report.require(&format!("rt.policy.{k}"), 500);
        }
        report.require("rt.policy.none", 100);
        for k in [
            "Call",
            "Return",
            "ReturnData",
            "Panic",
            "Revert",
            "Log",
            "LogData",
            "Transfer",
            "TransferOut",
            "ScriptResult",
            "MessageOut",
            "Mint",
            "Burn",
        ] {
            report.require(&format!("rt.receipt.{k}"), 500);
        }
        // every reason the VM can emit (the decoded set of all 256 reason bytes)
        report.require("rt.panic_reasons_distinct", 67);
        report.require("rt.receipt.data.none", 100);
        report.require("rt.receipt.data.empty", 100);
        report.require("rt.blocks_with_outbox_messages", 200);
        report.require("rt.reverted_group_with_message_out", 200);
        report.require("store.ops", args.by_tier(100_000, 1_000_000));
        report.require("store.accepted.next", 2000);
        report.require("store.accepted.first", 500);
        report.require("store.rejected.repeat", 300);
        report.require("store.rejected.back", 300);
        report.require("store.rejected.gap", 300);
        report.require("store.rejected.far", 100);
    }
    report.finish(args, "exploration", RULE, false, ASSUMPTIONS);
}

fn store_both(
    report: &Report,
    ops: &[StoreOp],
    rng: &mut StdRng,
    selftest: u32,
    rp: serde_json::Value,
) {
    let kv = SharedKv::default();
    run_store_seq(report, "kv", kv.clone(), &kv, ops, rng, selftest, rp.clone());
    let db = Database::<BlockAggregatorDatabase>::in_memory();
    run_store_seq(report, "database", db.clone(), &db, ops, rng, selftest, rp);
}

const RULE: &str = "roundtrip: per iteration one structurally generated block (0-5 txs of \
all six kinds incl. both upgrade purposes, inputs/outputs of every variant, policy \
subsets, 0..n+1 receipt groups with every receipt variant; variant k / panic-reason byte \
are forced on a fixed schedule so that all appear) whose generated header fields are \
derived from its txs and receipts; converted fuel->proto->fuel on the message structs \
and through prost bytes; distinct = distinct (tx-kind multiset, set of \
policy-masks/input/output/receipt variants) of blocks with >=1 tx and >=1 receipt. \
store: random 14-op sequences (first/next/repeat/back/gap/far/zero, windows at 0, \
mid-range, 2^24 and the top of u32) against StorageDB over a plain KV store and over \
Database<BlockAggregatorDatabase>; distinct = distinct (op class, height, result) \
histories containing at least one non-next op";

const ASSUMPTIONS: &[&str] = &[
    "blocks are structurally generated, not executed; header generated fields are derived from txs/receipts with the executor's rule (message ids of non-reverted txs)",
    "prost encoding/decoding and fuel-tx constructors are trusted",
    "fault-proving (V2 header) is not compiled in",
];
