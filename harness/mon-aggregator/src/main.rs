use vcommon::*;

fn main() {
    let args = Args::parse();
    install_quiet_panic_hook();
    let report = Report::new(&args.property);
    match args.property.as_str() {
        other => report.inconclusive(format!("property {other} not implemented in this monitor")),
    }
    report.finish(&args, "exploration", "", false, &[]);
}
