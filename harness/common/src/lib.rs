//! Shared plumbing for the runtime monitors: argument parsing, seeded RNG,
//! three-valued verdict reporting, evidence counters, event logs, panic capture
//! and a shard runner. The python driver (`/verif/check`) consumes the result
//! JSON written by [`Report::finish`].

use rand::{
    Rng,
    SeedableRng,
    rngs::StdRng,
};
use serde_json::{
    Value,
    json,
};
use std::{
    collections::{
        BTreeMap,
        HashSet,
    },
    hash::{
        Hash,
        Hasher,
    },
    panic::{
        AssertUnwindSafe,
        catch_unwind,
    },
    path::PathBuf,
    sync::{
        Arc,
        Mutex,
        atomic::{
            AtomicBool,
            AtomicU64,
            Ordering,
        },
    },
    time::Instant,
};

pub use rand;
pub use serde_json;

#[derive(Clone, Debug, PartialEq, Eq)]
pub enum Tier {
    Quick,
    Thorough,
}

#[derive(Clone, Debug)]
pub struct Args {
    pub property: String,
    pub seed: u64,
    pub tier: Tier,
    pub out: PathBuf,
    pub replay: Option<PathBuf>,
    pub threads: usize,
    /// scratch dir for temp databases etc. (cleaned by the driver)
    pub scratch: PathBuf,
    /// free-form extra `--key value` pairs
    pub extra: BTreeMap<String, String>,
}

impl Args {
    pub fn parse() -> Self {
        let mut property = String::new();
        let mut seed = 0u64;
        let mut tier = Tier::Quick;
        let mut out = PathBuf::from("result.json");
        let mut replay = None;
        let mut threads = std::thread::available_parallelism()
            .map(|n| n.get())
            .unwrap_or(8);
        let mut scratch = std::env::temp_dir();
        let mut extra = BTreeMap::new();
        let argv: Vec<String> = std::env::args().skip(1).collect();
        let mut i = 0;
        while i < argv.len() {
            let k = argv[i].clone();
            let v = argv.get(i + 1).cloned().unwrap_or_default();
            match k.as_str() {
                "--property" => property = v,
                "--seed" => seed = v.parse().expect("seed"),
                "--tier" => {
                    tier = if v == "thorough" {
                        Tier::Thorough
                    } else {
                        Tier::Quick
                    }
                }
                "--out" => out = PathBuf::from(v),
                "--replay" => replay = Some(PathBuf::from(v)),
                "--threads" => threads = v.parse().expect("threads"),
                "--scratch" => scratch = PathBuf::from(v),
                other => {
                    extra.insert(other.trim_start_matches("--").to_string(), v);
                }
            }
            i += 2;
        }
        Args {
            property,
            seed,
            tier,
            out,
            replay,
            threads,
            scratch,
            extra,
        }
    }

    pub fn is_thorough(&self) -> bool {
        self.tier == Tier::Thorough
    }

    pub fn tier_str(&self) -> &'static str {
        if self.is_thorough() { "thorough" } else { "quick" }
    }

    /// pick a bound by tier
    pub fn by_tier<T>(&self, quick: T, thorough: T) -> T {
        if self.is_thorough() { thorough } else { quick }
    }
}

/// splitmix-style mixing of a seed with tags
pub fn mix(seed: u64, tags: &[u64]) -> u64 {
    let mut x = seed ^ 0x9E37_79B9_7F4A_7C15;
    for t in tags {
        x = x.wrapping_add(*t).wrapping_add(0x9E37_79B9_7F4A_7C15);
        x = (x ^ (x >> 30)).wrapping_mul(0xBF58_476D_1CE4_E5B9);
        x = (x ^ (x >> 27)).wrapping_mul(0x94D0_49BB_1331_11EB);
        x ^= x >> 31;
    }
    x
}

pub fn tag(s: &str) -> u64 {
    let mut h = std::collections::hash_map::DefaultHasher::new();
    s.hash(&mut h);
    h.finish()
}

pub fn rng_for(seed: u64, tags: &[u64]) -> StdRng {
    StdRng::seed_from_u64(mix(seed, tags))
}

pub fn hash64<T: Hash>(t: &T) -> u64 {
    let mut h = std::collections::hash_map::DefaultHasher::new();
    t.hash(&mut h);
    h.finish()
}

pub fn pick<'a, T, R: Rng>(rng: &mut R, xs: &'a [T]) -> &'a T {
    &xs[rng.gen_range(0..xs.len())]
}

pub fn chance<R: Rng>(rng: &mut R, percent: u32) -> bool {
    rng.gen_range(0..100u32) < percent
}

static QUIET_PANICS: AtomicBool = AtomicBool::new(false);
static PANIC_LOG: Mutex<Vec<String>> = Mutex::new(Vec::new());

/// Install a panic hook that records panic messages (with location) instead of
/// printing them. Call once at start of main.
pub fn install_quiet_panic_hook() {
    QUIET_PANICS.store(true, Ordering::SeqCst);
    let default = std::panic::take_hook();
    std::panic::set_hook(Box::new(move |info| {
        if QUIET_PANICS.load(Ordering::SeqCst) {
            let msg = format!("{info}");
            let mut l = PANIC_LOG.lock().unwrap_or_else(|e| e.into_inner());
            if l.len() < 200 {
                l.push(msg);
            }
        } else {
            default(info);
        }
    }));
}

/// Run `f`, converting a panic into `Err(message with location)`.
pub fn catch<T>(f: impl FnOnce() -> T) -> Result<T, String> {
    match catch_unwind(AssertUnwindSafe(f)) {
        Ok(v) => Ok(v),
        Err(e) => {
            let payload = if let Some(s) = e.downcast_ref::<&str>() {
                s.to_string()
            } else if let Some(s) = e.downcast_ref::<String>() {
                s.clone()
            } else {
                "non-string panic payload".to_string()
            };
            // the hook recorded the location; take the most recent entry
            let loc = PANIC_LOG
                .lock()
                .unwrap_or_else(|e| e.into_inner())
                .last()
                .cloned()
                .unwrap_or_default();
            Err(format!("{payload} [{loc}]"))
        }
    }
}

#[derive(Clone, Debug)]
pub struct Violation {
    /// exact, check-specific key (used to match known findings)
    pub signature: String,
    pub detail: String,
    /// enough to replay: seed/shard/iteration + op list or event history
    pub replay: Value,
}

#[derive(Default)]
struct Inner {
    evaluations: u64,
    distinct: HashSet<u64>,
    samples: Vec<Value>,
    counters: BTreeMap<String, u64>,
    violations: Vec<Violation>,
    violation_sigs: BTreeMap<String, u64>,
    inconclusive: Vec<String>,
    notes: Vec<String>,
    thresholds: BTreeMap<String, u64>,
    info: BTreeMap<String, Value>,
}

/// Thread-safe accumulator of what a monitor observed.
#[derive(Clone)]
pub struct Report {
    inner: Arc<Mutex<Inner>>,
    pub property: String,
    pub start: Instant,
    max_samples: usize,
    max_violations_per_sig: u64,
}

impl Report {
    pub fn new(property: &str) -> Self {
        Report {
            inner: Arc::new(Mutex::new(Inner::default())),
            property: property.to_string(),
            start: Instant::now(),
            max_samples: 6,
            max_violations_per_sig: 3,
        }
    }

    fn lock(&self) -> std::sync::MutexGuard<'_, Inner> {
        self.inner.lock().unwrap_or_else(|e| e.into_inner())
    }

    /// one execution / case judged by the oracle
    pub fn eval(&self) {
        self.lock().evaluations += 1;
    }

    pub fn evals(&self, n: u64) {
        self.lock().evaluations += n;
    }

    /// record a distinct non-trivial case by its hash
    pub fn distinct<T: Hash>(&self, case: &T) {
        let h = hash64(case);
        self.lock().distinct.insert(h);
    }

    pub fn distinct_hash(&self, h: u64) {
        self.lock().distinct.insert(h);
    }

    pub fn count(&self, key: &str) {
        self.add(key, 1);
    }

    pub fn add(&self, key: &str, n: u64) {
        let mut l = self.lock();
        *l.counters.entry(key.to_string()).or_insert(0) += n;
    }

    pub fn get(&self, key: &str) -> u64 {
        self.lock().counters.get(key).copied().unwrap_or(0)
    }

    /// keep up to `max_samples` actual cases
    pub fn sample(&self, v: Value) {
        let mut l = self.lock();
        if l.samples.len() < self.max_samples {
            l.samples.push(v);
        }
    }

    pub fn wants_sample(&self) -> bool {
        self.lock().samples.len() < self.max_samples
    }

    pub fn note(&self, s: impl Into<String>) {
        let mut l = self.lock();
        if l.notes.len() < 50 {
            l.notes.push(s.into());
        }
    }

    pub fn info(&self, key: &str, v: Value) {
        self.lock().info.insert(key.to_string(), v);
    }

    /// the run needs counter `key` >= `min` to be conclusive
    pub fn require(&self, key: &str, min: u64) {
        self.lock().thresholds.insert(key.to_string(), min);
    }

    pub fn inconclusive(&self, reason: impl Into<String>) {
        let mut l = self.lock();
        if l.inconclusive.len() < 20 {
            l.inconclusive.push(reason.into());
        }
    }

    pub fn violation(&self, signature: impl Into<String>, detail: impl Into<String>, replay: Value) {
        let signature = signature.into();
        let mut l = self.lock();
        let n = l.violation_sigs.entry(signature.clone()).or_insert(0);
        *n += 1;
        if *n <= self.max_violations_per_sig {
            l.violations.push(Violation {
                signature,
                detail: detail.into(),
                replay,
            });
        }
    }

    pub fn violation_count(&self) -> u64 {
        self.lock().violation_sigs.values().sum()
    }

    /// Write the result JSON for the driver. `rule` states how cases are
    /// generated and what makes one distinct/non-trivial.
    pub fn finish(&self, args: &Args, level: &str, rule: &str, exhaustive: bool, assumptions: &[&str]) {
        let l = self.lock();
        let mut inconclusive = l.inconclusive.clone();
        for (k, min) in &l.thresholds {
            let got = l.counters.get(k).copied().unwrap_or(0);
            if got < *min {
                inconclusive.push(format!("threshold not met: {k} observed {got} < required {min}"));
            }
        }
        let violations: Vec<Value> = l
            .violations
            .iter()
            .map(|v| json!({"signature": v.signature, "detail": v.detail, "replay": v.replay}))
            .collect();
        let out = json!({
            "property": self.property,
            "tier": args.tier_str(),
            "seed": args.seed,
            "level": level,
            "evaluations": l.evaluations,
            "distinct_nontrivial": l.distinct.len(),
            "rule": rule,
            "samples": l.samples,
            "counters": l.counters,
            "thresholds": l.thresholds,
            "exhaustive": exhaustive,
            "assumptions": assumptions,
            "violations": violations,
            "violation_signature_counts": l.violation_sigs,
            "inconclusive": inconclusive,
            "notes": l.notes,
            "info": l.info,
            "wall_s": self.start.elapsed().as_secs_f64(),
        });
        if let Some(parent) = args.out.parent() {
            let _ = std::fs::create_dir_all(parent);
        }
        std::fs::write(&args.out, serde_json::to_vec_pretty(&out).unwrap()).expect("write result");
    }
}

/// Run `n` shards of `f(shard_index, rng_seed)` on up to `threads` OS threads.
/// A panic escaping a shard is recorded as *inconclusive* (harness error), not a
/// violation: monitors must catch the panics they want to judge themselves.
pub fn run_shards<F>(report: &Report, args: &Args, n: usize, f: F)
where
    F: Fn(usize, u64) + Send + Sync + 'static,
{
    let f = Arc::new(f);
    let next = Arc::new(AtomicU64::new(0));
    let threads = args.threads.min(n).max(1);
    let mut handles = Vec::new();
    for _ in 0..threads {
        let f = f.clone();
        let next = next.clone();
        let report = report.clone();
        let seed = args.seed;
        let prop = tag(&args.property);
        handles.push(
            std::thread::Builder::new()
                .stack_size(64 << 20)
                .spawn(move || {
                    loop {
                        let i = next.fetch_add(1, Ordering::SeqCst) as usize;
                        if i >= n {
                            break;
                        }
                        let s = mix(seed, &[prop, i as u64]);
                        if let Err(p) = catch(|| f(i, s)) {
                            report.inconclusive(format!("shard {i} (seed {s}) panicked in harness: {p}"));
                        }
                    }
                })
                .expect("spawn"),
        );
    }
    for h in handles {
        let _ = h.join();
    }
}

/// Append-only event log with one process-wide logical clock.
#[derive(Clone, Default)]
pub struct EventLog {
    events: Arc<Mutex<Vec<Value>>>,
    clock: Arc<AtomicU64>,
}

impl EventLog {
    pub fn new() -> Self {
        Self::default()
    }

    /// record an event; returns its logical timestamp
    pub fn push(&self, kind: &str, mut fields: Value) -> u64 {
        let t = self.clock.fetch_add(1, Ordering::SeqCst);
        if let Value::Object(m) = &mut fields {
            m.insert("t".into(), json!(t));
            m.insert("kind".into(), json!(kind));
        } else {
            fields = json!({"t": t, "kind": kind, "v": fields});
        }
        self.events.lock().unwrap_or_else(|e| e.into_inner()).push(fields);
        t
    }

    pub fn snapshot(&self) -> Vec<Value> {
        self.events.lock().unwrap_or_else(|e| e.into_inner()).clone()
    }

    pub fn len(&self) -> usize {
        self.events.lock().unwrap_or_else(|e| e.into_inner()).len()
    }

    pub fn is_empty(&self) -> bool {
        self.len() == 0
    }

    pub fn write_jsonl(&self, path: &std::path::Path) {
        use std::io::Write;
        if let Some(p) = path.parent() {
            let _ = std::fs::create_dir_all(p);
        }
        let mut f = std::io::BufWriter::new(std::fs::File::create(path).expect("event log"));
        for e in self.snapshot() {
            let _ = writeln!(f, "{e}");
        }
    }
}

pub fn read_replay(args: &Args) -> Option<Value> {
    let p = args.replay.as_ref()?;
    let s = std::fs::read_to_string(p).ok()?;
    let v: Value = serde_json::from_str(&s).ok()?;
    // the driver stores {"property","signature","detail","replay":{...}}
    Some(v.get("replay").cloned().unwrap_or(v))
}

pub fn hex(b: impl AsRef<[u8]>) -> String {
    hex::encode(b)
}
