//! C15 — only blocks that satisfy the consensus rules are accepted.
//!
//! Workload: sealed chains (genesis + N blocks) under `PoA`, `PoAV2` without overrides
//! and `PoAV2` with a key schedule that changes every few heights; blocks are
//! structurally generated (random transactions of every kind, random generated-field
//! inputs), built with `Block::new`, signed with the key the schedule prescribes and
//! stored in a real on-chain `Database` (so the verifier reads the real parent header
//! and the real block-header Merkle root). For every block ~170 single-field
//! mutations are derived, each in three modes: *stale* (only the field is changed, as
//! a peer could send it over the wire), *rehash* (application hash and id recomputed,
//! old seal) and *resign* (recomputed and sealed again with the correct key).
//!
//! The three acceptance gates of the real code are observed separately:
//! `Verifier::verify_block_fields` (via the production `VerifierAdapter`),
//! `Verifier::verify_consensus`, `Block::try_from_executed`.
//!
//! Oracle (written from the property text): a model of the chain (heights, per-height
//! RFC-6962 root over block ids, parent da height / time, own key schedule) decides
//! for every case which rule is violated:
//!   * height 0 / unknown parent / prev_root != parent root / da or time below parent /
//!     application hash not matching the application fields / tx root or count not
//!     matching the transactions / genesis seal on a non-genesis block
//!         => `verify_block_fields` must return `Err`
//!   * tx root or count not matching => `try_from_executed` must return `None`
//!   * seal not produced by the key scheduled for the block's height over the block's
//!     current id => `verify_consensus` must return `false`
//!   * no rule violated => all three must accept (valid blocks must pass)
//!   * block content changed and everything accepted => the id must have changed.

#[path = "../../mon-aggregator/src/txgen.rs"]
mod txgen;

use fuel_core::{
    database::{
        Database,
        database_description::on_chain::OnChain,
    },
    service::adapters::VerifierAdapter,
};
use fuel_core_chain_config::{
    ConsensusConfig,
    PoAV2,
};
use fuel_core_consensus_module::block_verifier::{
    Verifier,
    config::Config as VerifierConfig,
};
use fuel_core_storage::{
    StorageAsMut,
    tables::FuelBlocks,
    transactional::WriteTransaction,
};
use fuel_core_types::{
    blockchain::{
        SealedBlock,
        SealedBlockHeader,
        block::Block,
        consensus::{
            Consensus,
            poa::PoAConsensus,
        },
        header::{
            ApplicationHeader,
            BlockHeader,
            BlockHeaderV1,
            ConsensusHeader,
            GeneratedConsensusFields,
            PartialBlockHeader,
            v1::GeneratedApplicationFieldsV1,
        },
        primitives::{
            DaBlockHeight,
            Empty,
        },
    },
    fuel_crypto::{
        SecretKey,
        Signature,
    },
    fuel_tx::{
        Input,
        Transaction,
        field::{
            ReceiptsRoot,
            Witnesses,
        },
    },
    fuel_types::{
        Address,
        BlockHeight,
        ChainId,
        MessageId,
        canonical::{
            Deserialize,
            Serialize,
        },
    },
    tai64::Tai64,
};
use rand::{
    Rng,
    rngs::StdRng,
};
use serde_json::json;
use std::collections::BTreeMap;
use txgen::*;
use vcommon::*;

type ODb = Database<OnChain>;

fn main() {
    let args = Args::parse();
    install_quiet_panic_hook();
    let report = Report::new(&args.property);
    match args.property.as_str() {
        "C15" => c15(&args, &report),
        other => {
            report.inconclusive(format!(
                "property {other} not implemented in this monitor"
            ));
            report.finish(&args, "exploration", "", false, &[]);
        }
    }
}

// --------------------------------------------------------------------------
// model side
// --------------------------------------------------------------------------

/// All header fields, in plain form.
#[derive(Clone, Debug, PartialEq, Eq)]
struct Fields {
    da: u64,
    cpv: u32,
    stf: u32,
    tx_count: u16,
    msg_count: u32,
    tx_root: [u8; 32],
    outbox_root: [u8; 32],
    event_root: [u8; 32],
    prev_root: [u8; 32],
    height: u32,
    time: u64,
    app_hash: [u8; 32],
}

impl Fields {
    fn of(h: &BlockHeader) -> Self {
        Fields {
            da: h.da_height().0,
            cpv: h.consensus_parameters_version(),
            stf: h.state_transition_bytecode_version(),
            tx_count: h.transactions_count(),
            msg_count: h.message_receipt_count(),
            tx_root: *h.transactions_root(),
            outbox_root: *h.message_outbox_root(),
            event_root: *h.event_inbox_root(),
            prev_root: **h.prev_root(),
            height: **h.height(),
            time: h.time().0,
            app_hash: **h.application_hash(),
        }
    }

    fn app_part(&self) -> (u64, u32, u32, u16, u32, [u8; 32], [u8; 32], [u8; 32]) {
        (
            self.da,
            self.cpv,
            self.stf,
            self.tx_count,
            self.msg_count,
            self.tx_root,
            self.outbox_root,
            self.event_root,
        )
    }

    /// Build the header value. `rehash`: recompute application hash + id the way a
    /// block producer would; otherwise the header carries exactly these fields and
    /// no cached id (what deserialisation from the wire yields).
    fn build(&self, rehash: bool) -> BlockHeader {
        let mut v1 = BlockHeaderV1::default();
        v1.set_application_header(ApplicationHeader {
            da_height: DaBlockHeight(self.da),
            consensus_parameters_version: self.cpv,
            state_transition_bytecode_version: self.stf,
            generated: GeneratedApplicationFieldsV1 {
                transactions_count: self.tx_count,
                message_receipt_count: self.msg_count,
                transactions_root: self.tx_root.into(),
                message_outbox_root: self.outbox_root.into(),
                event_inbox_root: self.event_root.into(),
            },
        });
        let mut h = BlockHeader::V1(v1);
        h.set_consensus_header(ConsensusHeader {
            prev_root: self.prev_root.into(),
            height: self.height.into(),
            time: Tai64(self.time),
            generated: GeneratedConsensusFields {
                application_hash: self.app_hash.into(),
            },
        });
        if rehash {
            h.recalculate_metadata();
        }
        h
    }
}

#[derive(Clone, Debug)]
struct ModelCfg {
    /// PoA (single key) or PoAV2
    v2: bool,
    genesis: Address,
    /// (first height, key address), ascending
    overrides: Vec<(u32, Address)>,
}

impl ModelCfg {
    /// the key address that has to seal height `h`
    fn signer_for(&self, h: u32) -> Address {
        let mut a = self.genesis;
        for (from, k) in &self.overrides {
            if *from <= h {
                a = *k;
            }
        }
        a
    }

    fn real(&self) -> ConsensusConfig {
        if self.v2 {
            let map: BTreeMap<BlockHeight, Address> = self
                .overrides
                .iter()
                .map(|(h, a)| (BlockHeight::new(*h), *a))
                .collect();
            ConsensusConfig::PoAV2(PoAV2::new(self.genesis, map))
        } else {
            ConsensusConfig::PoA {
                signing_key: self.genesis,
            }
        }
    }

    fn kind(&self) -> &'static str {
        match (self.v2, self.overrides.is_empty()) {
            (false, _) => "PoA",
            (true, true) => "PoAV2-no-overrides",
            (true, false) => "PoAV2-schedule",
        }
    }
}

fn addr_of(sk: &SecretKey) -> Address {
    Input::owner(&sk.public_key())
}

#[derive(Clone)]
struct Sched {
    genesis: SecretKey,
    overrides: Vec<(u32, SecretKey)>,
}

impl Sched {
    fn secret_for(&self, h: u32) -> &SecretKey {
        let mut s = &self.genesis;
        for (from, k) in &self.overrides {
            if *from <= h {
                s = k;
            }
        }
        s
    }

    fn model(&self, v2: bool) -> ModelCfg {
        ModelCfg {
            v2,
            genesis: addr_of(&self.genesis),
            overrides: self
                .overrides
                .iter()
                .map(|(h, k)| (*h, addr_of(k)))
                .collect(),
        }
    }
}

#[derive(Clone, Debug)]
struct ParentInfo {
    /// RFC 6962 root over the ids of all blocks up to and including this height
    root: [u8; 32],
    da: u64,
    time: u64,
    id: [u8; 32],
}

#[derive(Clone)]
enum Seal {
    PoA {
        sig: Signature,
        signer: Address,
        /// the 32 bytes that were signed
        msg: [u8; 32],
        tampered: bool,
    },
    Genesis,
}

struct Case {
    op: String,
    mode: &'static str,
    fields: Fields,
    rehash: bool,
    txs: Vec<Transaction>,
    seal: Seal,
    /// `None`: the session's configuration
    cfg: Option<ModelCfg>,
    /// kind of seal/config manipulation, for the signature of a finding
    sig_class: &'static str,
}

#[derive(Debug, Clone, PartialEq)]
enum Obs {
    Accept,
    Reject(String),
    Panic(String),
}

impl Obs {
    fn accepted(&self) -> bool {
        matches!(self, Obs::Accept)
    }
    fn short(&self) -> &'static str {
        match self {
            Obs::Accept => "accept",
            Obs::Reject(_) => "reject",
            Obs::Panic(_) => "panic",
        }
    }
}

struct Session {
    db: ODb,
    verifier: std::sync::Arc<Verifier<ODb>>,
    g_height: u32,
    g_da: u64,
    cfg: ModelCfg,
    sched: Sched,
    chain: BTreeMap<u32, ParentInfo>,
    ids: Vec<Vec<u8>>,
}

fn tx_bytes(txs: &[Transaction]) -> Vec<Vec<u8>> {
    txs.iter().map(|t| t.to_bytes()).collect()
}

fn flip(b: &mut [u8; 32], rng: &mut StdRng) {
    let i = rng.gen_range(0..32);
    b[i] ^= 1 << rng.gen_range(0..8);
}

// --------------------------------------------------------------------------
// evaluating one case against the real code and the model
// --------------------------------------------------------------------------

struct Ctx<'a> {
    report: &'a Report,
    selftest: u32,
    replay: serde_json::Value,
}

#[allow(clippy::too_many_arguments)]
fn evaluate(
    ctx: &Ctx,
    s: &Session,
    rng: &mut StdRng,
    orig_fields: &Fields,
    orig_txs_bytes: &[Vec<u8>],
    orig_id: [u8; 32],
    at_key_boundary: bool,
    c: &Case,
) -> bool {
    let report = ctx.report;
    let pfx = if ctx.selftest > 0 { "selftest:" } else { "" };
    report.eval();
    report.count("c15.cases");
    report.count(&format!("c15.mode.{}", c.mode));
    let mcfg = c.cfg.as_ref().unwrap_or(&s.cfg);
    report.count(&format!("c15.config.{}", mcfg.kind()));

    // ---- build the values handed to the real code
    let mut header = c.fields.build(c.rehash);
    let mut txs = c.txs.clone();
    let mut consensus = match &c.seal {
        Seal::PoA { sig, .. } => Consensus::PoA(PoAConsensus::new(*sig)),
        Seal::Genesis => Consensus::Genesis(Default::default()),
    };
    let mut block = Block::default();
    *block.header_mut() = header.clone();
    *block.transactions_mut() = txs.clone();
    if rng.gen_bool(0.3) {
        // through the wire format used for sealed blocks between nodes
        let sealed = SealedBlock {
            entity: block.clone(),
            consensus: consensus.clone(),
        };
        let bytes = postcard::to_allocvec(&sealed).expect("postcard");
        let back: SealedBlock = postcard::from_bytes(&bytes).expect("postcard");
        report.count("c15.via_postcard");
        block = back.entity;
        consensus = back.consensus;
        header = block.header().clone();
        txs = block.transactions().to_vec();
    }

    // ---- observe the three gates
    let my_cfg = c.cfg.as_ref().map(|m| m.real());
    let alt_verifier = my_cfg.map(|cc| {
        Verifier::new(
            VerifierConfig::new(cc, s.g_height.into(), DaBlockHeight(s.g_da)),
            s.db.clone(),
        )
    });
    let verifier: &Verifier<ODb> = match &alt_verifier {
        Some(v) => v,
        None => s.verifier.as_ref(),
    };
    let obs_a = match catch(|| Block::try_from_executed(header.clone(), txs.clone())) {
        Ok(Some(_)) => Obs::Accept,
        Ok(None) => Obs::Reject("None".into()),
        Err(p) => Obs::Panic(p),
    };
    let mut obs_b = match catch(|| verifier.verify_block_fields(&consensus, &block)) {
        Ok(Ok(())) => Obs::Accept,
        Ok(Err(e)) => Obs::Reject(format!("{e}")),
        Err(p) => Obs::Panic(p),
    };
    let sealed_header = SealedBlockHeader {
        entity: header.clone(),
        consensus: consensus.clone(),
    };
    let mut obs_c = match catch(|| verifier.verify_consensus(&sealed_header)) {
        Ok(true) => Obs::Accept,
        Ok(false) => Obs::Reject("false".into()),
        Err(p) => Obs::Panic(p),
    };
    // deliberately wrong wrappers (oracle self-test)
    match ctx.selftest {
        1 if c.op.starts_with("prev_root") => obs_b = Obs::Accept,
        2 if c.op == "sig:other_key" => obs_c = Obs::Accept,
        3 if c.op == "valid" => obs_b = Obs::Reject("selftest".into()),
        4 if c.op.starts_with("time=parent-1") => obs_b = Obs::Accept,
        _ => {}
    }

    // ---- the model's verdict
    let f = &c.fields;
    let mut why: Vec<&'static str> = Vec::new();
    let genesis_seal = matches!(c.seal, Seal::Genesis);
    if genesis_seal {
        why.push("genesis_seal");
    }
    if f.height == 0 {
        why.push("height_zero");
    } else {
        match s.chain.get(&(f.height - 1)) {
            None => why.push("unknown_parent"),
            Some(p) => {
                if p.root != f.prev_root {
                    why.push("prev_root");
                }
                if f.da < p.da {
                    why.push("da_height");
                }
                if f.time < p.time {
                    why.push("time");
                }
            }
        }
    }
    let app_consistent = c.rehash
        || (f.app_part() == orig_fields.app_part() && f.app_hash == orig_fields.app_hash);
    if !app_consistent {
        why.push("application_hash");
    }
    let now_bytes = tx_bytes(&c.txs);
    let txs_match =
        rfc6962_root(&now_bytes) == f.tx_root && now_bytes.len() == f.tx_count as usize;
    if !txs_match {
        why.push("transactions");
    }
    let fields_ok = why.is_empty();
    let id_now: Option<[u8; 32]> = catch(|| header.id()).ok().map(|id| {
        let b: fuel_core_types::fuel_types::Bytes32 = id.into();
        *b
    });
    let sig_ok: Option<bool> = match &c.seal {
        // `verify_consensus` does not judge genesis seals
        Seal::Genesis => None,
        Seal::PoA {
            signer,
            msg,
            tampered,
            ..
        } => id_now.map(|id| {
            !*tampered && *msg == id && *signer == mcfg.signer_for(f.height)
        }),
    };
    if sig_ok.is_none() {
        report.count("c15.verify_consensus_not_judged");
    }

    let content_changed = f != orig_fields || now_bytes != orig_txs_bytes;
    let shape = (
        c.op.clone(),
        c.mode,
        mcfg.kind(),
        at_key_boundary,
        obs_a.short(),
        obs_b.short(),
        obs_c.short(),
    );
    report.distinct(&shape);
    for w in &why {
        report.count(&format!("c15.rule_violated.{w}"));
    }
    if why.len() == 1 {
        // the only thing wrong with this block is this rule
        report.count(&format!("c15.sole_rule_violated.{}", why[0]));
        if c.mode == "resign" {
            // ... and the seal is valid for the changed block: nothing but
            // verify_block_fields (and try_from_executed for transactions) can stop it
            report.count(&format!("c15.sole_rule_violated_and_validly_sealed.{}", why[0]));
        }
    }
    if let Obs::Reject(e) = &obs_b {
        let k: String = e.chars().take(40).collect();
        report.count(&format!("c15.verify_block_fields.err.{k}"));
    }
    if matches!(obs_b, Obs::Panic(_)) {
        report.count("c15.verify_block_fields.panic");
    }
    if matches!(obs_c, Obs::Panic(_)) {
        report.count("c15.verify_consensus.panic(debug-assert on stale app hash)");
    }
    if sig_ok == Some(false) {
        report.count(&format!("c15.seal_invalid.{}", c.sig_class));
    }

    let detail = |what: &str| {
        format!(
            "{what}; op={} mode={} config={} height={} (orig height {}); rules violated per model: {:?}; observed try_from_executed={:?} verify_block_fields={:?} verify_consensus={:?}; fields={:?}",
            c.op,
            c.mode,
            mcfg.kind(),
            f.height,
            orig_fields.height,
            why,
            obs_a,
            obs_b,
            obs_c,
            f
        )
    };
    let mut fired = false;

    // verify_block_fields
    if !fields_ok && obs_b.accepted() {
        report.violation(
            format!(
                "{pfx}accepted_invalid checker=verify_block_fields rule={}",
                why[0]
            ),
            detail("a block violating a consensus rule passed verify_block_fields"),
            ctx.replay.clone(),
        );
        fired = true;
    }
    if fields_ok && !obs_b.accepted() {
        report.violation(
            format!(
                "{pfx}valid_rejected checker=verify_block_fields op={}",
                c.op
            ),
            detail("a block satisfying every rule was rejected by verify_block_fields"),
            ctx.replay.clone(),
        );
        fired = true;
    }
    // try_from_executed
    if !txs_match && obs_a.accepted() {
        report.violation(
            format!("{pfx}accepted_invalid checker=try_from_executed rule=transactions"),
            detail("transactions do not match root/count but try_from_executed built the block"),
            ctx.replay.clone(),
        );
        fired = true;
    }
    if txs_match && !obs_a.accepted() {
        report.violation(
            format!("{pfx}valid_rejected checker=try_from_executed op={}", c.op),
            detail("transactions match root/count but try_from_executed refused"),
            ctx.replay.clone(),
        );
        fired = true;
    }
    // verify_consensus
    match sig_ok {
        Some(false) if obs_c.accepted() => {
            report.violation(
                format!(
                    "{pfx}accepted_invalid checker=verify_consensus rule=signature class={}",
                    c.sig_class
                ),
                detail("the seal is not a signature of the scheduled key over the block id but verify_consensus returned true"),
                ctx.replay.clone(),
            );
            fired = true;
        }
        Some(true) if !obs_c.accepted() => {
            report.violation(
                format!("{pfx}valid_rejected checker=verify_consensus op={}", c.op),
                detail("the seal is the scheduled key's signature over the block id but verify_consensus returned false"),
                ctx.replay.clone(),
            );
            fired = true;
        }
        _ => {}
    }
    // the id must commit to the whole content
    let all_accept = obs_a.accepted() && obs_b.accepted() && obs_c.accepted();
    if all_accept {
        report.count("c15.accepted_by_all");
        if content_changed {
            report.count("c15.accepted_changed_content");
            if id_now == Some(orig_id) {
                report.violation(
                    format!("{pfx}same_id_accepted op={}", c.op),
                    detail("block content changed, all gates accept, and the block id is unchanged"),
                    ctx.replay.clone(),
                );
                fired = true;
            }
        }
    } else {
        report.count("c15.rejected_by_some");
        let who = format!(
            "c15.rejected_by.{}{}{}",
            if obs_a.accepted() { "" } else { "A" },
            if obs_b.accepted() { "" } else { "B" },
            if obs_c.accepted() { "" } else { "C" }
        );
        report.count(&who);
    }
    if report.wants_sample() && c.op != "valid" && rng.gen_bool(0.002) {
        report.sample(json!({
            "op": c.op, "mode": c.mode, "config": mcfg.kind(),
            "model_rules_violated": why,
            "try_from_executed": obs_a.short(), "verify_block_fields": format!("{obs_b:?}"), "verify_consensus": obs_c.short(),
            "id_changed": id_now.map(|i| i != orig_id),
        }));
    }
    fired
}

// --------------------------------------------------------------------------
// mutation operators
// --------------------------------------------------------------------------

fn field_ops(
    rng: &mut StdRng,
    o: &Fields,
    parent: &ParentInfo,
    grandparent: Option<&ParentInfo>,
    g_height: u32,
    orig_id: [u8; 32],
) -> Vec<(String, Fields, bool)> {
    // (name, fields, touches only the application hash field)
    let mut v: Vec<(String, Fields, bool)> = Vec::new();
    macro_rules! op {
        ($name:expr, $f:ident, $body:block) => {{
            let mut $f = o.clone();
            $body;
            v.push(($name.to_string(), $f, false));
        }};
    }
    op!("da+1", f, { f.da = f.da.wrapping_add(1) });
    if o.da > 0 {
        op!("da-1", f, { f.da -= 1 });
    }
    if parent.da > 0 {
        op!("da=parent-1", f, { f.da = parent.da - 1 });
    }
    op!("da=parent", f, { f.da = parent.da });
    op!("da=rand", f, { f.da = rng.r#gen() });
    op!("da=max", f, { f.da = u64::MAX });
    op!("cpv+1", f, { f.cpv = f.cpv.wrapping_add(1) });
    op!("cpv=rand", f, { f.cpv = rng.r#gen() });
    op!("stf+1", f, { f.stf = f.stf.wrapping_add(1) });
    op!("stf=rand", f, { f.stf = rng.r#gen() });
    op!("tx_count+1", f, { f.tx_count = f.tx_count.wrapping_add(1) });
    if o.tx_count > 0 {
        op!("tx_count-1", f, { f.tx_count -= 1 });
        op!("tx_count=0", f, { f.tx_count = 0 });
    }
    op!("msg_count+1", f, { f.msg_count = f.msg_count.wrapping_add(1) });
    op!("msg_count=rand", f, { f.msg_count = rng.r#gen() });
    op!("tx_root:flip", f, { flip(&mut f.tx_root, rng) });
    op!("tx_root=rand", f, { f.tx_root = b32(rng) });
    op!("outbox_root:flip", f, { flip(&mut f.outbox_root, rng) });
    op!("event_root:flip", f, { flip(&mut f.event_root, rng) });
    op!("prev_root:flip", f, { flip(&mut f.prev_root, rng) });
    op!("prev_root=zero", f, { f.prev_root = [0; 32] });
    op!("prev_root=rand", f, { f.prev_root = b32(rng) });
    if let Some(gp) = grandparent {
        op!("prev_root=grandparent_root", f, { f.prev_root = gp.root });
    }
    op!("prev_root=parent_id", f, { f.prev_root = parent.id });
    op!("prev_root=own_id", f, { f.prev_root = orig_id });
    op!("height=0", f, { f.height = 0 });
    op!("height+1", f, { f.height = f.height.wrapping_add(1) });
    op!("height-1", f, { f.height -= 1 });
    op!("height=genesis", f, { f.height = g_height });
    op!("height=rand", f, { f.height = rng.r#gen() });
    op!("time+1", f, { f.time = f.time.wrapping_add(1) });
    if o.time > 0 {
        op!("time-1", f, { f.time -= 1 });
    }
    if parent.time > 0 {
        op!("time=parent-1", f, { f.time = parent.time - 1 });
    }
    op!("time=parent", f, { f.time = parent.time });
    op!("time=rand", f, { f.time = rng.r#gen() });
    op!("time=0", f, { f.time = 0 });
    // application hash itself: meaningful only without re-hashing
    for (name, val) in [
        ("app_hash:flip", {
            let mut x = o.app_hash;
            flip(&mut x, rng);
            x
        }),
        ("app_hash=rand", b32(rng)),
        ("app_hash=zero", [0u8; 32]),
    ] {
        let mut f = o.clone();
        f.app_hash = val;
        v.push((name.to_string(), f, true));
    }
    v
}

fn tx_ops(
    rng: &mut StdRng,
    alpha: &Alphabet,
    txs: &[Transaction],
    report: &Report,
) -> Vec<(String, Vec<Transaction>)> {
    let mut v = Vec::new();
    let opts = Opts::default();
    let fresh = |rng: &mut StdRng| {
        let k = rng.gen_range(0..6);
        gen_tx(rng, alpha, &mut FreeSource, &opts, k)
    };
    {
        let mut t = txs.to_vec();
        let at = rng.gen_range(0..=t.len());
        let n = fresh(rng);
        t.insert(at, n);
        v.push(("tx:insert".to_string(), t));
    }
    {
        let mut t = txs.to_vec();
        let n = fresh(rng);
        t.push(n);
        v.push(("tx:append".to_string(), t));
    }
    if !txs.is_empty() {
        let mut t = txs.to_vec();
        t.remove(rng.gen_range(0..t.len()));
        v.push(("tx:remove".to_string(), t));
        let mut t = txs.to_vec();
        let i = rng.gen_range(0..t.len());
        let d = t[i].clone();
        t.insert(i, d);
        v.push(("tx:duplicate".to_string(), t));
        let mut t = txs.to_vec();
        let i = rng.gen_range(0..t.len());
        t[i] = fresh(rng);
        v.push(("tx:replace".to_string(), t));
        // byte flip in the canonical encoding
        for _ in 0..4 {
            let i = rng.gen_range(0..txs.len());
            let mut b = txs[i].to_bytes();
            let at = rng.gen_range(0..b.len());
            b[at] ^= 1 << rng.gen_range(0..8);
            match catch(|| Transaction::from_bytes(&b)) {
                Ok(Ok(t2)) if t2.to_bytes() != txs[i].to_bytes() => {
                    let mut t = txs.to_vec();
                    t[i] = t2;
                    v.push(("tx:byteflip".to_string(), t));
                    break;
                }
                _ => report.count("c15.tx_byteflip_not_decodable"),
            }
        }
        // change that leaves the transaction id untouched: witness data
        let mut t = txs.to_vec();
        let i = rng.gen_range(0..t.len());
        let touched = match &mut t[i] {
            Transaction::Script(x) => {
                x.witnesses_mut().push(vec![0xAB].into());
                true
            }
            Transaction::Create(x) => {
                x.witnesses_mut().push(vec![0xAB].into());
                true
            }
            Transaction::Upgrade(x) => {
                x.witnesses_mut().push(vec![0xAB].into());
                true
            }
            Transaction::Upload(x) => {
                x.witnesses_mut().push(vec![0xAB].into());
                true
            }
            Transaction::Blob(x) => {
                x.witnesses_mut().push(vec![0xAB].into());
                true
            }
            Transaction::Mint(_) => false,
        };
        if touched {
            v.push(("tx:witness_only".to_string(), t));
        }
        // change of a field that is zeroed for the transaction id
        let mut t = txs.to_vec();
        if let Some(Transaction::Script(x)) =
            t.iter_mut().find(|x| matches!(x, Transaction::Script(_)))
        {
            let mut r = **x.receipts_root();
            flip(&mut r, rng);
            *x.receipts_root_mut() = r.into();
            v.push(("tx:malleable_field".to_string(), t));
        }
    }
    if txs.len() >= 2 {
        let i = rng.gen_range(0..txs.len());
        let j = (i + 1 + rng.gen_range(0..txs.len() - 1)) % txs.len();
        if txs[i].to_bytes() != txs[j].to_bytes() {
            let mut t = txs.to_vec();
            t.swap(i, j);
            v.push(("tx:swap".to_string(), t));
        }
    }
    v
}

// --------------------------------------------------------------------------
// session
// --------------------------------------------------------------------------

fn sign(sk: &SecretKey, id: [u8; 32]) -> Signature {
    let m = fuel_core_types::fuel_crypto::Message::from_bytes(id);
    Signature::sign(sk, &m)
}

fn id_bytes(b: &Block) -> [u8; 32] {
    let x: fuel_core_types::fuel_types::Bytes32 = b.id().into();
    *x
}

#[allow(clippy::too_many_arguments)]
fn run_session(report: &Report, seed: u64, shard: usize, session: u64, n_blocks: usize, selftest: u32) {
    let mut rng = rng_for(seed, &[tag("c15"), session]);
    let pfx = if selftest > 0 { "selftest:" } else { "" };
    let chain_id = ChainId::default();
    let alpha = Alphabet::new(&mut rng, 4, 30);
    let kind = session % 3; // 0 PoA, 1 PoAV2 without overrides, 2 PoAV2 with schedule
    let g_height: u32 = *pick(&mut rng, &[0u32, 0, 1, 5, 1000, 0x00ff_fffa]);
    let g_da: u64 = *pick(&mut rng, &[0u64, 0, 7, 1 << 40]);
    let mut sched = Sched {
        genesis: SecretKey::random(&mut rng),
        overrides: vec![],
    };
    if kind == 2 {
        let mut h = g_height + rng.gen_range(0..4);
        for _ in 0..rng.gen_range(2..6) {
            sched.overrides.push((h, SecretKey::random(&mut rng)));
            h += rng.gen_range(1..5);
        }
    }
    let cfg = sched.model(kind != 0);

    // genesis
    let mut db = ODb::in_memory();
    let g_header = PartialBlockHeader {
        application: ApplicationHeader {
            da_height: DaBlockHeight(g_da),
            consensus_parameters_version: 0,
            state_transition_bytecode_version: 0,
            generated: Empty,
        },
        consensus: ConsensusHeader {
            prev_root: Default::default(),
            height: g_height.into(),
            time: Tai64::UNIX_EPOCH,
            generated: Empty,
        },
    };
    let genesis = Block::new(g_header, vec![], &[], Default::default()).unwrap();
    let store = |db: &mut ODb, b: &Block| -> Result<(), String> {
        let mut tx = db.write_transaction();
        tx.storage_as_mut::<FuelBlocks>()
            .insert(b.header().height(), &b.compress(&chain_id))
            .map_err(|e| format!("{e}"))?;
        tx.commit().map(|_| ()).map_err(|e| format!("{e}"))
    };
    if let Err(e) = store(&mut db, &genesis) {
        report.inconclusive(format!("harness: cannot store genesis: {e}"));
        return;
    }
    let adapter = VerifierAdapter::new(&genesis.compress(&chain_id), cfg.real(), db.clone());
    let mut s = Session {
        db,
        verifier: adapter.block_verifier.clone(),
        g_height,
        g_da,
        cfg,
        sched,
        chain: BTreeMap::new(),
        ids: vec![],
    };
    let gid = id_bytes(&genesis);
    s.ids.push(gid.to_vec());
    s.chain.insert(
        g_height,
        ParentInfo {
            root: rfc6962_root(&s.ids),
            da: g_da,
            time: Tai64::UNIX_EPOCH.0,
            id: gid,
        },
    );

    for bi in 0..n_blocks {
        let height = g_height + 1 + bi as u32;
        let parent = s.chain.get(&(height - 1)).cloned().expect("parent");
        let grandparent = height
            .checked_sub(2)
            .and_then(|h| s.chain.get(&h))
            .cloned();
        // ---- a valid block
        let n_txs = rng.gen_range(0..4);
        let mut txs = Vec::new();
        for _ in 0..n_txs {
            let opts = Opts {
                executed_form: rng.gen_bool(0.7),
                ..Default::default()
            };
            let k = rng.gen_range(0..6);
            txs.push(gen_tx(&mut rng, &alpha, &mut FreeSource, &opts, k));
        }
        if rng.gen_bool(0.8) {
            txs.push(gen_mint(
                &mut rng,
                &alpha,
                &Opts::default(),
                height.into(),
                n_txs as u16,
            ));
        }
        let da = parent.da + *pick(&mut rng, &[0u64, 0, 0, 1, 3]);
        let time = parent.time + *pick(&mut rng, &[0u64, 0, 1, 1, 10]);
        let partial = PartialBlockHeader {
            application: ApplicationHeader {
                da_height: DaBlockHeight(da),
                consensus_parameters_version: idx32(&mut rng),
                state_transition_bytecode_version: idx32(&mut rng),
                generated: Empty,
            },
            consensus: ConsensusHeader {
                prev_root: parent.root.into(),
                height: height.into(),
                time: Tai64(time),
                generated: Empty,
            },
        };
        let n_msgs = rng.gen_range(0..3);
        let msg_ids: Vec<MessageId> =
            (0..n_msgs).map(|_| MessageId::new(b32(&mut rng))).collect();
        let event_root = if rng.gen_bool(0.5) {
            [0u8; 32]
        } else {
            b32(&mut rng)
        };
        let block = Block::new(partial, txs.clone(), &msg_ids, event_root.into())
            .expect("few txs");
        let orig_id = id_bytes(&block);
        let orig_fields = Fields::of(block.header());
        let orig_bytes = tx_bytes(&txs);
        let sk = s.sched.secret_for(height).clone();
        let sig = sign(&sk, orig_id);
        let at_boundary = s.cfg.overrides.iter().any(|(h, _)| *h == height);
        report.count("c15.valid_blocks");
        report.count(&format!("c15.valid_blocks.{}", s.cfg.kind()));
        if at_boundary {
            report.count("c15.valid_blocks_at_key_change_height");
        }
        if da == parent.da {
            report.count("c15.valid_blocks_da_equal_parent");
        }
        if time == parent.time {
            report.count("c15.valid_blocks_time_equal_parent");
        }
        let replay = json!({"seed": seed, "shard_seed": seed, "shard": shard, "session": session, "block": bi, "n_blocks": n_blocks});
        let ctx = Ctx {
            report,
            selftest,
            replay,
        };
        // the model of the transactions root must agree with the header it describes
        if rfc6962_root(&orig_bytes) != orig_fields.tx_root
            || orig_fields.tx_count as usize != txs.len()
        {
            report.violation(
                format!("{pfx}tx_root_differs_from_spec_model"),
                format!(
                    "Block::new produced transactions_root/count that is not the RFC-6962 root over the serialized transactions / their number (height {height}, {} txs)",
                    txs.len()
                ),
                ctx.replay.clone(),
            );
            return;
        }
        let orig_seal = Seal::PoA {
            sig,
            signer: addr_of(&sk),
            msg: orig_id,
            tampered: false,
        };
        let mk = |op: &str,
                  mode: &'static str,
                  fields: Fields,
                  rehash: bool,
                  txs: Vec<Transaction>,
                  seal: Seal,
                  cfg: Option<ModelCfg>,
                  sig_class: &'static str| Case {
            op: op.to_string(),
            mode,
            fields,
            rehash,
            txs,
            seal,
            cfg,
            sig_class,
        };
        let mut cases: Vec<Case> = Vec::new();
        // the unmodified block, as built (cached id) and as received (no cached id)
        cases.push(mk(
            "valid",
            "asbuilt",
            orig_fields.clone(),
            true,
            txs.clone(),
            orig_seal.clone(),
            None,
            "none",
        ));
        cases.push(mk(
            "valid",
            "stale",
            orig_fields.clone(),
            false,
            txs.clone(),
            orig_seal.clone(),
            None,
            "none",
        ));

        // ---- header field mutations
        let resign = |f: &Fields, s: &Session| -> Seal {
            // seal again with the key the schedule prescribes for the *new* height
            let h = f.build(true);
            let id: fuel_core_types::fuel_types::Bytes32 = h.id().into();
            let sk = s.sched.secret_for(f.height);
            Seal::PoA {
                sig: sign(sk, *id),
                signer: addr_of(sk),
                msg: *id,
                tampered: false,
            }
        };
        for (name, f, app_hash_only) in field_ops(
            &mut rng,
            &orig_fields,
            &parent,
            grandparent.as_ref(),
            g_height,
            orig_id,
        ) {
            cases.push(mk(
                &name,
                "stale",
                f.clone(),
                false,
                txs.clone(),
                orig_seal.clone(),
                None,
                "header_changed",
            ));
            if app_hash_only {
                continue;
            }
            // recomputed application hash / id, old seal
            let mut fr = f.clone();
            fr.app_hash = Fields::of(&f.build(true)).app_hash;
            cases.push(mk(
                &name,
                "rehash",
                fr.clone(),
                true,
                txs.clone(),
                orig_seal.clone(),
                None,
                "header_changed",
            ));
            let seal = resign(&fr, &s);
            cases.push(mk(
                &name,
                "resign",
                fr,
                true,
                txs.clone(),
                seal,
                None,
                "resigned",
            ));
        }

        // ---- transaction mutations
        for (name, t2) in tx_ops(&mut rng, &alpha, &txs, report) {
            cases.push(mk(
                &name,
                "stale",
                orig_fields.clone(),
                false,
                t2.clone(),
                orig_seal.clone(),
                None,
                "none",
            ));
            if t2.len() > u16::MAX as usize {
                continue;
            }
            let mut fr = orig_fields.clone();
            fr.tx_root = rfc6962_root(&tx_bytes(&t2));
            fr.tx_count = t2.len() as u16;
            fr.app_hash = Fields::of(&fr.build(true)).app_hash;
            cases.push(mk(
                &name,
                "rehash",
                fr.clone(),
                true,
                t2.clone(),
                orig_seal.clone(),
                None,
                "header_changed",
            ));
            let seal = resign(&fr, &s);
            cases.push(mk(&name, "resign", fr, true, t2, seal, None, "resigned"));
        }

        // ---- seal mutations (block untouched)
        {
            let mut sg = sig;
            let i = rng.gen_range(0..64);
            sg.as_mut()[i] ^= 1 << rng.gen_range(0..8);
            cases.push(mk(
                "sig:bitflip",
                "seal",
                orig_fields.clone(),
                true,
                txs.clone(),
                Seal::PoA {
                    sig: sg,
                    signer: addr_of(&sk),
                    msg: orig_id,
                    tampered: true,
                },
                None,
                "sig_tampered",
            ));
            let mut sg = sig;
            let i = rng.gen_range(0..64);
            sg.as_mut()[i] = sg.as_mut()[i].wrapping_add(1 + rng.gen_range(0..255u8));
            cases.push(mk(
                "sig:byte_changed",
                "seal",
                orig_fields.clone(),
                true,
                txs.clone(),
                Seal::PoA {
                    sig: sg,
                    signer: addr_of(&sk),
                    msg: orig_id,
                    tampered: true,
                },
                None,
                "sig_tampered",
            ));
            cases.push(mk(
                "sig:zero",
                "seal",
                orig_fields.clone(),
                true,
                txs.clone(),
                Seal::PoA {
                    sig: Signature::from_bytes([0u8; 64]),
                    signer: addr_of(&sk),
                    msg: orig_id,
                    tampered: true,
                },
                None,
                "sig_tampered",
            ));
            let other = SecretKey::random(&mut rng);
            cases.push(mk(
                "sig:other_key",
                "seal",
                orig_fields.clone(),
                true,
                txs.clone(),
                Seal::PoA {
                    sig: sign(&other, orig_id),
                    signer: addr_of(&other),
                    msg: orig_id,
                    tampered: false,
                },
                None,
                "wrong_key",
            ));
            // a key of the schedule, but not the one for this height
            let mut sched_keys: Vec<SecretKey> = vec![s.sched.genesis.clone()];
            sched_keys.extend(s.sched.overrides.iter().map(|(_, k)| k.clone()));
            if let Some(k2) = sched_keys.iter().find(|k| addr_of(k) != addr_of(&sk)) {
                cases.push(mk(
                    "sig:other_schedule_key",
                    "seal",
                    orig_fields.clone(),
                    true,
                    txs.clone(),
                    Seal::PoA {
                        sig: sign(k2, orig_id),
                        signer: addr_of(k2),
                        msg: orig_id,
                        tampered: false,
                    },
                    None,
                    "wrong_key",
                ));
            }
            // right key, but the signature is over the parent's id
            cases.push(mk(
                "sig:over_parent_id",
                "seal",
                orig_fields.clone(),
                true,
                txs.clone(),
                Seal::PoA {
                    sig: sign(&sk, parent.id),
                    signer: addr_of(&sk),
                    msg: parent.id,
                    tampered: false,
                },
                None,
                "wrong_message",
            ));
            cases.push(mk(
                "seal:genesis",
                "seal",
                orig_fields.clone(),
                true,
                txs.clone(),
                Seal::Genesis,
                None,
                "genesis_seal",
            ));
        }

        // ---- key schedule / configuration mutations (block and seal untouched)
        {
            let base = s.cfg.clone();
            let mut alts: Vec<(&'static str, ModelCfg)> = Vec::new();
            if !base.overrides.is_empty() {
                let mut c = base.clone();
                for o in c.overrides.iter_mut() {
                    o.0 += 1;
                }
                alts.push(("cfg:schedule+1", c));
                if base.overrides.iter().all(|(h, _)| *h > 0) {
                    let mut c = base.clone();
                    for o in c.overrides.iter_mut() {
                        o.0 -= 1;
                    }
                    alts.push(("cfg:schedule-1", c));
                }
                let mut c = base.clone();
                let i = rng.gen_range(0..c.overrides.len());
                c.overrides.remove(i);
                alts.push(("cfg:override_removed", c));
                let mut c = base.clone();
                c.overrides.push((height, addr_of(&SecretKey::random(&mut rng))));
                c.overrides.sort_by_key(|x| x.0);
                c.overrides.dedup_by_key(|x| x.0);
                alts.push(("cfg:override_added_here", c));
            }
            let mut c = base.clone();
            c.genesis = addr_of(&SecretKey::random(&mut rng));
            alts.push(("cfg:genesis_key_replaced", c));
            // the same single key expressed in the other configuration version
            if base.overrides.is_empty() {
                let mut c = base.clone();
                c.v2 = !c.v2;
                alts.push(("cfg:other_version_same_key", c));
            } else {
                // PoA (v1) knows only the genesis key
                let mut c = base.clone();
                c.v2 = false;
                c.overrides.clear();
                alts.push(("cfg:v1_genesis_key_only", c));
            }
            for (name, c) in alts {
                cases.push(mk(
                    name,
                    "config",
                    orig_fields.clone(),
                    true,
                    txs.clone(),
                    orig_seal.clone(),
                    Some(c),
                    "schedule_changed",
                ));
            }
        }

        let mut stop = false;
        for c in &cases {
            let fired = evaluate(
                &ctx,
                &s,
                &mut rng,
                &orig_fields,
                &orig_bytes,
                orig_id,
                at_boundary,
                c,
            );
            if fired && c.op == "valid" {
                // the chain itself is broken for this monitor; later blocks would only repeat it
                stop = true;
            }
        }
        if stop {
            return;
        }

        // ---- extend the chain
        if let Err(e) = store(&mut s.db, &block) {
            report.inconclusive(format!("harness: cannot store block {height}: {e}"));
            return;
        }
        s.ids.push(orig_id.to_vec());
        s.chain.insert(
            height,
            ParentInfo {
                root: rfc6962_root(&s.ids),
                da,
                time,
                id: orig_id,
            },
        );
    }
    report.count("c15.sessions_completed");
}

fn c15(args: &Args, report: &Report) {
    let selftest: u32 = args
        .extra
        .get("selftest")
        .and_then(|s| s.parse().ok())
        .unwrap_or(0);
    let shards = args.by_tier(16usize, 64);
    let sessions = args.by_tier(9u64, 24);
    let n_blocks = args.by_tier(10usize, 16);
    if let Some(rp) = read_replay(args) {
        let seed = rp["shard_seed"].as_u64().unwrap_or(0);
        let session = rp["session"].as_u64().unwrap_or(0);
        let shard = rp["shard"].as_u64().unwrap_or(0) as usize;
        let nb = rp["n_blocks"].as_u64().unwrap_or(n_blocks as u64) as usize;
        run_session(report, seed, shard, session, nb, selftest);
    } else {
        let report2 = report.clone();
        run_shards(report, args, shards, move |shard, seed| {
            for s in 0..sessions {
                run_session(&report2, seed, shard, s, n_blocks, selftest);
            }
        });
        if selftest == 0 {
            report.require("c15.valid_blocks", args.by_tier(1200, 20_000));
            report.require("c15.cases", args.by_tier(150_000, 2_500_000));
            for k in ["PoA", "PoAV2-no-overrides", "PoAV2-schedule"] {
                report.require(&format!("c15.valid_blocks.{k}"), 100);
                report.require(&format!("c15.config.{k}"), 10_000);
            }
            report.require("c15.valid_blocks_at_key_change_height", 60);
            report.require("c15.valid_blocks_da_equal_parent", 100);
            report.require("c15.valid_blocks_time_equal_parent", 100);
            for r in [
                "height_zero",
                "unknown_parent",
                "prev_root",
                "da_height",
                "time",
                "application_hash",
                "transactions",
                "genesis_seal",
            ] {
                report.require(&format!("c15.rule_violated.{r}"), 300);
            }
            for r in ["height_zero", "unknown_parent", "prev_root", "da_height", "time", "transactions"] {
                report.require(&format!("c15.sole_rule_violated_and_validly_sealed.{r}"), 100);
            }
            report.require("c15.sole_rule_violated.application_hash", 1000);
            for k in [
                "header_changed",
                "sig_tampered",
                "wrong_key",
                "wrong_message",
                "schedule_changed",
            ] {
                report.require(&format!("c15.seal_invalid.{k}"), 200);
            }
            report.require("c15.accepted_changed_content", 5000);
            report.require("c15.mode.stale", 10_000);
            report.require("c15.mode.rehash", 10_000);
            report.require("c15.mode.resign", 10_000);
            report.require("c15.via_postcard", 5000);
        }
    }
    report.finish(
        args,
        "exploration",
        "session = genesis (height 0/1/5/1000/2^24-6, da 0/7/2^40) + 10-16 valid sealed \
         blocks under PoA / PoAV2 without overrides / PoAV2 with 2-5 key changes a few \
         heights apart; per block: the valid block (as built, and without cached id), ~45 \
         header-field operators x {stale, rehash, resign}, ~10 transaction operators \
         (insert/append/remove/duplicate/replace/swap/byte flip/witness-only/malleable \
         field) x {stale, rehash, resign}, 7 seal operators, up to 7 key-schedule \
         operators; 30% of the cases additionally pass through the postcard encoding of \
         SealedBlock. A case = one (block, seal, config) judged at all three gates; \
         distinct = distinct (operator, mode, config kind, at-key-change-height, \
         observed gate results)",
        false,
        &[
            "blocks are structurally generated, not executed (the consensus rules under test do not involve execution)",
            "secp256k1 signing/recovery (fuel-crypto) and sha256 are trusted; signature malleability is not explored beyond bit/byte changes",
            "release build with debug assertions: `header.id()` on a header whose application hash is stale panics in a debug_assert; such cases are not judged at verify_consensus (counted) and must be rejected by verify_block_fields",
            "fault-proving (V2 header) is not compiled in",
        ],
    );
}
